"""H - deterministic single-process harness: virtual event loop, baton scheduler, blocking shims.

One thread runs at any instant.  The *driver* thread (the simulated caller of RE(...),
RE.resume(), ...) is the only one that steps the loop.  External requests run on helper
threads that hold a baton while they execute and are parked at every blocking wait.
"""

import asyncio
import concurrent.futures
import heapq
import threading
from asyncio import coroutines, events, futures

HORIZON = 20000


class HelperKilled(BaseException):
    pass


class Unwind(BaseException):
    """Used to abandon a half-finished public call (X2)."""


class Deadlock(BaseException):
    pass


class Livelock(BaseException):
    pass


class HarnessError(Exception):
    """Nondeterminism / divergence: never reported as a property violation."""


# --------------------------------------------------------------------------- loop


class VirtualLoop(asyncio.BaseEventLoop):
    """Stock asyncio machinery, hand-stepped, on a virtual clock.

    Mirrors BaseEventLoop._run_once: at the start of an iteration due timers are moved
    behind the callbacks already queued, then exactly the callbacks present at that
    moment run; callbacks added meanwhile wait for the next iteration.  Time advances
    only when nothing is ready (an infinitely fast CPU).
    """

    in_handle = False
    hook = None
    _vtime = 1000.0

    def __init__(self):
        super().__init__()
        self._ready.clear()  # BaseEventLoop.__init__ queues a debug-mode callback when is_running()
        self._vtime = 1000.0
        self._batch = 0
        self._clock_resolution = 1e-9
        self.nsteps = 0  # handles executed
        self.in_handle = False
        self.cur_calls = 0  # call_soons made by the running handle (driver thread only)
        self.handle_log = []  # per executed handle: [name, ncalls]
        self.errors = []  # contexts passed to the exception handler
        self.hook = None  # called as hook(loop) after each call_soon inside a handle
        self._driver_ident = threading.get_ident()
        self.set_exception_handler(self._on_error)

    # -- what a selector loop would do
    def time(self):
        return self._vtime

    def is_running(self):
        return True

    def _write_to_self(self):
        pass

    def _process_events(self, event_list):
        pass

    def _on_error(self, loop, context):
        exc = context.get("exception")
        self.errors.append((context.get("message"), type(exc).__name__ if exc is not None else None, str(exc)))

    def _call_soon(self, callback, args, context):
        h = super()._call_soon(callback, args, context)
        if self.in_handle and threading.get_ident() == self._driver_ident:
            self.cur_calls += 1
            if self.hook is not None:
                self.hook(self)
        return h

    # -- stepping
    def _begin_iteration(self):
        sched = self._scheduled
        while sched and sched[0]._cancelled:
            h = heapq.heappop(sched)
            h._scheduled = False
        if not self._ready and sched and not getattr(self, "no_time_advance", False):
            # (no_time_advance: the caller issues its next call at once - timers stay pending across the idle gap)
            if sched[0]._when > self._vtime:
                self._vtime = sched[0]._when
        end = self._vtime + self._clock_resolution
        while sched:
            h = sched[0]
            if h._when >= end:
                break
            heapq.heappop(sched)
            h._scheduled = False
            if not h._cancelled:
                self._ready.append(h)
        self._batch = len(self._ready)

    def quiescent(self):
        if self._ready:
            return False
        return not any(not h._cancelled for h in self._scheduled)

    def has_ready(self):
        return bool(self._ready)

    def step(self):
        """Run one callback.  False when there is nothing to run, not even a timer."""
        while True:
            if self._batch == 0:
                self._begin_iteration()
                if self._batch == 0:
                    return False
            self._batch -= 1
            h = self._ready.popleft()
            if h._cancelled:
                continue
            break
        self.in_handle = True
        self.cur_calls = 0
        events._set_running_loop(self)
        try:
            h._run()
        finally:
            events._set_running_loop(None)
            self.in_handle = False
        self.handle_log.append((_handle_name(h), self.cur_calls))
        self.nsteps += 1
        h = None
        return True

    def ready_names(self):
        return [_handle_name(h) for h in self._ready if not h._cancelled]

    def timer_offsets(self):
        return sorted(round(h._when - self._vtime, 6) for h in self._scheduled if not h._cancelled)


def _handle_name(h):
    cb = h._callback
    while hasattr(cb, "func"):  # functools.partial
        cb = cb.func
    name = getattr(cb, "__qualname__", None) or type(cb).__name__
    self_ = getattr(cb, "__self__", None)
    if isinstance(self_, asyncio.Task):
        co = self_.get_coro()
        name += ":" + getattr(co, "__qualname__", type(co).__name__)
    return name


# --------------------------------------------------------------------------- scheduler

SCHED = None  # the scheduler of the session currently executing in this process


class Helper:
    def __init__(self, sched, label, fn):
        self.sched = sched
        self.label = label
        self.fn = fn
        self.sem = threading.Semaphore(0)
        self.state = "new"
        self.cond = None
        self.timed = False
        self.timed_out = False
        self.result = None
        self.exc = None
        self.killed = False
        self.thread = threading.Thread(target=self._main, daemon=True)

    def _main(self):
        self.sem.acquire()
        try:
            if self.killed:
                raise HelperKilled()
            self.result = self.fn()
        except HelperKilled:
            pass
        except BaseException as e:  # noqa: BLE001 - recorded as the request's outcome
            self.exc = e
        finally:
            self.state = "done"
            self.sched._driver_sem.release()


class Sched:
    """Owns the loop, the helper threads and the injection schedule of one session."""

    def __init__(self, loop, injections=(), env=None, horizon=HORIZON):
        self.loop = loop
        self.horizon = horizon
        self.env = env  # object with default_action() -> bool (releases, status completions)
        self.helpers = []
        self._by_ident = {}
        self._driver = threading.get_ident()
        self._driver_sem = threading.Semaphore(0)
        # pending injections: list of ((n, j), label, fn) consumed in order
        self.pending = sorted(injections, key=lambda x: x[0])
        self.on_inject = None  # callback(label, pos) for the timeline
        self.injected = []  # (pos, label, helper)
        self.stepping_hook = None  # X2: called before each loop step; may raise Unwind
        loop.hook = self._mid_handle

    # ---- public: blocking wait used by every shim
    def wait(self, cond, timeout=None):
        ident = threading.get_ident()
        if ident == self._driver:
            return self._drive(cond, timeout)
        return self._park(self._by_ident[ident], cond, timeout)

    # ---- driver side
    def _drive(self, cond, timeout=None):
        loop = self.loop
        while True:
            self._service(0)
            if cond():
                return True
            if self.stepping_hook is not None:
                self.stepping_hook()
            if not loop.step():
                # nothing runnable: let parked helpers and the environment act
                if self._service(0):
                    continue
                if cond():
                    return True
                if self.env is not None and self.env.default_action():
                    continue
                if self.timeout_parked():
                    continue
                if timeout is not None:
                    return False
                raise Deadlock()
            if loop.nsteps > self.horizon:
                raise Livelock()

    def drain(self):
        """Run the loop to quiescence (the real loop thread keeps going while the caller thinks)."""
        loop = self.loop
        while True:
            self._service(0)
            if self.stepping_hook is not None and (loop._ready or any(not h._cancelled for h in loop._scheduled)):
                self.stepping_hook()
            if not loop.step():
                if self._service(0):
                    continue
                # a helper thread blocked in a call of its own (e.g. an injected stop() waiting for the plan to end) is a
                # caller too: the environment keeps acting for it (releases the suspension it is waiting behind)
                blocked = any(h.state == "parked" and not h.timed for h in self.helpers)
                if self.env is not None and self.env.default_action(idle=not blocked):
                    continue
                if self.timeout_parked():
                    continue
                return
            if loop.nsteps > self.horizon:
                raise Livelock()

    def _mid_handle(self, loop):
        if threading.get_ident() != self._driver:
            return
        self._start_due(loop.cur_calls)

    def _start_due(self, j):
        did = False
        pos = (self.loop.nsteps, j)
        while self.pending and tuple(self.pending[0][0]) <= pos:
            p, label, fn = self.pending.pop(0)
            if tuple(p) != pos:
                # a position that does not exist in this execution: the parent execution
                # promised it would; that is a divergence, not a property violation
                raise HarnessError(f"injection position {p} missed (now at {pos}) for {label}")
            self.inject_now(label, fn, pos)
            did = True
        return did

    def inject_now(self, label, fn, pos=None):
        h = Helper(self, label, fn)
        self.helpers.append(h)
        self.injected.append((pos if pos is not None else (self.loop.nsteps, 0), label, h))
        if self.on_inject is not None:
            self.on_inject(label, pos if pos is not None else (self.loop.nsteps, 0))
        h.thread.start()
        self._by_ident[h.thread.ident] = h
        self._run_helper(h)
        return h

    def _run_helper(self, h):
        h.state = "running"
        h.sem.release()
        self._driver_sem.acquire()

    def _service(self, j):
        """Start due injections; resume parked helpers whose condition holds.  True if anything ran."""
        did = self._start_due(j)
        progress = True
        while progress:
            progress = False
            for h in self.helpers:
                if h.state == "parked" and h.cond():
                    self._run_helper(h)
                    progress = did = True
        return did

    def timeout_parked(self):
        """At total quiescence: fire the timeouts of helpers parked in a timed wait."""
        did = False
        for h in self.helpers:
            if h.state == "parked" and h.timed:
                h.timed_out = True
                self._run_helper(h)
                did = True
        return did

    # ---- helper side
    def _park(self, h, cond, timeout):
        while True:
            if cond():
                return True
            h.cond = cond
            h.timed = timeout is not None
            h.timed_out = False
            h.state = "parked"
            self._driver_sem.release()
            h.sem.acquire()
            if h.killed:
                raise HelperKilled()
            h.state = "running"
            if h.timed_out:
                return False

    def blocked_helpers(self):
        return [h.label for h in self.helpers if h.state == "parked"]

    def shutdown(self):
        for h in self.helpers:
            if h.state in ("parked", "new"):
                h.killed = True
                h.sem.release()
                self._driver_sem.acquire()
        for h in self.helpers:
            h.thread.join()
        self.helpers = []
        self._by_ident = {}
        self.loop.hook = None


# --------------------------------------------------------------------------- shims


class DrivenEvent:
    def __init__(self):
        self._flag = False

    def is_set(self):
        return self._flag

    def set(self):
        self._flag = True

    def clear(self):
        self._flag = False

    def wait(self, timeout=None):
        if self._flag:
            return True
        return SCHED.wait(self.is_set, timeout)


class DrivenLock:
    def __init__(self):
        self._locked = False

    def acquire(self, blocking=True, timeout=-1):
        if self._locked:
            if not blocking:
                return False
            SCHED.wait(lambda: not self._locked)
        self._locked = True
        return True

    def release(self):
        self._locked = False

    def locked(self):
        return self._locked

    def __enter__(self):
        self.acquire()
        return self

    def __exit__(self, *a):
        self.release()


class DrivenCFuture(concurrent.futures.Future):
    def result(self, timeout=None):
        if not self.done():
            if not SCHED.wait(self.done, timeout):
                raise concurrent.futures.TimeoutError()
        return super().result(0)

    def exception(self, timeout=None):
        if not self.done():
            if not SCHED.wait(self.done, timeout):
                raise concurrent.futures.TimeoutError()
        return super().exception(0)


def driven_run_coroutine_threadsafe(coro, loop):
    """asyncio.run_coroutine_threadsafe with a future whose blocking calls are scheduler waits."""
    if not coroutines.iscoroutine(coro):
        raise TypeError("A coroutine object is required")
    future = DrivenCFuture()

    def callback():
        try:
            futures._chain_future(asyncio.ensure_future(coro, loop=loop), future)
        except (SystemExit, KeyboardInterrupt):
            raise
        except BaseException as exc:
            if future.set_running_or_notify_cancel():
                future.set_exception(exc)
            raise

    loop.call_soon_threadsafe(callback)
    return future


class ModProxy:
    """A module look-alike with a few names overridden."""

    def __init__(self, real, **over):
        self.__dict__["_real"] = real
        self.__dict__.update(over)

    def __getattr__(self, name):
        return getattr(self._real, name)


_installed = False


def install_shims():
    """Rebind the blocking seams of bluesky (in this process only).  Idempotent."""
    global _installed
    if _installed:
        return
    _installed = True
    import bluesky.run_engine as re_mod
    import bluesky.suspenders as sus_mod
    import bluesky.utils as utils_mod

    re_mod.threading = ModProxy(threading, Event=DrivenEvent)
    re_mod.asyncio = ModProxy(asyncio, run_coroutine_threadsafe=driven_run_coroutine_threadsafe)
    sus_mod.threading = ModProxy(threading, Event=DrivenEvent, Lock=DrivenLock)
    # the @plan decorator records a formatted stack for its "never iterated" warning:
    # 55 % of an execution; only the text of that warning depends on it
    import traceback

    utils_mod.traceback = ModProxy(traceback, format_stack=lambda *a, **k: ["<stack elided>\n", "", ""])
