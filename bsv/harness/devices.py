"""Fake devices implementing the bluesky protocols, all writing to one ordered ledger.

Every device hashes by name (set iteration inside the engine must not depend on object
addresses).  Each operation is counted; the context's fault plan can make the n-th
operation raise, or make the status it returns fail.
"""

import asyncio


class DeviceError(Exception):
    pass


class Ctx:
    """Per-session device context: ledger, fault plan, loop, manual statuses."""

    def __init__(self, loop, faults=None, timeline=None):
        self.loop = loop
        self.ledger = []  # (op_index, device, op, args, loop step during which it happened)
        self.faults = dict(faults or {})  # op_index -> 'raise' | 'fail'
        self.nops = 0
        self.timeline = timeline if timeline is not None else []
        self.manual = []  # statuses waiting for the environment
        self.statuses = []
        self.devices = {}
        self.results = {}  # op index -> object the operation returned (reading dict, status)
        self.last_op = -1
        self.raised = []  # exception objects raised by device operations (fault plan)
        self.status_excs = []  # exception objects carried by failed statuses

    def op(self, dev, op, *args, fallible=True):
        i = self.nops
        self.nops += 1
        self.last_op = i
        self.ledger.append((i, dev.name, op, args, self.loop.nsteps))
        self.timeline.append(("dev", dev.name, op, args, i))
        if fallible:
            kind = self.faults.get(i)
            if kind == "raise":
                self.timeline.append(("fault", i, "raise", dev.name, op))
                exc = DeviceError(f"fault@{i}:{dev.name}.{op}")
                self.raised.append(exc)
                raise exc
            if kind in ("fail", "fail_late", "fail_if_stopped"):
                self.timeline.append(("fault", i, kind, dev.name, op))
                return kind
        return None


class FakeStatus:
    def __init__(self, ctx, label):
        self.ctx = ctx
        self.label = label
        self._cbs = []
        self._done = False
        self._success = False
        self._exc = None
        self._timer = None
        self.on_finish = None
        ctx.statuses.append(self)

    @property
    def done(self):
        return self._done

    @property
    def success(self):
        return self._success

    def exception(self, timeout=0.0):
        return self._exc

    def add_callback(self, cb):
        if self._done:
            cb(self)
        else:
            self._cbs.append(cb)

    def finish(self, ok=True):
        if self._done:
            return
        if self._timer is not None:
            self._timer.cancel()
            self._timer = None
        if self in self.ctx.manual:
            self.ctx.manual.remove(self)
        self._done = True
        self._success = ok
        if not ok:
            self._exc = DeviceError(f"status-failed:{self.label}")
            self.ctx.status_excs.append(self._exc)
        self.ctx.timeline.append(("status", self.label, ok, getattr(self, "op_index", None)))
        if self.on_finish is not None:
            self.on_finish(ok)
        cbs, self._cbs = self._cbs, []
        for cb in cbs:
            cb(self)

    def __repr__(self):
        return f"<FakeStatus {self.label} done={self._done} ok={self._success}>"


def make_status(ctx, label, policy, fault=None, on_finish=None):
    """policy: ('now',) | ('delay', d) | ('manual',).  fault: None | 'fail' | 'fail_late'."""
    st = FakeStatus(ctx, label)
    ctx.results[ctx.last_op] = st
    st.op_index = ctx.last_op
    st.on_finish = on_finish
    ok = fault is None or fault == "fail_if_stopped"  # 'fail_if_stopped': fine unless the mover is stopped in flight (as ophyd does)
    st._fail_if_stopped = fault == "fail_if_stopped"
    kind = policy[0]
    if fault == "fail_late" and kind == "now":
        kind, policy = "delay", ("delay", 0.25)
    if kind == "now":
        st.finish(ok)
    elif kind == "delay":
        st._timer = ctx.loop.call_later(policy[1], st.finish, ok)
    elif kind == "manual":
        ctx.manual.append(st)
        st._manual_ok = ok
    else:
        raise ValueError(policy)
    return st


class _Base:
    def __init__(self, ctx, name, is_async=False, parent=None):
        self.ctx = ctx
        self.name = name
        self.parent = parent
        self.is_async = is_async
        ctx.devices[name] = self

    def __hash__(self):
        return hash(self.name)

    def __eq__(self, other):
        return self is other

    def __repr__(self):
        return f"<{type(self).__name__} {self.name}>"

    def _ret(self, value):
        """Sync flavour returns the value; async flavour a coroutine with one real await point."""
        if not self.is_async:
            return value

        async def co():
            await asyncio.sleep(0)
            return value

        return co()


def _dk(source, dtype="number", shape=None, **kw):
    d = {"source": source, "dtype": dtype, "shape": list(shape or [])}
    d.update(kw)
    return d


class FakeMotor(_Base):
    """Movable, Readable, Stoppable, Locatable (optional), Stageable (optional), Checkable (optional)."""

    def __init__(
        self,
        ctx,
        name,
        *,
        is_async=False,
        parent=None,
        move=("now",),
        initial=0.0,
        stageable=False,
        locatable=True,
        has_position=True,
        limits=None,
    ):
        super().__init__(ctx, name, is_async, parent)
        self.move_policy = move
        self._pos = initial
        self._target = initial
        self._moving = None
        self.limits = limits
        self.hints = {"fields": [name]}
        if stageable:
            self.stage = self._stage
            self.unstage = self._unstage
        if locatable:
            self.locate = self._locate
        if has_position:
            type(self).position  # noqa: B018 - property exists on the class
        if limits is not None:
            self.check_value = self._check_value

    @property
    def position(self):
        return self._pos

    def set(self, value, **kw):
        fault = self.ctx.op(self, "set", value)
        if self._moving is not None and not self._moving.done:
            self._moving.finish(True)
        self._target = value

        def arrived(ok):
            if ok:
                self._pos = value
            self._moving = None

        st = make_status(self.ctx, f"{self.name}.set({value})", self.move_policy, fault, arrived)
        if not st.done:
            self._moving = st
        return st

    def stop(self, success=True):
        self.ctx.op(self, "stop", success, fallible=False)
        if self._moving is not None and not self._moving.done:
            st, self._moving = self._moving, None
            st.on_finish = None  # interrupted: did not arrive
            st.finish(not getattr(st, "_fail_if_stopped", False))
        return self._ret(None)

    def read(self):
        self.ctx.op(self, "read")
        r = {self.name: {"value": self._pos, "timestamp": self.ctx.loop.time()}}
        self.ctx.results[self.ctx.last_op] = r
        return self._ret(r)

    def describe(self):
        return self._ret({self.name: _dk(f"fake:{self.name}")})

    def read_configuration(self):
        return self._ret({})

    def describe_configuration(self):
        return self._ret({})

    def _locate(self):
        return self._ret({"setpoint": self._target, "readback": self._pos})

    def _check_value(self, value):
        lo, hi = self.limits
        if not (lo <= value <= hi):
            raise ValueError(f"{value} outside {self.limits}")

    def _stage(self):
        self.ctx.op(self, "stage")
        if getattr(self.ctx, "stage_status", False):  # ophyd-async flavour: stage()/unstage() return a Status
            return make_status(self.ctx, f"{self.name}.stage", ("now",))
        return [self]

    def _unstage(self):
        self.ctx.op(self, "unstage")  # may be made to raise by the fault plan
        if getattr(self.ctx, "stage_status", False):
            return make_status(self.ctx, f"{self.name}.unstage", ("now",))
        return [self]


class FakeDet(_Base):
    """Triggerable, Readable, Configurable, Stageable.  Reading = f(motor positions)."""

    def __init__(
        self,
        ctx,
        name,
        *,
        is_async=False,
        parent=None,
        trigger=("now",),
        motors=(),
        keys=None,
        offset=0.0,
        stageable=True,
        pausable=False,
        no_replay=False,
    ):
        super().__init__(ctx, name, is_async, parent)
        self.trigger_policy = trigger
        self.motors = list(motors)
        self.keys = list(keys or [name])
        self.offset = offset
        self.config = {"gain": 1}
        self.hints = {"fields": [self.keys[0]]}
        self.no_replay = no_replay
        if stageable:
            self.stage = self._stage
            self.unstage = self._unstage
        if pausable:
            self.pause = self._pause
            self.resume = self._resume

    def value(self):
        return float(sum(m.position for m in self.motors)) + self.offset

    def trigger(self):
        fault = self.ctx.op(self, "trigger")
        return make_status(self.ctx, f"{self.name}.trigger", self.trigger_policy, fault)

    def read(self):
        self.ctx.op(self, "read")
        t = self.ctx.loop.time()
        v = self.value()
        r = {k: {"value": v + i, "timestamp": t} for i, k in enumerate(self.keys)}
        self.ctx.results[self.ctx.last_op] = r
        return self._ret(r)

    def describe(self):
        return self._ret({k: _dk(f"fake:{self.name}:{k}") for k in self.keys})

    def read_configuration(self):
        t = 0.0
        return self._ret({f"{self.name}_{k}": {"value": v, "timestamp": t} for k, v in self.config.items()})

    def describe_configuration(self):
        return self._ret({f"{self.name}_{k}": _dk(f"fake:{self.name}:cfg:{k}") for k in self.config})

    def configure(self, *args, **kwargs):
        self.ctx.op(self, "configure", tuple(sorted(kwargs.items())))
        old = dict(self.config)
        self.config.update(kwargs)
        return old, dict(self.config)

    def _stage(self):
        self.ctx.op(self, "stage")
        if getattr(self.ctx, "stage_status", False):  # ophyd-async flavour: stage()/unstage() return a Status
            return make_status(self.ctx, f"{self.name}.stage", ("now",))
        return [self]

    def _unstage(self):
        self.ctx.op(self, "unstage")  # may be made to raise by the fault plan
        if getattr(self.ctx, "stage_status", False):
            return make_status(self.ctx, f"{self.name}.unstage", ("now",))
        return [self]

    def _pause(self):
        self.ctx.op(self, "pause", fallible=False)
        if self.no_replay:
            from bluesky.utils import NoReplayAllowed

            raise NoReplayAllowed()
        return self._ret(None)

    def _resume(self):
        self.ctx.op(self, "resume", fallible=False)
        return self._ret(None)


class FakeSignal(_Base):
    """Subscribable + Readable + put.  Subscribers are a list: double subscription is visible."""

    def __init__(self, ctx, name, *, initial=0, is_async=False, parent=None):
        super().__init__(ctx, name, is_async, parent)
        self._value = initial
        self.subs = []

    def subscribe(self, cb, event_type=None, run=False, **kw):
        self.ctx.op(self, "subscribe", _cbname(cb), fallible=False)
        self.subs.append(cb)
        if run:
            cb(value=self._value, old_value=self._value, timestamp=self.ctx.loop.time(), obj=self)
        return len(self.subs)

    def clear_sub(self, cb, event_type=None):
        self.ctx.op(self, "clear_sub", _cbname(cb))  # the fault plan makes only removals asked for by 'unmonitor' fail
        self.subs = [c for c in self.subs if c is not cb and c != cb]

    def put(self, v):
        old, self._value = self._value, v
        self.ctx.timeline.append(("put", self.name, v, len(self.subs), round(self.ctx.loop.time(), 6)))
        for cb in list(self.subs):
            cb(value=v, old_value=old, timestamp=self.ctx.loop.time(), obj=self)

    def get(self):
        return self._value

    def read(self):
        return {self.name: {"value": self._value, "timestamp": self.ctx.loop.time()}}

    def describe(self):
        return {self.name: _dk(f"fake:{self.name}")}

    def read_configuration(self):
        return {}

    def describe_configuration(self):
        return {}


def _cbname(cb):
    n = getattr(cb, "__qualname__", None)
    if n is None:
        n = type(cb).__name__
    return n


class FakeFlyer(_Base):
    """Flyable + EventCollectable with old-style doubly nested describe_collect."""

    def __init__(self, ctx, name, *, is_async=False, kick=("now",), comp=("now",), npoints=2, collect_fails=False):
        super().__init__(ctx, name, is_async)
        self.kick_policy = kick
        self.comp_policy = comp
        self.npoints = npoints
        self.collect_fails = collect_fails
        self._kicked = 0

    def kickoff(self):
        fault = self.ctx.op(self, "kickoff")
        self._kicked += 1
        return make_status(self.ctx, f"{self.name}.kickoff", self.kick_policy, fault)

    def complete(self):
        fault = self.ctx.op(self, "complete")
        return make_status(self.ctx, f"{self.name}.complete", self.comp_policy, fault)

    def describe_collect(self):
        return self._ret({self.name + "_stream": {self.name + "_x": _dk(f"fake:{self.name}")}})

    def collect(self):
        self.ctx.op(self, "collect")
        if self.collect_fails:
            raise DeviceError("collect refused")
        t = self.ctx.loop.time()
        for i in range(self.npoints):
            yield {"data": {self.name + "_x": float(i)}, "timestamps": {self.name + "_x": t}, "time": t}

    def read_configuration(self):
        return self._ret({})

    def describe_configuration(self):
        return self._ret({})
