"""One execution of a scenario under a schedule, on the real RunEngine.

``run(scenario, schedule)`` builds a fresh loop, engine and devices, plays the caller's
script (RE(plan); decisions while paused; a usability probe when idle), lets the scheduler
inject the schedule's external requests at their positions, and returns an Observation.
"""

import gc
import hashlib
import time as _time
import uuid as _uuid

from . import core
from .core import Deadlock, HarnessError, Livelock, Sched, Unwind, VirtualLoop
from .devices import Ctx

_real_time = _time.time
_real_uuid4 = _uuid.uuid4


class Scenario:
    """Base class.  Subclasses (registered by id) build devices and the plan."""

    id = "?"
    re_kwargs = {}
    record_interruptions = False
    horizon = 4000
    probe = True  # run RE([Msg('null')]) when the engine is back to idle

    def __init__(self, **params):
        self.params = params

    def devices(self, ctx):
        """Create devices; return a namespace (dict)."""
        return {}

    def plan(self, d):
        raise NotImplementedError

    def configure(self, RE, d):
        """Install preprocessors, suspenders, subscriptions ... on the fresh engine."""

    def call_args(self, d):
        """(subs, metadata_kw) of the RE(...) call."""
        return None, {}

    def suspend_plans(self, d, which):
        """pre/post plans for an injected request_suspend; ``which`` in 'none','pre','post','both'."""
        from bluesky.utils import Msg

        pre = [Msg("null", None, "PRE")] if which in ("pre", "both") else None
        post = [Msg("null", None, "POST")] if which in ("post", "both") else None
        return pre, post


class Env:
    """Default environment: releases outstanding suspensions and completes manual statuses."""

    def __init__(self, sess):
        self.sess = sess

    def default_action(self, idle=False):
        s = self.sess
        if s.actions is not None:
            return False  # X2: releases are explicit actions
        if idle:
            # nobody is blocked in a call: the environment only acts while the caller waits
            return False
        # 1. an outstanding suspension is released at the first quiescent point
        for rec in s.suspensions:
            if not rec["released"]:
                s.release(rec, auto=True)
                return True
        # 1b. scenario-specific environment (e.g. a real suspender's signal going back to normal)
        if hasattr(s.scn, "env_default") and s.scn.env_default(s):
            return True
        # 2. manual statuses complete
        if s.ctx.manual:
            st = s.ctx.manual[0]
            st.finish(getattr(st, "_manual_ok", True))
            return True
        return False


class Observation:
    __slots__ = (
        "timeline",
        "docs",
        "msgs",
        "states",
        "calls",
        "ledger",
        "loop_errors",
        "handle_log",
        "helpers",
        "positions",
        "digest",
        "nsteps",
        "outcome",
        "npauses",
        "extra",
        "harness_error",
        "pos_info",
    )


class Session:
    def __init__(self, scenario, schedule=None):
        self.scn = scenario
        sch = schedule or {}
        self.injections = [tuple(x) for x in sch.get("injections", ())]  # ((n,j), event)
        self.decisions = list(sch.get("decisions", ()))
        self.faults = {int(k): v for k, v in dict(sch.get("faults", {})).items()}
        self.timeline = []
        self.docs = []
        self.msgs = []
        self.states = []
        self.calls = []
        self.suspensions = []
        self.dpr = []  # RE.deferred_pause_requested sampled at every msg_hook call
        self.pos_info = {}
        self.unwind_at = sch.get("unwind_at")
        # X2 (explicit-state search): the whole execution is driven by an action list
        # 'step' | ('inj', event) | ('rel', i) | ('dec', decision); when it is exhausted the execution is unwound
        self.actions = list(sch["actions"]) if "actions" in sch else None

    # ------------------------------------------------------------------ events
    def _event_fn(self, ev):
        """Translate an event descriptor (tuple) into the callable a helper thread runs."""
        RE = self.RE
        kind = ev[0]
        if kind == "pause":
            return lambda: RE.request_pause()
        if kind == "dpause":
            return lambda: RE.request_pause(defer=True)
        if kind == "abort":
            return lambda: RE.abort("injected")
        if kind == "stop":
            return lambda: RE.stop()
        if kind == "halt":
            return lambda: RE.halt()
        if kind == "suspend":
            which = ev[1] if len(ev) > 1 else "none"
            return lambda: self.request_suspend(which)
        if kind == "release":
            idx = ev[1] if len(ev) > 1 else 0
            return lambda: self.release_index(idx)
        if kind == "put":
            return lambda: self.d[ev[1]].put(ev[2])
        if kind == "puts":  # several updates back-to-back from one thread (a glitch)
            return lambda: [self.d[ev[1]].put(v) for v in ev[2:]]
        if kind == "finish":
            return lambda: self.finish_status(ev[1], ev[2] if len(ev) > 2 else True)
        if kind == "call":
            return lambda: self.scn.custom_event(self, ev)
        raise ValueError(ev)

    def request_suspend(self, which="none"):
        import asyncio

        ev = asyncio.Event()
        rec = {"ev": ev, "released": False, "which": which, "t_req": self.loop.time(), "idx": len(self.suspensions)}
        self.suspensions.append(rec)
        pre, post = self.scn.suspend_plans(self.d, which)
        self.timeline.append(("suspend_req", rec["idx"], which))
        self.RE.request_suspend(ev.wait, pre_plan=pre, post_plan=post, justification=f"J{rec['idx']}")

    def release(self, rec, auto=False):
        rec["released"] = True
        self.timeline.append(("release", rec["idx"], auto))
        self.loop.call_soon_threadsafe(rec["ev"].set)

    def release_index(self, idx):
        if idx < len(self.suspensions) and not self.suspensions[idx]["released"]:
            self.release(self.suspensions[idx])

    def finish_status(self, i, ok=True):
        if i < len(self.ctx.manual):
            self.ctx.manual[i].finish(ok)

    # ------------------------------------------------------------------ run
    def run(self):
        from bluesky.utils import DuringTask, Msg, RunEngineInterrupted

        obs = Observation()
        obs.harness_error = None
        obs.extra = {"dpr": self.dpr}
        counter = [0]

        def fake_uuid4():
            counter[0] += 1
            c = counter[0]
            return _uuid.UUID(int=(c << 104) | c)

        loop = self.loop = VirtualLoop()
        _time.time = lambda: loop._vtime + 1.0e9
        _uuid.uuid4 = fake_uuid4
        gc_was = gc.isenabled()
        gc.disable()
        self.ctx = Ctx(loop, faults=self.faults, timeline=self.timeline)
        self.ctx.stage_status = bool(getattr(self.scn, "params", {}).get("ss"))  # stage()/unstage() of the fakes return a Status
        sched = self.sched = Sched(loop, env=Env(self), horizon=self.scn.horizon)
        core.SCHED = sched
        sched.on_inject = self._on_inject
        try:
            import bluesky.run_engine as re_mod

            core.install_shims()
            re_mod._ensure_event_loop_running.loop_to_thread[loop] = None
            self.d = self.scn.devices(self.ctx)
            RE = self.RE = re_mod.RunEngine(
                {}, loop=loop, context_managers=[], during_task=DuringTask(), **self.scn.re_kwargs
            )
            RE.record_interruptions = self.scn.record_interruptions
            RE.msg_hook = self._msg_hook
            RE.state_hook = self._state_hook
            RE.subscribe(self._doc_cb)
            cbfail = getattr(self.scn, "params", {}).get("cbfail")
            if cbfail is not None:
                # a second document consumer that fails on the cbfail-th document of the session (a fault of the
                # environment like a device fault; the observing subscriber above has already seen the document)
                def failing_subscriber(name, doc):
                    if len(self.docs) - 1 == cbfail:
                        self.timeline.append(("cbfail", cbfail, name))
                        raise SubscriberError(f"subscriber failed on document #{cbfail} ({name})")

                RE.subscribe(failing_subscriber)
            self.scn.configure(RE, self.d)
            if hasattr(self.scn, "apply_common"):
                self.scn.apply_common(RE, self.d)
            sched.drain()
            base = loop.nsteps
            # positions in schedules are relative to the first RE(...) call
            sched.pending = sorted(
                (((p[0] + base, p[1]), self._label(ev), self._event_fn(ev)) for p, ev in self.injections),
                key=lambda x: x[0],
            )
            self.base = base
            if self.unwind_at is not None:
                lim = self.unwind_at + base

                def hook():
                    if loop.nsteps >= lim and not sched.pending:
                        raise Unwind()

                sched.stepping_hook = hook
            if self.actions is not None:
                sched.stepping_hook = self._x2_hook
            self._script(RE, Msg, RunEngineInterrupted)
            obs.outcome = "ok"
            if self.actions is not None:
                obs.extra["x2"] = self._x2_snapshot("end")
        except Unwind:
            obs.outcome = "unwound"
            if self.actions is not None:
                obs.extra["x2"] = self._x2_snapshot("unwound")
        except Deadlock:
            obs.outcome = "deadlock"
        except Livelock:
            obs.outcome = "livelock"
        except HarnessError as e:
            obs.outcome = "harness_error"
            obs.harness_error = str(e)
        finally:
            try:
                if sched.pending and obs.outcome == "ok":
                    obs.outcome = "harness_error"
                    obs.harness_error = f"injections never reached: {[p[:2] for p in sched.pending]}"
                obs.helpers = [
                    (pos[0] - getattr(self, "base", 0), pos[1], label, h.state, _exc_name(h.exc))
                    for pos, label, h in sched.injected
                ]
                sched.shutdown()
            finally:
                core.SCHED = None
                _time.time = _real_time
                _uuid.uuid4 = _real_uuid4
                if gc_was:
                    gc.enable()
        obs.extra["ylog"] = getattr(self, "ylog", [])
        obs.extra["results"] = self.ctx.results
        obs.extra["plan_return"] = getattr(self, "plan_return", None)
        obs.extra["raised"] = self.ctx.raised
        obs.extra["status_excs"] = self.ctx.status_excs
        obs.timeline = self.timeline
        obs.docs = self.docs
        obs.msgs = self.msgs
        obs.states = self.states
        obs.calls = self.calls
        base = getattr(self, "base", 0)
        obs.ledger = [(i, dev, op, args, st - base) for (i, dev, op, args, st) in self.ctx.ledger]
        obs.loop_errors = list(loop.errors)
        obs.handle_log = loop.handle_log[base:]
        obs.nsteps = loop.nsteps - base
        obs.pos_info = self.pos_info
        obs.npauses = sum(1 for c in self.calls if c["state_after"] == "paused")
        obs.positions = self._positions(obs)
        obs.digest = self._digest(obs)
        return obs

    def _label(self, ev):
        return ":".join(str(x) for x in ev)

    def _on_inject(self, label, pos):
        RE = getattr(self, "RE", None)
        st = str(RE.state) if RE is not None else "?"
        last = self.msgs[-1].command if self.msgs else None
        phase = run_phase(RE) if RE is not None else "?"
        self.timeline.append(("inject", label, (pos[0] - getattr(self, "base", 0), pos[1]), st, last, phase))

    # hooks
    def _msg_hook(self, msg):
        self.msgs.append(msg)
        self.timeline.append(("msg", len(self.msgs) - 1, msg.command, round(self.loop.time(), 6)))
        self.dpr.append(bool(self.RE.deferred_pause_requested))

    def _state_hook(self, new, old):
        self.states.append((str(new), str(old)))
        # 4th element: where _run is at this moment (only meaningful for request-driven changes)
        req = new in _REQ_STATES
        # 4th: where _run is; 5th: the coroutine _run is awaiting ('sleep' = between two messages, otherwise inside a command)
        self.timeline.append(("state", str(new), str(old), run_phase(self.RE) if req else "", run_awaiting(self.RE) if req else ""))

    def _doc_cb(self, name, doc):
        self.docs.append((name, doc))
        self.timeline.append(("doc", len(self.docs) - 1, name))

    # the caller
    def _call(self, name, fn):
        RE = self.RE
        self.timeline.append(("call", name, self.loop.nsteps - self.base))
        rec = {"name": name, "exc": None, "value": None, "t0": len(self.timeline)}
        try:
            rec["value"] = fn()
            rec["outcome"] = "return"
        except (Deadlock, Livelock, Unwind, HarnessError):
            rec["outcome"] = "stuck"
            rec["state_after"] = str(RE.state)
            self.calls.append(rec)
            raise
        except Exception as e:  # noqa: BLE001 - whatever escapes the public call is the observation
            rec["exc"] = e
            rec["outcome"] = "raise"
        rec["state_after"] = str(RE.state)
        rec["n_ret"] = self.loop.nsteps - self.base
        rec["dpr_after"] = bool(RE.deferred_pause_requested)
        rec["interrupted_flag"] = RE._interrupted
        rec["ndocs"] = len(self.docs)
        rec["nmsgs"] = len(self.msgs)
        self.calls.append(rec)
        self.timeline.append(("ret", name, rec["outcome"], _exc_name(rec["exc"]), rec["state_after"]))
        # the real loop thread keeps running while the caller thinks (scenarios with quick_caller=True issue the next
        # call at once: ready callbacks run, virtual time does not pass, pending timers fire during the next call)
        self.loop.no_time_advance = bool(getattr(self.scn, "quick_caller", False))
        try:
            self.sched.drain()
        finally:
            self.loop.no_time_advance = False
        rec["state_drained"] = str(RE.state)
        rec["snap"] = {
            "subs": {n: [getattr(cb, "__qualname__", type(cb).__name__) for cb in dev.subs] for n, dev in self.ctx.devices.items() if hasattr(dev, "subs")},
            "nops": self.ctx.nops,
            "dispatcher_tokens": len(RE.dispatcher._token_mapping),
            "scn": self.scn.snapshot(self) if hasattr(self.scn, "snapshot") else None,
        }
        rec["ndocs_drained"] = len(self.docs)
        rec["nmsgs_drained"] = len(self.msgs)
        if rec["state_drained"] != rec["state_after"]:
            self.timeline.append(("state_after_drain", rec["state_drained"]))
        return rec

    def _tracked(self, plan):
        """Transparent wrapper that records how the top-level plan generator ended."""
        from bluesky.utils import ensure_generator

        if getattr(self.scn, "log_yields", False):
            plan = self._logged(ensure_generator(plan), getattr(self.scn, "on_error", "propagate"))
        try:
            ret = yield from ensure_generator(plan)
        except GeneratorExit:
            self.timeline.append(("plan_end", "closed"))
            raise
        except BaseException as e:
            self.timeline.append(("plan_end", "raised", type(e).__name__))
            raise
        else:
            self.timeline.append(("plan_end", "returned"))
            self.plan_return = ret
            return ret

    def _x2_hook(self):
        """Called before every loop step: consume the action list up to and including the next 'step'."""
        while True:
            if not self.actions:
                raise Unwind()
            a = self.actions.pop(0)
            if a == "step" or a[0] == "step":
                return
            if a[0] == "inj":
                ev = tuple(a[1])
                self.sched.inject_now(self._label(ev), self._event_fn(ev))
            elif a[0] == "rel":
                self.release_index(a[1])
            else:
                raise HarnessError(f"history has {a!r} while the caller is blocked")

    def _x2_snapshot(self, how):
        from bsv.explore.statespace import snapshot

        return snapshot(self, how)

    def _logged(self, gen, on_error):
        """Drive ``gen`` by hand and log, for every yield, what the engine sent or threw there.

        on_error='propagate': an exception thrown at a yield is thrown into the plan (which may handle it or not);
        on_error='swallow': it is logged and the plan continues as if the message had returned None.
        Entries of self.ylog: [yield number, Msg, 'resp'|'exc', value].
        """
        self.ylog = []
        resp = None
        exc = None
        k = 0
        while True:
            try:
                msg = gen.throw(exc) if exc is not None else gen.send(resp)
            except StopIteration as e:
                return e.value
            exc = None
            try:
                resp = yield msg
                self.ylog.append([k, msg, "resp", resp])
            except GeneratorExit:
                self.ylog.append([k, msg, "closed", None])
                gen.close()
                raise
            except BaseException as e:  # noqa: BLE001 - whatever the engine throws at this yield is the observation
                self.ylog.append([k, msg, "exc", e])
                from bluesky.utils import RunEngineControlException

                if on_error == "swallow" and not isinstance(e, RunEngineControlException):
                    resp = None
                else:
                    exc = e
            k += 1

    def _script(self, RE, Msg, RunEngineInterrupted):
        scn = self.scn
        subs, md = scn.call_args(self.d)
        scn.sess = self  # scenarios may instrument inner plans (Session._logged)
        plan = scn.plan(self.d)
        if getattr(scn, "track", True):
            plan = self._tracked(plan)
        if subs is None:
            rec = self._call("RE", lambda: RE(plan, **md))
        else:
            rec = self._call("RE", lambda: RE(plan, subs, **md))
        k = 0
        guard = 0
        while str(RE.state) == "paused":
            guard += 1
            if guard > 12:
                raise Livelock()
            if self.actions is not None:
                if not self.actions:
                    self.awaiting_decision = True
                    raise Unwind()
                a = self.actions.pop(0)
                if a[0] != "dec":
                    raise HarnessError(f"history has {a!r} where a caller decision is needed")
                dec = a[1]
            else:
                dec = self.decisions[k] if k < len(self.decisions) else "resume"
            k += 1
            rec = self._call(dec, getattr(RE, dec))
        self.ndecisions = k
        self.n_main = self.loop.nsteps - self.base  # injection positions beyond this would land in the probe call
        if self.actions is not None:
            # X2: the main call chain is over - terminal node; the probe runs uncontrolled
            if self.actions:
                raise HarnessError(f"history continues past the end of the call chain: {self.actions[:3]}")
            self.x2_terminal = True
            self.sched.stepping_hook = None
        if scn.probe and str(RE.state) == "idle":
            self.timeline.append(("probe",))
            self._call("probe", lambda: RE(scn.probe_plan(self.d) if hasattr(scn, "probe_plan") else [Msg("null")]))
            guard = 0
            while str(RE.state) == "paused" and guard < 3:
                guard += 1
                self._call("abort", RE.abort)

    # ------------------------------------------------------------------ positions / digest
    def _positions(self, obs):
        """Injection points that exist in this execution: (n, 0) before handle n, (n, j) inside it."""
        pts = []
        n_main = getattr(self, "n_main", len(obs.handle_log))
        for n, (name, ncalls) in enumerate(obs.handle_log[:n_main]):
            pts.append((n, 0))
            for j in range(1, ncalls):
                pts.append((n, j))
        pts.append((min(n_main, len(obs.handle_log)), 0))
        return pts

    def _digest(self, obs):
        h = hashlib.sha256()
        for t in obs.timeline:
            h.update(repr(t).encode())
        for name, doc in obs.docs:
            h.update(name.encode())
            h.update(repr(sorted(doc.items(), key=lambda kv: kv[0])).encode())
        for m in obs.msgs:
            h.update(m.command.encode())
            h.update(repr(m.args).encode() if _plain(m.args) else b"?")
        for hl in obs.handle_log:
            h.update(repr(hl).encode())
        for c in obs.calls:
            h.update(repr((c["name"], c["outcome"], _exc_name(c["exc"]), c.get("state_after"))).encode())
        h.update(repr(obs.loop_errors).encode())
        h.update(obs.outcome.encode())
        return h.hexdigest()[:16]


_RUN_LINES = None
_REQ_STATES = ("pausing", "suspending", "aborting", "stopping", "halting")


def _run_lines():
    """(first line of the 'except StopIteration' ladder, first line of the outer finally) of RunEngine._run."""
    global _RUN_LINES
    if _RUN_LINES is None:
        import inspect

        from bluesky.run_engine import RunEngine

        src, first = inspect.getsourcelines(RunEngine._run)
        exc = fin = None
        for i, line in enumerate(src):
            if exc is None and line.startswith("        except StopIteration"):
                exc = first + i
            if line.startswith("        finally:"):
                fin = first + i
        _RUN_LINES = (exc or 10**9, fin or 10**9)
    return _RUN_LINES


class SubscriberError(RuntimeError):
    pass


def run_phase(RE):
    """Where RunEngine._run is: 'loop' (message loop), 'ending' (plan over, final sleep), 'cleanup' (its finally)."""
    t = getattr(RE, "_task", None)
    if t is None:
        return "notask"
    if t.done():
        return "done"
    fr = t.get_coro().cr_frame
    if fr is None:
        return "done"
    exc, fin = _run_lines()
    if fr.f_lineno >= fin:
        return "cleanup"
    if fr.f_lineno >= exc:
        return "ending"
    return "loop"


def run_awaiting(RE):
    """Name of the coroutine RunEngine._run is directly awaiting (None if it is not suspended in an await)."""
    t = getattr(RE, "_task", None)
    if t is None or t.done():
        return None
    co = t.get_coro()
    if getattr(co, "cr_running", False):
        # _run itself is executing (it is the one changing the state): reading cr_await of a running coroutine
        # peeks at its live value stack and can crash the interpreter (CPython 3.12)
        # -> find the awaited coroutine on the Python stack instead: the frame _run's frame called into
        import sys

        target, f, callee = co.cr_frame, sys._getframe(), None
        while f is not None and f is not target:
            callee, f = f, f.f_back
        if f is target and callee is not None and callee.f_code.co_flags & 0x180:  # CO_COROUTINE | CO_ITERABLE_COROUTINE
            return callee.f_code.co_name
        return "running"
    aw = getattr(co, "cr_await", None)
    code = getattr(aw, "cr_code", None) or getattr(aw, "gi_code", None)
    return getattr(code, "co_name", type(aw).__name__ if aw is not None else None)


def _plain(x):
    if isinstance(x, (int, float, str, bool, type(None))):
        return True
    if isinstance(x, (tuple, list)):
        return all(_plain(i) for i in x)
    return False


def _exc_name(e):
    return None if e is None else type(e).__name__


def run(scenario, schedule=None):
    return Session(scenario, schedule).run()
