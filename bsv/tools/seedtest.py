"""Apply a seeded change to /repo, run checks against it, revert.  Usage:

    python -m bsv.tools.seedtest <seed-dir> [--tier quick] [--checks C03,C05] [--demo]

Without --checks the seed's own property (meta.json 'property') is run.  Always reverts with `git -C /repo checkout -- .`.
Prints one line per check: <seed> <check> exit=<code> <first violation signature>.
"""

import argparse
import json
import os
import subprocess
import sys
import time

REPO = "/repo"
VERIF = os.path.dirname(os.path.dirname(os.path.dirname(os.path.abspath(__file__))))


def sh(cmd, **kw):
    return subprocess.run(cmd, shell=True, capture_output=True, text=True, **kw)


def main():
    ap = argparse.ArgumentParser()
    ap.add_argument("seed")
    ap.add_argument("--tier", default="quick")
    ap.add_argument("--checks", default="")
    ap.add_argument("--demo", action="store_true", help="also run the seed's demo with and without the patch")
    args = ap.parse_args()
    seed = os.path.abspath(args.seed)
    name = os.path.basename(seed)
    meta = json.load(open(os.path.join(seed, "meta.json")))
    checks = [c for c in args.checks.split(",") if c] or [meta["property"]]
    st = sh(f"git -C {REPO} status --porcelain --untracked-files=no")
    if st.stdout.strip():
        print("REFUSING: /repo has uncommitted changes:", st.stdout)
        return 2
    results = []
    restore = []
    demo = next((f for f in ("demo.py", "test_demo.py") if os.path.exists(os.path.join(seed, f))), None)
    try:
        if args.demo and demo:
            r0 = sh(f"cd {seed} && PYTHONPATH={REPO}/src timeout 300 /venv/bin/python {demo}")
            results.append((name, "demo-clean", r0.returncode, ""))
        ap_ = sh(f"git -C {REPO} apply {os.path.join(seed, 'patch.diff')}")
        if ap_.returncode != 0:
            print(name, "PATCH DOES NOT APPLY:", ap_.stderr[:300])
            return 2
        if args.demo and demo:
            r1 = sh(f"cd {seed} && PYTHONPATH={REPO}/src timeout 300 /venv/bin/python {demo}")
            results.append((name, "demo-patched", r1.returncode, ""))
        for c in checks:
            t = time.time()
            ev = os.path.join(VERIF, "evidence", f"{c}.json")
            saved = open(ev).read() if os.path.exists(ev) else None
            restore.append((ev, saved))
            r = sh(f"cd {VERIF} && /venv/bin/python -m bsv.check {c} --tier {args.tier} --max-replays 3", env=dict(os.environ, BSV_NO_REPLAY_FILES="1"))
            lines = [ln for ln in r.stdout.splitlines() if ln.startswith("VIOLATION") or ln.startswith("  signature") or ln.startswith("HARNESS")]
            sig = next((ln.strip()[:260] for ln in lines if ln.startswith("  signature")), lines[0][:200] if lines else "")
            results.append((name, c, r.returncode, f"{time.time() - t:.0f}s {sig}"))
    finally:
        sh(f"git -C {REPO} checkout -- .")
        for ev, saved in restore:  # evidence must describe the unchanged tree, not the mutant
            if saved is not None:
                with open(ev, "w") as f:
                    f.write(saved)
    for r in results:
        print(*r)
    return 0


if __name__ == "__main__":
    sys.exit(main())
