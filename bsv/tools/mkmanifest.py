"""Regenerate /verif/MANIFEST.json from bsv/tools/manifest_table.py and validate it."""

import json
import os
import sys

HERE = os.path.dirname(os.path.abspath(__file__))
VERIF = os.path.dirname(os.path.dirname(HERE))
sys.path.insert(0, VERIF)

from bsv.tools.manifest_table import CHECKS, NOT_APPLICABLE  # noqa: E402

PY = "/venv/bin/python"


def main():
    props = [json.loads(line)["id"] for line in open(os.path.join(VERIF, "properties.jsonl"))]
    checks = []
    for pid in props:
        if pid not in CHECKS:
            continue
        c = CHECKS[pid]
        checks.append(
            {
                "property_id": pid,
                "quick_cmd": f"{PY} -m bsv.check {pid} --tier quick",
                "thorough_cmd": f"{PY} -m bsv.check {pid} --tier thorough",
                "evidence_file": f"/verif/evidence/{pid}.json",
                "replay_cmd_template": f"{PY} -m bsv.check {pid} --replay {{path}}",
                "engine": c["engine"],
                "level_claimed": {"category": "model_checking", "text": c["text"], "design_ref": c.get("design_ref", "DESIGN.md section 4")},
                "level_note": c["note"],
                "technique": c["technique"],
            }
        )
    na = [{"property_id": pid, "reason": NOT_APPLICABLE.get(pid, "check not built yet in this session; no claim is made")} for pid in props if pid not in CHECKS]
    manifest = {
        "version": 1,
        "setup_cmd": f"cd /verif && {PY} -m compileall -q bsv && {PY} -m bsv.selfcheck",
        "hooks": {
            "guard": "BLUESKY_VERIF",
            "enable": "no source hooks: the harness rebinds module globals of bluesky in its own process (bsv/harness/core.py install_shims); BLUESKY_VERIF=1 is exported by the checks but nothing in /repo reads it",
            "baseline_off_cmd": "cd /repo && /venv/bin/python -m pytest -ra -q -p no:cacheprovider --timeout=900 --continue-on-collection-errors",
            "source_commits": [],
            "add_only": True,
        },
        "engines": [
            {"name": "H+X1", "path": "bsv/harness, bsv/explore/bounded.py", "kind_free_text": "stateless deviation-bounded schedule/fault exploration of the real RunEngine on a hand-stepped asyncio loop", "serves_properties": [p for p, c in CHECKS.items() if c["engine"] == "X1"]},
            {"name": "X2", "path": "bsv/explore/statespace.py", "kind_free_text": "explicit-state BFS over the real RunEngine (state = action history, canonical hash of live engine state)", "serves_properties": [p for p, c in CHECKS.items() if "X2" in c["engine"]]},
            {"name": "G", "path": "bsv/explore/genproto.py", "kind_free_text": "exhaustive generator-protocol exploration: all small plan programs x all send/throw/close driver scripts, differential against reference generators", "serves_properties": [p for p, c in CHECKS.items() if c["engine"] == "G"]},
            {"name": "S", "path": "bsv/explore/enum.py", "kind_free_text": "bounded exhaustive enumeration of inputs / operation histories on the real objects against a reference model", "serves_properties": [p for p, c in CHECKS.items() if c["engine"] == "S"]},
        ],
        "checks": checks,
        "not_applicable": na,
        "notes": "All checks: cwd=/verif, import bluesky from /repo/src (working tree), PYTHONHASHSEED=0 re-exec, evidence rewritten on every run. Known findings: /verif/known_findings.json.",
    }
    path = os.path.join(VERIF, "MANIFEST.json")
    with open(path, "w") as f:
        json.dump(manifest, f, indent=1)
    try:
        import jsonschema

        jsonschema.validate(manifest, json.load(open("/root/.vp/MANIFEST.schema.json")))
        print("MANIFEST.json valid;", len(checks), "checks,", len(na), "not claimed")
    except ImportError:
        print("jsonschema not importable; wrote", path)


if __name__ == "__main__":
    main()
