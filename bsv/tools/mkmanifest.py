"""Regenerate /verif/MANIFEST.json from bsv/tools/manifest_table.py and the property modules; validate it."""

import importlib
import json
import os
import sys

HERE = os.path.dirname(os.path.abspath(__file__))
VERIF = os.path.dirname(os.path.dirname(HERE))
sys.path.insert(0, VERIF)

from bsv import env  # noqa: E402

env.setup()

from bsv.tools.manifest_table import ENGINE, NOT_APPLICABLE  # noqa: E402

PY = "/venv/bin/python"


def main():
    props = [json.loads(line)["id"] for line in open(os.path.join(VERIF, "properties.jsonl"))]
    checks = []
    claimed = []
    for pid in props:
        if pid not in ENGINE or pid in NOT_APPLICABLE or not os.path.exists(os.path.join(VERIF, "bsv", "props", f"{pid}.py")):
            continue
        engine, technique, note = ENGINE[pid]
        mod = importlib.import_module(f"bsv.props.{pid}")
        text = " ".join(str(mod.RULE).split())
        assumptions = "; ".join(getattr(mod, "ASSUMPTIONS", [])[-3:])
        claimed.append(pid)
        checks.append(
            {
                "property_id": pid,
                "quick_cmd": f"{PY} -m bsv.check {pid} --tier quick",
                "thorough_cmd": f"{PY} -m bsv.check {pid} --tier thorough",
                "evidence_file": f"/verif/evidence/{pid}.json",
                "replay_cmd_template": f"{PY} -m bsv.check {pid} --replay {{path}}",
                "engine": engine,
                "level_claimed": {"category": "model_checking", "text": text, "design_ref": f"DESIGN.md section 4 ({pid}), section 2 ({engine})"},
                "level_note": (note + (" Check-specific: " + assumptions if assumptions else ""))[:1500],
                "technique": technique,
            }
        )
    na = [{"property_id": pid, "reason": NOT_APPLICABLE.get(pid, "check not built; no claim is made")} for pid in props if pid not in claimed]
    manifest = {
        "version": 1,
        "setup_cmd": f"cd /verif && {PY} -m compileall -q bsv && {PY} -m bsv.selfcheck",
        "hooks": {
            "guard": "BLUESKY_VERIF",
            "enable": "no source hooks: the harness rebinds module globals of bluesky in its own process (bsv/harness/core.py install_shims; bsv/props/C42.py binds a recording tracer); BLUESKY_VERIF=1 is exported by the checks but nothing in /repo reads it",
            "baseline_off_cmd": "cd /repo && /venv/bin/python -m pytest -ra -q -p no:cacheprovider --timeout=900 --continue-on-collection-errors",
            "source_commits": [],
            "add_only": True,
        },
        "engines": [
            {"name": "X1", "path": "bsv/harness, bsv/explore/bounded.py, bsv/props/_x1.py", "kind_free_text": "stateless deviation-bounded schedule/fault exploration of the real RunEngine on a hand-stepped asyncio loop", "serves_properties": [p for p in claimed if ENGINE[p][0] == "X1"]},
            {"name": "G", "path": "bsv/explore/genproto.py", "kind_free_text": "exhaustive generator-protocol exploration: all small plan programs x all send/throw/close driver scripts, differential against reference generators", "serves_properties": [p for p in claimed if ENGINE[p][0] == "G"]},
            {"name": "S", "path": "bsv/props/Cxx.py (self-contained), bsv/explore/responder.py", "kind_free_text": "bounded exhaustive enumeration of inputs / operation histories on the real objects against a reference model", "serves_properties": [p for p in claimed if ENGINE[p][0] == "S"]},
        ],
        "checks": checks,
        "not_applicable": na,
        "notes": "All checks: cwd=/verif, import bluesky from /repo/src (working tree), PYTHONHASHSEED=0 re-exec, evidence rewritten on every run, exit 3 = harness error (never a violation). Known findings: /verif/known_findings.json ('known' entries print KNOWN-FINDING, 'fixed' entries suppress nothing).",
    }
    path = os.path.join(VERIF, "MANIFEST.json")
    with open(path, "w") as f:
        json.dump(manifest, f, indent=1)
    try:
        import jsonschema

        jsonschema.validate(manifest, json.load(open("/root/.vp/MANIFEST.schema.json")))
        print("MANIFEST.json valid;", len(checks), "checks,", len(na), "not claimed")
    except ImportError:
        print("jsonschema not importable; wrote", path)


if __name__ == "__main__":
    main()
