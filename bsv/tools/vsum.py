"""Summarise a BSV_DUMP violations file: python -m bsv.tools.vsum /tmp/x.json"""
import collections
import json
import sys

vs = json.load(open(sys.argv[1]))
c = collections.Counter()
ex = {}
for v in vs:
    k = (v["rule"], v["detail"][:110])
    c[k] += 1
    ex.setdefault(k, v)
for k, n in c.most_common():
    v = ex[k]
    print(n, k, "|", v.get("scenario"), v.get("params"), json.dumps(v.get("schedule"))[:200], "|", v.get("signature"))
print(len(vs), "violations,", len({v.get("signature") for v in vs}), "signatures")
