"""Per-property manifest entries (hand-maintained; mkmanifest.py renders MANIFEST.json).

'text' of level_claimed is the RULE string of the property module (what is enumerated, bound, oracle); the
entries here add the engine, the technique label and the trusted base.
"""

_X1_NOTE = (
    "Trusted: the harness (hand-stepped asyncio loop, baton scheduler for request threads, fake devices) and the oracle. Assumes requests "
    "land at loop-callback boundaries, fake devices instead of ophyd, virtual time, no SIGINT path; bounds are echoed in the evidence file."
)
_G_NOTE = (
    "Trusted: the program grammar compiler, the driver-script explorer and the reference generators written with plain try/except/finally. "
    "Programs and scripts beyond the stated size are not covered."
)
_S_NOTE = "Trusted: the reference model / independent re-computation written in the check; inputs beyond the stated alphabet and size are not covered."

T_X1 = "stateless bounded model checking of the implementation: exhaustive enumeration of request-injection positions, device faults and caller decisions on the real RunEngine (deviation-bounded)"
T_G = "bounded exhaustive exploration of the generator protocol: all small plan programs x all send/throw/close driver scripts on the real preprocessors, differential against reference generators"
T_S = "bounded exhaustive enumeration of inputs / operation histories on the real code against a reference model"
T_SBFS = "explicit-state search over operation histories of the real object (state-hash dedup) against a reference model"

ENGINE = {}
for _p in ("C01 C02 C03 C04 C05 C06 C07 C08 C09 C10 C11 C12 C13 C14 C31 C40 C41 C42").split():
    ENGINE[_p] = ("X1", T_X1, _X1_NOTE)
for _p in ("C20 C21 C22 C23 C32").split():
    ENGINE[_p] = ("G", T_G, _G_NOTE)
for _p in ("C15 C16 C17 C19 C24 C25 C26 C27 C28 C29 C33 C34 C35 C36 C37 C38 C39 C44 C45 C46").split():
    ENGINE[_p] = ("S", T_S, _S_NOTE)
for _p in ("C18 C30 C43").split():
    ENGINE[_p] = ("S", T_SBFS, _S_NOTE)

# properties for which no claim is made, with the reason
NOT_APPLICABLE = {}
