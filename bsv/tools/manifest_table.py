"""Per-property manifest entries (hand-maintained; mkmanifest.py renders MANIFEST.json)."""

_X1_NOTE = (
    "Trusted: the harness (virtual asyncio loop, baton scheduler, fake devices) and the oracle. Assumes requests land at "
    "loop-callback boundaries, fake devices instead of ophyd, virtual time, no SIGINT path; bounds are those echoed in the evidence file."
)

CHECKS = {
    "C01": {
        "engine": "X1",
        "technique": "stateless bounded model checking of the implementation: exhaustive enumeration of request-injection positions, device faults and caller decisions",
        "text": "Every execution of the corpus scenarios with <=1 deviation (quick) / <=2 on the small scenarios (thorough) - a pause, deferred pause, abort, stop, halt or suspension at every event-loop position, a raising device op or failing status at every ledger op - times every post-pause decision is run on the real RunEngine and its document stream checked run-wise (one start, one stop once idle, references backwards only, schema-valid, no uid twice).",
        "note": _X1_NOTE,
    },
}

NOT_APPLICABLE = {}
