"""X1 - deviation-bounded, stateless schedule exploration on the real RunEngine.

Deviations from the default environment: an external request injected at a loop position,
or a device fault at a ledger operation.  Deviations of one schedule are ordered in time,
so that every set of deviations is derived exactly once.  Caller decisions while paused are
not deviations: every execution that pauses is re-run with every decision vector
resume^i . X, X in {abort, stop, halt}.
"""

import hashlib
from collections import Counter

from bsv.harness.session import run as run_session
from bsv.scenarios import corpus

STATUS_OPS = ("set", "trigger", "kickoff", "complete")
ALT_DECISIONS = ("abort", "stop", "halt")


def sched_key(s):
    return repr((s.get("injections", []), sorted(s.get("faults", {}).items()), s.get("decisions", [])))


def behaviour_digest(obs):
    h = hashlib.sha256()
    for name, doc in obs.docs:
        h.update(name.encode())
        if name == "stop":
            h.update(repr((doc.get("exit_status"), doc.get("num_events"))).encode())
        if name == "event":
            h.update(repr((doc.get("seq_num"), sorted(doc.get("data", {}).items()))).encode())
    for m in obs.msgs:
        h.update(m.command.encode())
    for c in obs.calls:
        h.update(repr((c["name"], c["outcome"], type(c["exc"]).__name__, c.get("state_after"))).encode())
    h.update(repr(obs.states).encode())
    h.update(repr([(dev, op) for (_, dev, op, _, _) in obs.ledger]).encode())
    h.update(obs.outcome.encode())
    return h.hexdigest()[:12]


def outcome_class(obs):
    calls = tuple(
        (c["name"], c["outcome"], type(c["exc"]).__name__ if c["exc"] is not None else "-", c.get("state_after"))
        for c in obs.calls
        if c["name"] != "probe"
    )
    stops = tuple(doc.get("exit_status") for n, doc in obs.docs if n == "stop")
    return repr((obs.outcome, calls, stops))


def last_deviation_step(schedule, obs):
    """Loop step at/after which the next deviation has to happen."""
    step = -1
    pos = (0, 0)
    for p, _ev in schedule.get("injections", ()):
        pos = max(pos, tuple(p))
        step = max(step, p[0])
    fstep = -1
    for i in schedule.get("faults", {}):
        for li, _dev, _op, _args, st in obs.ledger:
            if li == int(i):
                fstep = max(fstep, st)
    return pos, step, fstep


def children(schedule, obs, menu, fault_kinds):
    """All schedules with exactly one more deviation, later in time than the existing ones."""
    out = []
    inj = list(schedule.get("injections", ()))
    faults = dict(schedule.get("faults", {}))
    last_pos, last_istep, last_fstep = last_deviation_step(schedule, obs)
    # a pseudo entry ("@once", kind, ...) in the menu: those kinds appear at most once per schedule
    once = set()
    for ev in menu:
        if ev[0] == "@once":
            once.update(ev[1:])
    menu = [ev for ev in menu if ev[0] != "@once" and not (ev[0] in once and any(e[0] == ev[0] for _, e in inj))]
    # injections: at positions not earlier than the last injection and strictly after the last fault's handle
    for p in obs.positions:
        if tuple(p) < tuple(last_pos):
            continue
        if p[0] <= last_fstep:
            continue
        for ev in menu:
            if ev[0] == "release" and not any(e[0] == "suspend" for _, e in inj):
                continue
            out.append({"injections": inj + [(tuple(p), tuple(ev))], "faults": dict(faults), "decisions": []})
    # faults: at operations that happen in or after the handle of the last injection, after the last fault
    if fault_kinds:
        maxf = max([int(i) for i in faults], default=-1)
        for li, _dev, op, _args, st in obs.ledger:
            if li <= maxf or st < last_istep:
                continue
            if st == last_istep and last_pos[1] > 0:
                # the last injection sits INSIDE callback `st` (after its j-th call_soon): an operation of that same
                # callback may come before that point, and failing it would change the callback so that the point
                # no longer exists.  Such pairs are covered with the injection at the next boundary instead.
                continue
            kinds = [k for k in fault_kinds if k == "raise" or op in STATUS_OPS]
            if op in ("stop", "subscribe", "pause", "resume"):
                continue  # declared infallible in the fakes
            if op == "clear_sub" and li not in _unmonitor_ops(obs):
                continue  # the device may refuse only the removal a plan's 'unmonitor' asks for, not the engine's own clean-up
            for k in kinds:
                f2 = dict(faults)
                f2[li] = k
                out.append({"injections": list(inj), "faults": f2, "decisions": []})
    return out


def _unmonitor_ops(obs):
    """Ledger indices of the device operations performed while an 'unmonitor' message of the plan was being processed."""
    cached = obs.extra.get("_unmonitor_ops")
    if cached is None:
        cached, cur = set(), None
        for t in obs.timeline:
            if t[0] == "msg":
                cur = t[2]
            elif t[0] == "plan_end":
                cur = None
            elif t[0] == "dev" and cur == "unmonitor":
                cached.add(t[4])
        obs.extra["_unmonitor_ops"] = cached
    return cached


def decision_variants(schedule, obs):
    out = []
    if schedule.get("decisions"):
        return out
    paused_calls = [c for c in obs.calls if c.get("state_after") == "paused"]
    last_inj = max((tuple(p)[0] for p, _ in schedule.get("injections", ())), default=-1)
    for i in range(obs.npauses):
        # a different decision at pause i changes everything after it: injections positioned later would be
        # meaningless, and the same schedule without them is explored on its own
        if last_inj >= paused_calls[i].get("n_ret", 0):
            break
        for alt in ALT_DECISIONS:
            s = dict(schedule)
            s["decisions"] = ["resume"] * i + [alt]
            out.append(s)
    return out


class Stats:
    def __init__(self):
        self.evaluations = 0
        self.transitions = 0
        self.digests = set()
        self.behaviours = set()
        self.outcomes = Counter()
        self.violations = []
        self.harness_errors = []
        self.samples = []
        self.by_depth = Counter()
        self.effective = 0

    def merge(self, o):
        self.evaluations += o.evaluations
        self.transitions += o.transitions
        self.digests |= o.digests
        self.behaviours |= o.behaviours
        self.outcomes.update(o.outcomes)
        self.violations.extend(o.violations)
        self.harness_errors.extend(o.harness_errors)
        self.by_depth.update(o.by_depth)
        self.effective += o.effective
        for s in o.samples:
            if len(self.samples) < 6:
                self.samples.append(s)


def signature(rule, scn_key, schedule, obs):
    """What failed, independent of loop-step numbers."""
    phases = []
    for t in obs.timeline:
        if t[0] == "inject":
            phases.append(f"{t[1].split(':')[0]}@{t[3]}/{t[4]}/{t[5] if len(t) > 5 else '?'}")
        elif t[0] == "cbfail":
            phases.append(f"cbfail@{t[2]}")  # a document consumer raised on a document of this kind
    for i, k in sorted(schedule.get("faults", {}).items()):
        for li, dev, op, _a, _s in obs.ledger:
            if li == int(i):
                phases.append(f"fault-{k}@{dev}.{op}")
    dec = "".join(d[0] for d in schedule.get("decisions", []))
    # request-driven state changes that happened while _run was not in its message loop
    eff = [f"{t[1]}@{t[3]}" for t in obs.timeline if t[0] == "state" and len(t) > 3 and t[3] not in ("", "loop")]
    return f"{rule}|{scn_key}|{'+'.join(phases) or '-'}|{','.join(eff) or '-'}|{dec or '-'}"


def execute(scn_key, params, schedule):
    scn = corpus.make(scn_key, params)
    return scn, run_session(scn, schedule)


def explore_item(item, oracle):
    """Run one schedule, its decision variants, and (depth permitting) its descendants.

    item: dict(scn=key, params=dict, schedule=dict, depth=int, bound=int, menu=[...], fault_kinds=[...], ref=...)
    oracle(scn, obs, ref_obs, schedule) -> [(rule, detail)]
    """
    st = Stats()
    scn_key, params = item["scn"], item.get("params") or {}
    ref_scn, ref = execute(scn_key, params, {})
    stack = [(s, item["depth"]) for s in reversed(item["schedules"])]
    while stack:
        schedule, depth = stack.pop()
        scn, obs = execute(scn_key, params, schedule)
        _account(st, scn_key, params, scn, obs, ref, schedule, oracle, depth)
        if obs.outcome == "harness_error":
            continue
        for dv in decision_variants(schedule, obs):
            scn2, obs2 = execute(scn_key, params, dv)
            _account(st, scn_key, params, scn2, obs2, ref, dv, oracle, depth)
        if depth < item["bound"]:
            for ch in children(schedule, obs, item["menu"], item.get("fault_kinds", ())):
                stack.append((ch, depth + 1))
    return st


def _account(st, scn_key, params, scn, obs, ref, schedule, oracle, depth):
    st.evaluations += 1
    st.transitions += obs.nsteps + len(schedule.get("injections", ())) + len(schedule.get("faults", {}))
    st.digests.add(obs.digest)
    st.by_depth[depth] += 1
    b = behaviour_digest(obs)
    if b != behaviour_digest(ref):
        st.behaviours.add(b)
        st.effective += 1
    st.outcomes[outcome_class(obs)] += 1
    if obs.outcome == "harness_error":
        st.harness_errors.append({"scn": scn_key, "params": params, "schedule": schedule, "error": obs.harness_error})
        return
    if len(st.samples) < 3 and schedule.get("injections"):
        st.samples.append({"scenario": scn_key, "params": params, "schedule": _jsonable(schedule), "outcome": outcome_class(obs)})
    for rule, detail in oracle(scn, obs, ref, schedule):
        st.violations.append(
            {
                "rule": rule,
                "detail": detail,
                "scenario": scn_key,
                "params": params,
                "schedule": _jsonable(schedule),
                "signature": signature(rule, scn_key, schedule, obs),
                "digest": obs.digest,
            }
        )


def _jsonable(schedule):
    return {
        "injections": [[list(p), list(ev)] for p, ev in schedule.get("injections", ())],
        "faults": {str(k): v for k, v in schedule.get("faults", {}).items()},
        "decisions": list(schedule.get("decisions", ())),
    }


def from_json(schedule):
    return {
        "injections": [(tuple(p), tuple(ev)) for p, ev in schedule.get("injections", ())],
        "faults": {int(k): v for k, v in schedule.get("faults", {}).items()},
        "decisions": list(schedule.get("decisions", ())),
    }


def plan_items(scn_specs, chunk=24):
    """First level of the tree, cut into work items.

    scn_specs: list of dict(scn, params, menu, bound, fault_kinds).  Returns items for explore_item,
    the first of each scenario being the reference execution itself (depth 0, bound 0).
    """
    items = []
    for spec in scn_specs:
        scn_key, params = spec["scn"], spec.get("params") or {}
        base = {"scn": scn_key, "params": params, "menu": spec["menu"], "fault_kinds": spec.get("fault_kinds", ())}
        items.append(dict(base, schedules=[{}], depth=0, bound=0))
        if spec["bound"] < 1:
            continue
        scn, ref = execute(scn_key, params, {})
        if ref.outcome != "ok":
            continue
        chs = children({}, ref, spec["menu"], spec.get("fault_kinds", ()))
        size = chunk if spec["bound"] == 1 else (max(1, chunk // 8) if spec["bound"] == 2 else 1)
        for i in range(0, len(chs), size):
            items.append(dict(base, schedules=chs[i : i + size], depth=1, bound=spec["bound"]))
    return items
