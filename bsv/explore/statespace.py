"""X2 - explicit-state search over the real RunEngine (DESIGN.md 2.3).

A state is the action history that reaches it; ``build(hist)`` replays the history on a fresh harness.  Actions:
'step' (run the next loop callback), ('inj', event) (an external request starts now), ('rel', i) (release the i-th
suspension), ('dec', d) (the caller, back from a paused call, decides resume/abort/stop/halt).  States are merged by
``canon``: a canonical rendering of everything in the live engine that future control flow can read.

Action discipline (serial-request fragment): a request is enabled only when no earlier request is still in flight;
after an accepted abort/stop/halt only 'step' is enabled; at most MAX_REPLAY replay generators stacked; at most
MAX_SUSP suspensions outstanding.  Interleavings of requests that overlap are X1's job.
"""

import hashlib
import operator
from collections import deque

from bsv.harness.session import run as run_session
from bsv.scenarios import corpus

MAX_REPLAY = 1
MAX_SUSP = 1
MAX_STACK = 3  # generators on the engine's plan stack beyond which no further pause/suspension is injected
REQUESTS = [("pause",), ("dpause",), ("abort",), ("stop",), ("halt",), ("suspend", "none")]
DECISIONS = ["resume", "abort", "stop", "halt"]


def _simple(v):
    if isinstance(v, (int, float, str, bool, type(None))):
        return v
    if isinstance(v, (tuple, list)) and len(v) < 6 and all(isinstance(x, (int, float, str, bool, type(None))) for x in v):
        return tuple(v)
    try:
        if hasattr(v, "__length_hint__") or hasattr(v, "__next__"):
            return ("iter", operator.length_hint(v, -1))
    except Exception:  # noqa: BLE001
        pass
    return type(v).__name__


def _gen_pos(g):
    """Yield-from chain of a generator: ((code name, last instruction, simple locals), ...)."""
    out = []
    seen = 0
    while g is not None and seen < 12:
        seen += 1
        fr = getattr(g, "gi_frame", None)
        if fr is None:
            inner = getattr(g, "_iter", None)  # bluesky.utils.Plan wrapper
            if inner is not None:
                g = inner
                continue
            out.append((type(g).__name__, "done"))
            break
        loc = tuple(sorted((k, _simple(v)) for k, v in fr.f_locals.items() if not k.startswith("_") and k not in ("self", "d", "sess")))
        loc = tuple((k, v) for k, v in loc if not isinstance(v, str) or len(v) < 40)
        out.append((g.gi_code.co_name, fr.f_lasti, loc))
        g = g.gi_yieldfrom
    return tuple(out)


def _coro_pos(task):
    out = []
    co = task.get_coro() if task is not None else None
    n = 0
    while co is not None and n < 12:
        n += 1
        fr = getattr(co, "cr_frame", None) or getattr(co, "gi_frame", None)
        if fr is None:
            out.append((type(co).__name__,))
            break
        code = getattr(co, "cr_code", None) or getattr(co, "gi_code", None)
        out.append((code.co_name, fr.f_lasti))
        co = getattr(co, "cr_await", None) or getattr(co, "gi_yieldfrom", None)
    return tuple(out)


def _other_tasks(loop, main):
    """Positions of every other unfinished task of the loop (sub-tasks of a gather, request coroutines): sorted."""
    import asyncio

    out = []
    for t in asyncio.all_tasks(loop):
        if t is main or t.done():
            continue
        out.append((_coro_pos(t), getattr(t, "_must_cancel", None), getattr(t, "_fut_waiter", None) is not None))
    return tuple(sorted(out, key=repr))


def snapshot(sess, how):
    """Canonical state + enabled actions of a live session (called before teardown)."""
    RE = sess.RE
    loop = sess.loop
    state = str(RE.state)
    task = RE._task
    run_locals = ()
    if task is not None and not task.done():
        fr = task.get_coro().cr_frame
        if fr is not None:
            se = fr.f_locals.get("stashed_exception")
            run_locals = (type(se).__name__ if se is not None else None, getattr(se, "__name__", None) if isinstance(se, type) else None)
    cache = RE._msg_cache
    bundlers = tuple(
        sorted(
            (repr(k), b.run_is_open, b.bundling, tuple(sorted(b._sequence_counters.items())), tuple(sorted(b._sequence_counters_copy.items())), len(b._monitor_params),
             # what has been cached about the devices so far (the engine is mid-way through several awaits of one message)
             tuple(len(getattr(b, a, ())) for a in ("_read_cache", "_describe_cache", "_describe_collect_cache", "_config_desc_cache", "_config_values_cache", "_config_ts_cache", "_descriptors")))
            for k, b in RE._run_bundlers.items()
        )
    )
    helpers_parked = tuple(h.label for h in sess.sched.helpers if h.state == "parked")
    susp = sum(1 for r in sess.suspensions if not r["released"])  # past, released suspensions leave no trace
    in_call = None
    for t in reversed(sess.timeline):
        if t[0] == "ret":
            break
        if t[0] == "call":
            in_call = t[1]
            break
    canon = (
        state,
        RE._run_permit.is_set() if RE._run_permit is not None else None,
        RE._interrupted,
        RE._deferred_pause_requested,
        RE._rewindable_flag,
        tuple(m.command for m in cache) if cache is not None else None,
        type(RE._exception).__name__ if RE._exception is not None and not isinstance(RE._exception, type) else getattr(RE._exception, "__name__", None),
        RE._exit_status,
        tuple(_gen_pos(g) for g in RE._plan_stack),
        tuple(type(r).__name__ if not isinstance(r, (bool, int, type(None))) else r for r in RE._response_stack),
        _coro_pos(task) if task is not None and not task.done() else ("notask" if task is None else "done"),
        run_locals,
        (getattr(task, "_must_cancel", None), getattr(task, "_fut_waiter", None) is not None) if task is not None else None,
        tuple(loop.ready_names()),
        _other_tasks(loop, task),
        tuple(loop.timer_offsets()),
        in_call is not None,  # which blocking call the caller sits in does not matter to the engine
        susp,
        bundlers,
        helpers_parked,
        getattr(sess, "awaiting_decision", False),
        getattr(sess, "x2_terminal", False),
    )
    h = hashlib.sha256(repr(canon).encode()).hexdigest()[:20]
    # enabled actions
    enabled = []
    terminal = getattr(sess, "x2_terminal", False) or how == "end"
    if not terminal:
        if getattr(sess, "awaiting_decision", False):
            enabled = [("dec", d) for d in DECISIONS]
        else:
            can_step = bool(loop._ready) or any(not hh._cancelled for hh in loop._scheduled)
            if can_step:
                enabled.append("step")
            quiet = ("RunEngine._run", "RunEngine._wait", "_on_completion", "Event.wait", "_status_object_completed", "sleep", "FakeStatus")
            in_flight = bool(helpers_parked) or any(not any(q in n for q in quiet) for n in loop.ready_names())
            if not in_flight:
                for i, r in enumerate(sess.suspensions):
                    if not r["released"]:
                        enabled.append(("rel", i))
                        break  # suspensions are released oldest first
            terminating = state in ("aborting", "stopping", "halting")
            nreplay = sum(1 for g in RE._plan_stack for lvl in _gen_pos(g) if lvl and lvl[0] == "<genexpr>")
            # suspension helpers still on the plan stack (a new suspension can nest on a half-finished one without bound)
            nhelpers = sum(1 for g in RE._plan_stack for lvl in _gen_pos(g) if lvl and lvl[0] in ("suspender_helper_inner_plan",))
            deep = len(RE._plan_stack) > MAX_STACK
            if not in_flight and not terminating and state in ("running", "pausing", "suspending"):
                for ev in REQUESTS:
                    if deep and ev[0] in ("pause", "dpause", "suspend"):
                        continue  # interruptions of interrupted replays nest without bound
                    if ev[0] in ("pause",) and nreplay >= MAX_REPLAY:
                        continue
                    if ev[0] == "suspend" and (susp >= MAX_SUSP or nhelpers >= MAX_SUSP):
                        continue
                    if ev[0] == "dpause" and RE._deferred_pause_requested:
                        continue
                    enabled.append(("inj", ev))
    import os

    dbg = repr(canon) if os.environ.get("BSV_X2_DEBUG") else None
    return {"hash": h, "state": state, "enabled": enabled, "terminal": terminal, "in_call": in_call, "how": how, "caps": {"replay": MAX_REPLAY, "susp": MAX_SUSP, "stack": MAX_STACK}, "canon": dbg}


def build(scn_key, params, hist):
    scn = corpus.make(scn_key, params)
    obs = run_session(scn, {"actions": list(hist)})
    return scn, obs


def check_build(obs, table):
    """Invariants on the execution that reaches a node (the last action is the new edge)."""
    from bluesky._vendor.super_state_machine.errors import TransitionError

    out = []
    for new, old in obs.states:
        if new not in table.get(old, ()):
            out.append(("illegal-transition", f"{old} -> {new}"))
        if new == "panicked":
            out.append(("panicked", f"{old} -> panicked"))
    if obs.outcome in ("deadlock", "livelock"):
        out.append((obs.outcome, f"caller stuck with engine state {obs.calls[-1]['state_after'] if obs.calls else '?'}"))
    if obs.outcome == "harness_error":
        out.append(("harness-error", str(obs.harness_error)))
    for c in obs.calls:
        if c["outcome"] == "stuck":
            continue
        if c["state_after"] not in ("idle", "paused"):
            out.append(("transient-state-after-call", f"{c['name']}() ended with state {c['state_after']}"))
        e = c["exc"]
        if isinstance(e, TransitionError) or (isinstance(e, RuntimeError) and "The RunEngine is in a" in str(e)):
            out.append(("legal-call-refused", f"{c['name']}() raised {type(e).__name__}: {str(e)[:100]}"))
        if c["name"] == "probe" and c["outcome"] != "return":
            out.append(("probe-failed", f"{type(e).__name__}: {str(e)[:100]}"))
        if c["name"] in ("RE", "resume") and type(e).__name__ == "RunEngineInterrupted" and c["state_after"] == "idle":
            pass  # C08 judges this with the schedule at hand
    return out


def expand(args):
    """Worker: build hist + [a] for every action a; return the successor records."""
    scn_key, params, hist, actions = args
    from bsv.oracles.engine import transitions_table

    table = transitions_table()
    out = []
    for a in actions:
        h2 = list(hist) + [a]
        scn, obs = build(scn_key, params, h2)
        snap = obs.extra.get("x2")
        viol = check_build(obs, table)
        rec = {
            "action": a,
            "hist": h2,
            "outcome": obs.outcome,
            "violations": viol,
            "nsteps": obs.nsteps,
            "snap": snap,
            "states": obs.states[-3:],
        }
        out.append(rec)
    return out


def _init_worker():
    from bsv import env

    env.setup()
    env.silence_stdout()


def search(scn_key, params, jobs=16, max_states=60000, progress=None):
    import multiprocessing as mp

    scn, obs0 = build(scn_key, params, [])
    snap0 = obs0.extra.get("x2")
    if snap0 is None:
        return {"error": f"root build ended {obs0.outcome}: {obs0.harness_error}"}
    seen = {snap0["hash"]: []}
    info = {snap0["hash"]: {"state": snap0["state"], "terminal": snap0["terminal"]}}
    edges = []  # (src hash, action repr, dst hash or outcome)
    violations = []
    frontier = [([], snap0)]
    builds = 1
    depth = 0
    caps_hit = 0
    ctx = mp.get_context("fork")
    with ctx.Pool(jobs, initializer=_init_worker) as pool:
        while frontier:
            depth += 1
            tasks = [(scn_key, params, hist, snap["enabled"]) for hist, snap in frontier if snap["enabled"]]
            srcs = {repr(hist): snap["hash"] for hist, snap in frontier}
            nxt = []
            for recs in pool.imap_unordered(expand, tasks, chunksize=4):
                for rec in recs:
                    builds += 1
                    src = srcs[repr(rec["hist"][:-1])]
                    snap = rec["snap"]
                    for rule, detail in rec["violations"]:
                        violations.append({"rule": rule, "detail": detail, "hist": rec["hist"], "signature": f"x2:{rule}|{scn_key}|{_kinds(rec['hist'])}"})
                    if snap is None:
                        edges.append((src, repr(rec["action"]), "!" + rec["outcome"]))
                        continue
                    edges.append((src, repr(rec["action"]), snap["hash"]))
                    if snap["hash"] not in seen:
                        seen[snap["hash"]] = rec["hist"]
                        info[snap["hash"]] = {"state": snap["state"], "terminal": snap["terminal"]}
                        if not snap["terminal"]:
                            nxt.append((rec["hist"], snap))
            frontier = nxt
            if progress:
                progress(depth, len(seen), len(edges), len(frontier))
            if len(seen) > max_states:
                caps_hit = 1
                break
    # AG EF quiescent: from every node a terminal node is reachable by step / release / caller decisions alone
    rev = {}
    for s, a, d in edges:
        if d.startswith("!"):
            continue
        if a.startswith("'step'") or a.startswith("('rel'") or a.startswith("('dec'"):
            rev.setdefault(d, []).append(s)
    good = {h for h, i in info.items() if i["terminal"]}
    dq = deque(good)
    while dq:
        x = dq.popleft()
        for p in rev.get(x, ()):
            if p not in good:
                good.add(p)
                dq.append(p)
    stuck = [h for h in info if h not in good]
    if not caps_hit:
        for h in stuck[:20]:
            violations.append({"rule": "no-way-back-to-idle", "detail": f"from the state reached by {_kinds(seen[h])} (engine state {info[h]['state']}) no sequence of loop steps, releases and caller decisions reaches an idle engine", "hist": seen[h], "signature": f"x2:no-way-back-to-idle|{scn_key}|{_kinds(seen[h])}"})
    by_state = {}
    for h, i in info.items():
        by_state[i["state"]] = by_state.get(i["state"], 0) + 1
    return {
        "states": len(seen),
        "transitions": len(edges),
        "builds": builds,
        "depth": depth,
        "terminal_states": sum(1 for i in info.values() if i["terminal"]),
        "states_by_engine_state": by_state,
        "stuck_states": len(stuck) if not caps_hit else None,
        "caps_hit": caps_hit,
        "violations": violations,
        "sample_histories": [seen[h] for h in list(seen)[-3:]],
    }


def _kinds(hist):
    out = []
    n = 0
    for a in hist:
        if a == "step":
            n += 1
            continue
        if n:
            out.append(f"{n}s")
            n = 0
        out.append(":".join(str(x) for x in (a[1] if a[0] == "inj" else a)).replace("('", "").replace("',)", ""))
    if n:
        out.append(f"{n}s")
    return ",".join(out)


if __name__ == "__main__":
    import json
    import sys
    import time

    from bsv import env

    env.setup()
    key = sys.argv[1]
    params = json.loads(sys.argv[2]) if len(sys.argv) > 2 else {}
    t = time.time()
    rep = search(key, params, progress=lambda d, s, e, f: print(f"depth={d} states={s} edges={e} frontier={f} t={time.time() - t:.0f}s", flush=True))
    v = rep.pop("violations", [])
    print(json.dumps(rep, indent=1, default=str)[:3000])
    from collections import Counter

    print(Counter(x["rule"] for x in v))
    for x in v[:10]:
        print(x["rule"], x["detail"], _kinds(x["hist"]))
