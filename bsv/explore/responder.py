"""Message-level responder: iterate a plan generator without a RunEngine.

Used by the S checks of the plan library (C24 wrapper part, C28 counting part, C29).  It is the
dumbest possible stand-in for the engine: every ``Msg`` gets the answer the engine would give
for an ideal, instantaneous device; positions and a virtual clock are the only state.

    r = Responder(reading=lambda dev, r: {...})
    out = drive(plan, r, throw_at=(k, exc))   # optional: deliver ``exc`` as the response to message k

``out`` = {'outcome': 'return'|'raise'|'horizon', 'value', 'exc', 'trace': [Msg...], 'thrown_at': k|None}
"""


class Dev:
    """A passive device: satisfies the runtime protocol checks, never executes anything itself."""

    parent = None

    def __init__(self, name, kind="motor", locatable=False, has_position=False, hinted=True):
        self.name = name
        self.kind = kind
        self.hints = {"fields": [name]} if hinted else {}
        if locatable:
            self.locate = self._refuse
        if has_position:
            self.position = None  # filled by the responder
        if kind == "det":
            self.trigger = self._refuse
        else:
            self.set = self._refuse

    def _refuse(self, *a, **k):
        raise AssertionError("responder devices are never executed")

    read = describe = read_configuration = describe_configuration = _refuse

    def __repr__(self):
        return f"<{self.name}>"

    def __hash__(self):
        return hash(self.name)

    def __eq__(self, other):
        return self is other


class Responder:
    def __init__(self, positions=None, reading=None, horizon=50_000, clock0=0.0):
        self.pos = dict(positions or {})  # dev -> position (for devices with .position it is mirrored there)
        self.reading = reading  # callable(dev, responder) -> value, for non-motor devices
        self.horizon = horizon
        self.clock = clock0
        self.sets = []  # (index in trace, dev, value)
        self.nreads = {}
        for d, v in self.pos.items():
            if "position" in getattr(d, "__dict__", {}):
                d.position = v

    def time(self):
        return self.clock

    def answer(self, i, msg):
        c = msg.command
        if c == "set":
            v = msg.args[0]
            self.sets.append((i, msg.obj, v))
            self.pos[msg.obj] = v
            if "position" in getattr(msg.obj, "__dict__", {}):
                msg.obj.position = v
            return None
        if c == "read":
            d = msg.obj
            self.nreads[d] = self.nreads.get(d, 0) + 1
            if d in self.pos:
                v = self.pos[d]
            else:
                v = self.reading(d, self)
            return {d.name: {"value": v, "timestamp": 0.0}}
        if c == "locate":
            p = self.pos[msg.obj]
            return {"setpoint": p, "readback": p}
        if c == "sleep":
            self.clock = self.clock + msg.args[0]
            return None
        if c in ("open_run", "close_run"):
            return "uid-" + c
        if c in ("stage", "unstage"):
            return [msg.obj]
        if c == "wait":
            return True
        return None


def fast_plans():
    """The @plan decorator formats a stack per call (half the cost of a small plan); only a warning text needs it."""
    import traceback

    import bluesky.utils as utils_mod

    class _TB:
        def __getattr__(self, name):
            return getattr(traceback, name)

        @staticmethod
        def format_stack(*a, **k):
            return ["<stack elided>\n", "", ""]

    utils_mod.traceback = _TB()


def drive(plan, responder, throw_at=None, on_msg=None):
    """Run ``plan`` to completion.  throw_at=(k, exc): instead of answering message k, throw exc.
    on_msg(i, msg) -> None | exception: a consumer that decides on the fly to throw (after seeing message i)."""
    from bluesky.utils import ensure_generator

    plan = ensure_generator(plan)
    trace = []
    out = {"outcome": None, "value": None, "exc": None, "trace": trace, "thrown_at": None}
    resp = None
    pending_throw = None
    try:
        while True:
            if pending_throw is not None:
                exc, pending_throw = pending_throw, None
                msg = plan.throw(exc)
            else:
                msg = plan.send(resp)
            i = len(trace)
            trace.append(msg)
            if i >= responder.horizon:
                out["outcome"] = "horizon"
                try:
                    plan.close()
                except BaseException:  # noqa: BLE001 - a plan that yields while being closed; the horizon verdict stands
                    pass
                return out
            if throw_at is not None and throw_at[0] == i:
                pending_throw = throw_at[1]
                out["thrown_at"] = i
                resp = None
                continue
            if on_msg is not None:
                exc = on_msg(i, msg)
                if exc is not None:
                    pending_throw = exc
                    out["thrown_at"] = i
                    resp = None
                    continue
            resp = responder.answer(i, msg)
    except StopIteration as e:
        out["outcome"] = "return"
        out["value"] = e.value
    except BaseException as e:  # noqa: BLE001 - whatever the plan raises is the observation
        out["outcome"] = "raise"
        out["exc"] = e
    return out
