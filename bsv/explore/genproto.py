"""G - generator-protocol explorer: plan programs x adaptive driver-script trees.

Programs are nested tuples (picklable), compiled through generated source into REAL
Python generators (so try/except/else/finally, yield from, return have the
interpreter's own semantics):

    ("Y",)                 r = yield Msg(<tag>)      fresh Msg object every time; logs r
    ("YS",)                r = yield <shared Msg>    the SAME Msg object at every YS of the program
    ("YF", P)              r = yield from P          (P runs as its own generator); logs r
    ("Seq", (P1, .., Pn))  n >= 2, no Seq child, nothing after a terminal statement
    ("Try", catch, body, except_|None, else_|None, finally_|None)
                           catch "E" = ``except Exception``, "B" = ``except BaseException``;
                           at least one of except_/finally_; else_ only with except_;
                           arms log ("exc", <exception identity>) / ("fin",) on entry
    ("Raise", k)           raise E<k>()   (a new, labelled instance)
    ("Reraise",)           bare ``raise``; generated only lexically inside an except arm (elsewhere its meaning
                           depends on the CALLER's sys.exc_info(), which is not a property of the plan)
    ("Ret", v)             return v

Tags are assigned per yield site in pre-order ("a0", "a1", ...) unless the node carries
an explicit command: ("Y", cmd, objname) - used by the vocabulary-instantiated checks.

Node count: every node but Seq counts 1.  Nesting = number of Try/YF nodes on a path.

Driver actions (ACTIONS): send(None), send(1), throw(E1()), throw(RequestStop()),
throw(RequestAbort()), throw(PlanHalt()), close(); the first action of a script is
send(None) or close().  Generators cannot be cloned, so the tree is explored by
re-execution of every prefix (stateless search); a branch ends when the generator ends.

Observation of one (factory, script): per step the event ("yield", message identity,
message content) or the terminal ("return", value) / ("raise", type, identity, text) /
("closed",) / ("close-raised", type, identity, text); plus the program-side log.
Identities are labels assigned by the Env (driver-created "D<i>:", program-created
"P<n>:", anything else "U<n>:" in first-seen order) - never addresses.
"""

import gc
import hashlib
import itertools
import sys

# --------------------------------------------------------------------------------------
# grammar
# --------------------------------------------------------------------------------------

TERMINAL_KINDS = ("Raise", "Reraise", "Ret")
DEFAULT_LEAVES = (("Y",), ("YS",), ("Raise", 2), ("Reraise",), ("Ret", 7))
DEFAULT_CATCH = ("E", "B")


def size(p):
    k = p[0]
    if k == "Seq":
        return sum(size(c) for c in p[1])
    if k == "YF":
        return 1 + size(p[1])
    if k == "Try":
        return 1 + sum(size(a) for a in p[2:] if a is not None)
    return 1


def depth(p):
    k = p[0]
    if k == "Seq":
        return max(depth(c) for c in p[1])
    if k == "YF":
        return 1 + depth(p[1])
    if k == "Try":
        return 1 + max(depth(a) for a in p[2:] if a is not None)
    return 0


def walk(p):
    yield p
    k = p[0]
    if k == "Seq":
        for c in p[1]:
            yield from walk(c)
    elif k == "YF":
        yield from walk(p[1])
    elif k == "Try":
        for a in p[2:]:
            if a is not None:
                yield from walk(a)


def has(p, *kinds):
    return any(n[0] in kinds for n in walk(p))


def ends_terminal(p):
    """Statically certain that control never falls off the end of p."""
    k = p[0]
    if k in TERMINAL_KINDS:
        return True
    if k == "Seq":
        return ends_terminal(p[1][-1])
    return False


_cache = {}


def _single(n, d, leaves, catch, inexc=False):
    """Non-Seq programs of exactly n nodes, nesting <= d.  ``inexc``: lexically inside an except arm (bare raise allowed)."""
    key = ("s", n, d, leaves, catch, inexc)
    if key in _cache:
        return _cache[key]
    out = []
    if n == 1:
        out.extend(x for x in leaves if inexc or x[0] != "Reraise")
    if n >= 2 and d >= 1:
        for sub in _block(n - 1, d - 1, leaves, catch, False):
            out.append(("YF", sub))
        # Try: 1 + body + optional arms
        rest = n - 1
        for nb in range(1, rest):
            for ne in range(0, rest - nb + 1):
                for nl in range(0, rest - nb - ne + 1):
                    nf = rest - nb - ne - nl
                    if ne == 0 and nf == 0:
                        continue
                    if nl > 0 and ne == 0:
                        continue
                    bodies = _block(nb, d - 1, leaves, catch, inexc)
                    excs = _block(ne, d - 1, leaves, catch, True) if ne else [None]
                    elses = _block(nl, d - 1, leaves, catch, inexc) if nl else [None]
                    fins = _block(nf, d - 1, leaves, catch, inexc) if nf else [None]
                    for b, e, l, f in itertools.product(bodies, excs, elses, fins):
                        if l is not None and ends_terminal(b):
                            # else-arm after a body that always raises/returns is dead code
                            continue
                        for c in catch if e is not None else ("E",):
                            out.append(("Try", c, b, e, l, f))
    _cache[key] = out
    return out


def _block(n, d, leaves, catch, inexc=False):
    """Programs (single statement or Seq) of exactly n nodes, nesting <= d."""
    key = ("b", n, d, leaves, catch, inexc)
    if key in _cache:
        return _cache[key]
    out = list(_single(n, d, leaves, catch, inexc))
    # Seq of k >= 2 single statements; a terminal statement only in last position
    for k in range(2, n + 1):
        for parts in _compositions(n, k):
            pools = [_single(m, d, leaves, catch, inexc) for m in parts]
            for combo in itertools.product(*pools):
                if any(ends_terminal(c) for c in combo[:-1]):
                    continue
                out.append(("Seq", tuple(combo)))
    _cache[key] = out
    return out


def _compositions(n, k):
    if k == 1:
        yield (n,)
        return
    for first in range(1, n - k + 2):
        for rest in _compositions(n - first, k - 1):
            yield (first,) + rest


def programs(max_nodes, max_depth=2, leaves=DEFAULT_LEAVES, catch=DEFAULT_CATCH, exact=False):
    """All programs with <= max_nodes nodes (or exactly, if exact) and nesting <= max_depth, in a fixed order."""
    leaves, catch = tuple(leaves), tuple(catch)
    out = []
    for n in range(max_nodes if exact else 1, max_nodes + 1):
        out.extend(_block(n, max_depth, leaves, catch))
    return out


# --------------------------------------------------------------------------------------
# compilation
# --------------------------------------------------------------------------------------


class E1(Exception):
    pass


class E2(Exception):
    pass


class E3(Exception):
    pass


EXC = {1: E1, 2: E2, 3: E3}


class Env:
    """Per-execution context: program log, identity labels, message factory."""

    __slots__ = ("log", "_labels", "_keep", "_nprog", "_nunk", "_shared", "mkmsg", "objs", "nmsg", "aux")

    def __init__(self, mkmsg=None, objs=None):
        self.log = []
        self._labels = {}
        self._keep = []
        self._nprog = 0
        self._nunk = 0
        self._shared = None
        self.mkmsg = mkmsg or _default_mkmsg
        self.objs = objs or {}
        self.nmsg = 0
        self.aux = {}

    # identities -----------------------------------------------------------------
    def register(self, obj, label):
        self._labels[id(obj)] = label
        self._keep.append(obj)
        return obj

    def label(self, obj):
        lab = self._labels.get(id(obj))
        if lab is None:
            lab = f"U{self._nunk}:{type(obj).__name__}"
            self._nunk += 1
            self.register(obj, lab)
        return lab

    # program side ---------------------------------------------------------------
    def mk(self, tag, cmd=None, objname=None):
        m = self.mkmsg(self, tag, cmd, objname)
        self.register(m, f"M{self.nmsg}:{tag}")
        self.nmsg += 1
        return m

    def shared(self, tag, cmd=None, objname=None):
        if self._shared is None:
            self._shared = self.mk("S", cmd, objname)
        return self._shared

    def new_exc(self, k):
        e = EXC[k](f"p{self._nprog}")
        self.register(e, f"P{self._nprog}:E{k}")
        self._nprog += 1
        return e

    def rec(self, *a):
        self.log.append(a)

    def canon(self, v):
        return canon(v, self)


def _default_mkmsg(env, tag, cmd, objname):
    from bluesky.utils import Msg

    return Msg(cmd or tag, env.objs.get(objname) if objname else None)


def canon(v, env):
    """Value -> hashable, address-free description."""
    if v is None or isinstance(v, (bool, int, float, str)):
        return v
    if isinstance(v, BaseException):
        return ("exc", type(v).__name__, env.label(v))
    if isinstance(v, tuple) and hasattr(v, "_fields") and hasattr(v, "command"):
        return ("msg", env.label(v), v.command, canon(v.obj, env), canon(tuple(v.args), env), canon(dict(v.kwargs), env), canon(v.run, env))
    if isinstance(v, (list, tuple)):
        return (type(v).__name__,) + tuple(canon(x, env) for x in v)
    if isinstance(v, dict):
        return ("dict",) + tuple(sorted((str(k), canon(x, env)) for k, x in v.items()))
    if isinstance(v, (set, frozenset)):
        return ("set",) + tuple(sorted(repr(canon(x, env)) for x in v))
    name = getattr(v, "name", None)
    if isinstance(name, str):
        return ("obj", name)
    if callable(v):
        return ("fn", getattr(v, "__name__", type(v).__name__))
    return ("o", env.label(v))


class _Src:
    def __init__(self, prefix="a"):
        self.prefix = prefix
        self.funcs = []
        self.ntag = 0
        self.nfn = 0

    def fn(self, p):
        name = f"_g{self.nfn}"
        self.nfn += 1
        body = []
        self.stmt(p, body, 1)
        lines = [f"def {name}(env):"]
        lines.append("    if 0: yield")
        lines.extend(body)
        self.funcs.append("\n".join(lines))
        return name

    def stmt(self, p, out, ind):
        pad = "    " * ind
        k = p[0]
        if k in ("Y", "YS"):
            tag = f"{self.prefix}{self.ntag}"
            self.ntag += 1
            cmd = p[1] if len(p) > 1 else None
            obj = p[2] if len(p) > 2 else None
            mk = "mk" if k == "Y" else "shared"
            out.append(f"{pad}env.rec('y>', {tag!r})")
            out.append(f"{pad}r = yield env.{mk}({tag!r}, {cmd!r}, {obj!r})")
            out.append(f"{pad}env.rec('y<', {tag!r}, env.canon(r))")
        elif k == "YF":
            sub = self.fn(p[1])
            out.append(f"{pad}r = yield from {sub}(env)")
            out.append(f"{pad}env.rec('yf<', env.canon(r))")
        elif k == "Seq":
            for c in p[1]:
                self.stmt(c, out, ind)
        elif k == "Try":
            _, catch, body, exc, els, fin = p
            out.append(f"{pad}try:")
            self.stmt(body, out, ind + 1)
            if exc is not None:
                base = "Exception" if catch == "E" else "BaseException"
                out.append(f"{pad}except {base} as _e:")
                out.append(f"{pad}    env.rec('exc', env.canon(_e))")
                self.stmt(exc, out, ind + 1)
            if els is not None:
                out.append(f"{pad}else:")
                out.append(f"{pad}    env.rec('else')")
                self.stmt(els, out, ind + 1)
            if fin is not None:
                out.append(f"{pad}finally:")
                out.append(f"{pad}    env.rec('fin')")
                self.stmt(fin, out, ind + 1)
        elif k == "Raise":
            out.append(f"{pad}raise env.new_exc({p[1]!r})")
        elif k == "Reraise":
            out.append(f"{pad}raise")
        elif k == "Ret":
            out.append(f"{pad}return {p[1]!r}")
        else:
            raise ValueError(p)


def source(p, prefix="a"):
    s = _Src(prefix)
    top = s.fn(p)
    return "\n\n".join(s.funcs) + f"\n\n_top = {top}\n"


_compiled = {}


def compile_program(p, prefix="a"):
    """AST -> generator function ``f(env)``; yield sites are tagged <prefix>0, <prefix>1, ... in pre-order."""
    f = _compiled.get((p, prefix))
    if f is None:
        ns = {}
        exec(compile(source(p, prefix), "<genproto>", "exec"), ns)  # noqa: S102 - generated from a closed grammar
        f = ns["_top"]
        if len(_compiled) > 200000:
            _compiled.clear()
        _compiled[(p, prefix)] = f
    return f


def pretty(p):
    return source(p)


# --------------------------------------------------------------------------------------
# driver
# --------------------------------------------------------------------------------------

SEND_NONE = ("send", None)
SEND_1 = ("send", 1)
THROW_E1 = ("throw", "E1")
THROW_STOP = ("throw", "RequestStop")
THROW_ABORT = ("throw", "RequestAbort")
THROW_HALT = ("throw", "PlanHalt")
CLOSE = ("close",)
ACTIONS = (SEND_NONE, SEND_1, THROW_E1, THROW_STOP, THROW_ABORT, THROW_HALT, CLOSE)
FIRST_ACTIONS = (SEND_NONE, CLOSE)


def _exc_class(name):
    if name == "E1":
        return E1
    import bluesky.utils as bu

    return getattr(bu, name)


def quiet():
    """Worker set-up.

    Generators left suspended after 'generator ignored GeneratorExit' are finalised when they are freed; their
    finally-arms then write to the program log.  When such a generator sits in a reference cycle (through the
    traceback of the RuntimeError) the moment of finalisation would depend on the cyclic collector, i.e. on allocation
    counts.  The collector is therefore switched off and run explicitly BETWEEN executions (run_script), so that
    within one execution only reference counting frees objects - which is deterministic.
    """
    sys.unraisablehook = lambda *a: None
    gc.disable()
    gc.collect()
    gc.freeze()  # everything imported so far is permanent: the explicit collections only look at what the executions allocate


_runs_since_gc = 0


class Obs:
    __slots__ = ("steps", "log", "alive", "last", "aux")

    def __init__(self, steps, log, alive, aux=None):
        self.steps = steps
        self.log = log
        self.alive = alive
        self.aux = aux or {}
        self.last = steps[-1] if steps else None

    def key(self):
        return (self.steps, self.log)

    def digest(self):
        return hashlib.sha256(repr((self.steps, self.log)).encode()).hexdigest()[:12]

    def kind(self):
        """Outcome class of the last step."""
        if not self.steps:
            return "unstarted"
        s = self.steps[-1]
        if s[0] in ("raise", "close-raised"):
            return f"{s[0]}:{s[1]}"
        return s[0]


def run_script(factory, script, env=None, respond=None):
    """Run one script on a fresh generator.

    factory(env) -> generator.  ``respond(env, msg, value)`` may replace the value of a send action
    (scripted responders).  Returns Obs.
    """
    global _runs_since_gc
    _runs_since_gc += 1
    if _runs_since_gc >= 5000 and not gc.isenabled():
        _runs_since_gc = 0
        gc.collect()
    env = env or Env()
    gen = factory(env)
    steps = []
    alive = True
    msg = None
    for i, act in enumerate(script):
        try:
            if act[0] == "send":
                v = act[1]
                if respond is not None and msg is not None:
                    v = respond(env, msg, v)
                msg = gen.send(v)
            elif act[0] == "throw":
                exc = _exc_class(act[1])(f"d{i}")
                env.register(exc, f"D{i}:{act[1]}")
                msg = gen.throw(exc)
            else:
                try:
                    r = gen.close()
                except BaseException as e:  # noqa: BLE001 - every outcome of close() is an observation
                    steps.append(("close-raised", type(e).__name__, env.label(e), str(e)))
                else:
                    steps.append(("closed", canon(r, env)))
                alive = False
                break
        except StopIteration as e:
            steps.append(("return", canon(e.value, env)))
            alive = False
            break
        except BaseException as e:  # noqa: BLE001
            steps.append(("raise", type(e).__name__, env.label(e), str(e)))
            alive = False
            break
        else:
            steps.append(("yield", canon(msg, env)))
    obs = Obs(tuple(steps), tuple(env.log), alive, {k: tuple(v) if isinstance(v, list) else v for k, v in env.aux.items()})
    if alive:
        # dispose deterministically; whatever the program does now is not part of the observation
        try:
            gen.close()
        except BaseException:  # noqa: BLE001
            pass
    return obs


def explore(factory, max_depth, actions=ACTIONS, first=FIRST_ACTIONS, respond=None, env_factory=Env, menu=None):
    """Adaptive script tree.  Yields (script, Obs) for every script reached (each prefix is a script of its own).

    ``menu(script, obs) -> actions`` may restrict the actions offered at a node (obs is the observation of the
    prefix; None at the root).
    """
    stack = [((), None)]
    while stack:
        script, obs = stack.pop()
        if len(script) >= max_depth:
            continue
        acts = menu(script, obs) if menu is not None else (first if not script else actions)
        for a in acts:
            s = script + (a,)
            o = run_script(factory, s, env_factory(), respond)
            yield s, o
            if o.alive:
                stack.append((s, o))


def differential(factory_a, factory_b, max_depth, actions=ACTIONS, first=FIRST_ACTIONS, respond=None, env_factory=Env, view=None):
    """Run both factories on every script of the adaptive tree built on A.

    A branch on which the two observations differ is reported once (at its shortest script) and not extended.
    Returns dict(n_scripts, n_steps, obs=[(script, obsA)], mismatches=[(script, obsA, obsB)]).
    ``view(obs) -> comparable`` defaults to (steps, log).
    """
    view = view or Obs.key
    res = {"n_scripts": 0, "n_steps": 0, "obs": [], "mismatches": []}
    stack = [()]
    while stack:
        script = stack.pop()
        if len(script) >= max_depth:
            continue
        for a in first if not script else actions:
            s = script + (a,)
            oa = run_script(factory_a, s, env_factory(), respond)
            ob = run_script(factory_b, s, env_factory(), respond)
            res["n_scripts"] += 1
            res["n_steps"] += 2 * len(s)
            res["obs"].append((s, oa))
            if view(oa) != view(ob):
                # every mismatch is re-executed before it is reported
                oa2 = run_script(factory_a, s, env_factory(), respond)
                ob2 = run_script(factory_b, s, env_factory(), respond)
                if view(oa2) != view(oa) or view(ob2) != view(ob):
                    res["unconfirmed"] = res.get("unconfirmed", 0) + 1
                    if view(oa2) == view(ob2):
                        if oa.alive:
                            stack.append(s)
                        continue
                    oa, ob = oa2, ob2
                res["mismatches"].append((s, oa, ob))
                continue
            if oa.alive:
                stack.append(s)
    return res


def script_str(script):
    return " ".join(a[0] + ("(" + repr(a[1]) + ")" if len(a) > 1 else "()") for a in script)


def h12(x):
    return hashlib.sha256(repr(x).encode()).hexdigest()[:12]


# --------------------------------------------------------------------------------------
# bookkeeping shared by the property modules
# --------------------------------------------------------------------------------------


class Tally:
    """Accumulates the run_item result dict; keeps at most ``per_sig`` violation payloads per signature per item."""

    def __init__(self, per_sig=3):
        self.evaluations = 0
        self.transitions = 0
        self.states = set()
        self.nontrivial = set()
        self.outcomes = {}
        self.violations = []
        self.samples = []
        self.extra = {"caps_hit": 0}
        self._per_sig = per_sig
        self._sig_n = {}

    def case(self, case_key, obs_key, nontrivial, outcome, steps=1, evaluations=1):
        d = h12((case_key, obs_key))
        self.states.add(d)
        if nontrivial:
            self.nontrivial.add(d)
        self.outcomes[outcome] = self.outcomes.get(outcome, 0) + 1
        self.evaluations += evaluations
        self.transitions += max(steps, evaluations)
        return d

    def violation(self, rule, detail, signature, **payload):
        n = self._sig_n.get(signature, 0)
        self._sig_n[signature] = n + 1
        self.extra["violating_cases"] = self.extra.get("violating_cases", 0) + 1
        if n < self._per_sig:
            self.violations.append(dict(rule=rule, detail=detail, signature=signature, **payload))

    def sample(self, s):
        if len(self.samples) < 2:
            self.samples.append(s)

    def result(self):
        return {
            "evaluations": self.evaluations,
            "transitions": self.transitions,
            "states": self.states,
            "nontrivial": self.nontrivial,
            "outcomes": self.outcomes,
            "violations": self.violations,
            "samples": self.samples,
            "extra": self.extra,
        }


def script_nontrivial(script):
    return any(a[0] != "send" for a in script)


def to_jsonable(p):
    """AST / script tuples -> lists (JSON) ...and back with from_jsonable."""
    if isinstance(p, tuple):
        return [to_jsonable(x) for x in p]
    return p


def from_jsonable(p):
    if isinstance(p, list):
        return tuple(from_jsonable(x) for x in p)
    return p
