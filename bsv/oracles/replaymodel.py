"""REPLAY-MODEL - a reference of the message cache, checked against the msg_hook trace with object identity.

cache := [] at 'checkpoint' and at every implicit checkpoint named by property C04 (stage, unstage, monitor,
unmonitor, subscribe, unsubscribe, a *toggle* of rewindable, close_run); cache := None at 'clear_checkpoint'
(and stays None: after that nothing is ever replayed because the engine aborts instead of pausing);
a message is appended iff cache is not None, the plan is rewindable and the command is replayable.
At each rewind (RE.resume() or the '_start_suspender' message) the messages executed next - apart from the
suspension helper's own messages - must be exactly the cached objects, in order.
"""

NON_REPLAYABLE = {
    "pause",
    "subscribe",
    "unsubscribe",
    "stage",
    "unstage",
    "monitor",
    "unmonitor",
    "open_run",
    "close_run",
    "install_suspender",
    "remove_suspender",
    "_start_suspender",
}
IMPLICIT = {"stage", "unstage", "monitor", "unmonitor", "subscribe", "unsubscribe", "close_run"}
HELPER_CMDS = {"_start_suspender", "wait_for", "_resume_from_suspender"}


def _is_helper(msg, in_helper):
    if msg.command in HELPER_CMDS:
        return True
    if in_helper and msg.command == "rewindable":
        return True
    if msg.command == "null" and msg.args and msg.args[0] in ("PRE", "POST"):
        return True
    return False


def check_replay(obs, rewindable0=True):
    """Returns ([(rule, detail)], stats) for the main call sequence of obs (everything before the probe)."""
    out = []
    cache = []
    rew = rewindable0
    pending = []  # objects still to be replayed, in order
    in_helper = 0  # inside a suspension helper plan (between _start_suspender and its closing 'rewindable')
    helper_stage = []
    nrewinds = 0
    nreplayed = 0
    last_reset = "start"
    tl = obs.timeline
    for i, t in enumerate(tl):
        if t[0] == "call":
            if t[1] in ("RE", "probe"):
                cache, pending, in_helper, last_reset = [], [], 0, "start"
                if t[1] == "probe":
                    break
            elif t[1] == "resume":
                nrewinds += 1
                if cache is None:
                    out.append(("resume-without-cache", "resume() was accepted although the plan was not resumable"))
                    cache = []
                pending = list(cache) + pending
                cache = []
            elif t[1] in ("abort", "stop", "halt"):
                pending = []  # the plan is torn down; nothing more is owed
            continue
        if t[0] == "inject" and t[1].split(":")[0] in ("abort", "stop", "halt"):
            pending_owed = False  # noqa: F841 - a terminator voids the obligation to finish a replay
            pending = []
            continue
        if t[0] != "msg":
            continue
        m = obs.msgs[t[1]]
        cmd = m.command
        helper = _is_helper(m, in_helper)
        if cmd == "_start_suspender":
            nrewinds += 1
            if cache is not None:
                pending = list(cache) + pending
                cache = []
            in_helper += 1
            helper_stage.append(0)
        # replay bookkeeping
        if pending and not helper:
            if m is pending[0]:
                pending.pop(0)
                nreplayed += 1
            elif any(m is p for p in pending):
                k = next(j for j, p in enumerate(pending) if m is p)
                out.append(("replay-skipped-messages", f"{k} cached message(s) skipped before {cmd}"))
                del pending[: k + 1]
            else:
                out.append(("plan-continued-before-replay-finished", f"{cmd} executed while {len(pending)} cached message(s) were still to be replayed ({[p.command for p in pending[:4]]})"))
                pending = []
        elif not pending and not helper and nrewinds and _seen_before(obs, t[1]):
            out.append((f"replayed-across-implicit-checkpoint:{last_reset}", f"{cmd} (message #{_first_index(obs, t[1])}) executed again although it precedes the last checkpoint ({last_reset})"))
        # cache bookkeeping (what the engine is documented to do)
        if cache is not None and rew and cmd not in NON_REPLAYABLE:
            cache.append(m)
        if cmd == "checkpoint":
            if cache is not None:
                cache = []
                last_reset = "checkpoint"
        elif cmd == "clear_checkpoint":
            cache = None
        elif cmd == "rewindable":
            v = m.args[0] if m.args else None
            if v is not None and bool(v) != rew:
                rew = bool(v)
                if cache is not None:
                    cache = []
                    last_reset = "rewindable"
            if in_helper:
                helper_stage[-1] += 1
                if helper_stage[-1] == 2:  # the helper's closing 'rewindable': the replay starts now
                    in_helper -= 1
                    helper_stage.pop()
        elif cmd in IMPLICIT:
            acts = True
            if cmd in ("stage", "unstage") and not hasattr(m.obj, cmd):
                acts = False  # nothing is staged: the engine treats the message as a no-op
            if acts and cache is not None:
                cache = []
                last_reset = cmd
    return out, {"rewinds": nrewinds, "replayed": nreplayed}


def _seen_before(obs, idx):
    m = obs.msgs[idx]
    return any(obs.msgs[j] is m for j in range(idx))


def _first_index(obs, idx):
    m = obs.msgs[idx]
    return next(j for j in range(idx + 1) if obs.msgs[j] is m)


def plan_originated_trace(obs, upto=None):
    """The messages of the plan itself: replays (object seen before) and suspension helper messages removed."""
    seen = set()
    out = []
    in_helper = 0
    stage = []
    for k, m in enumerate(obs.msgs[:upto]):
        if m.command == "_start_suspender":
            in_helper += 1
            stage.append(0)
            continue
        if _is_helper(m, in_helper):
            if in_helper and m.command == "rewindable":
                stage[-1] += 1
                if stage[-1] == 2:
                    in_helper -= 1
                    stage.pop()
            continue
        if id(m) in seen:
            continue
        seen.add(id(m))
        out.append(m)
    return out
