"""DOCSTREAM - run-wise well-formedness of an ordered (name, doc) list (DESIGN.md 3)."""

from event_model import DocumentNames, schema_validators

_VALID = {n.name: schema_validators[n] for n in DocumentNames if n in schema_validators}


def validate(name, doc):
    v = _VALID.get(name)
    if v is None:
        return f"unknown document name {name!r}"
    try:
        v.validate(doc)
    except Exception as e:  # noqa: BLE001 - jsonschema.ValidationError and friends
        return f"{name} fails schema: {str(e).splitlines()[0][:160]}"
    return None


def check_docstream(docs, idle_points, final_idle=True, schema=True):
    """docs: [(name, doc)].  idle_points: indices n such that the engine was idle after docs[:n].

    Returns [(rule, detail)].
    """
    out = []
    starts = {}  # uid -> index
    stops = {}  # run uid -> index of stop
    descs = {}  # desc uid -> run uid
    resources = {}  # resource uid -> run uid
    sresources = {}
    seen_uids = set()

    def uid_once(u, what, i):
        if u is None:
            return
        if u in seen_uids:
            out.append(("uid-twice", f"{what} uid {u} emitted twice (doc #{i})"))
        seen_uids.add(u)

    for i, (name, doc) in enumerate(docs):
        if schema:
            err = validate(name, doc)
            if err:
                out.append(("schema", f"doc #{i}: {err}"))
        if name == "start":
            uid_once(doc.get("uid"), "start", i)
            starts[doc["uid"]] = i
            continue
        if name == "stop":
            uid_once(doc.get("uid"), "stop", i)
            rs = doc.get("run_start")
            if rs not in starts:
                out.append(("stop-without-start", f"stop #{i} names unknown run {rs}"))
            elif rs in stops:
                out.append(("second-stop", f"run {rs} got a second stop at #{i}"))
            else:
                stops[rs] = i
            continue
        # every other document must belong to an open, known run
        run = None
        if name == "descriptor":
            uid_once(doc.get("uid"), "descriptor", i)
            run = doc.get("run_start")
            if run not in starts:
                out.append(("orphan", f"descriptor #{i} names unknown run {run}"))
            descs[doc["uid"]] = run
        elif name in ("event", "event_page", "stream_datum"):
            if name == "event":
                uid_once(doc.get("uid"), "event", i)
            elif name == "event_page":
                for u in doc.get("uid", []):
                    uid_once(u, "event(page)", i)
            else:
                uid_once(doc.get("uid"), "stream_datum", i)
            d = doc.get("descriptor")
            if d not in descs:
                out.append(("orphan", f"{name} #{i} names unknown descriptor {d}"))
            else:
                run = descs[d]
            if name == "stream_datum":
                sr = doc.get("stream_resource")
                if sr not in sresources:
                    out.append(("orphan", f"stream_datum #{i} names unknown stream_resource {sr}"))
                elif run is not None and sresources[sr] != run:
                    out.append(("cross-run", f"stream_datum #{i}: resource of run {sresources[sr]}, descriptor of {run}"))
        elif name == "resource":
            uid_once(doc.get("uid"), "resource", i)
            run = doc.get("run_start")
            if run not in starts:
                out.append(("orphan", f"resource #{i} names unknown run {run}"))
            resources[doc["uid"]] = run
        elif name == "stream_resource":
            uid_once(doc.get("uid"), "stream_resource", i)
            run = doc.get("run_start")
            if run not in starts:
                out.append(("orphan", f"stream_resource #{i} names unknown run {run}"))
            sresources[doc["uid"]] = run
        elif name in ("datum", "datum_page"):
            r = doc.get("resource")
            if r not in resources:
                out.append(("orphan", f"{name} #{i} names unknown resource {r}"))
            else:
                run = resources[r]
        if run is not None and run in stops:
            out.append(("after-stop", f"{name} #{i} of run {run} emitted after its stop (#{stops[run]})"))

    for n in idle_points:
        for uid, si in starts.items():
            if si < n and not (uid in stops and stops[uid] < n):
                out.append(("open-at-idle", f"run {uid} (start #{si}) has no stop although the engine is idle after {n} docs"))
    return out


def runs_of(docs):
    """Split a document list by run: {start uid: {'start':doc, 'stop':doc|None, 'descriptors':{uid:doc}, 'events':[doc]}}"""
    runs = {}
    descs = {}
    order = []
    for name, doc in docs:
        if name == "start":
            runs[doc["uid"]] = {"start": doc, "stop": None, "descriptors": {}, "events": [], "stream_datums": [], "pages": []}
            order.append(doc["uid"])
        elif name == "stop":
            r = runs.get(doc.get("run_start"))
            if r is not None and r["stop"] is None:
                r["stop"] = doc
        elif name == "descriptor":
            r = runs.get(doc.get("run_start"))
            if r is not None:
                r["descriptors"][doc["uid"]] = doc
                descs[doc["uid"]] = doc["run_start"]
        elif name == "event":
            run = descs.get(doc.get("descriptor"))
            if run in runs:
                runs[run]["events"].append(doc)
        elif name == "event_page":
            run = descs.get(doc.get("descriptor"))
            if run in runs:
                runs[run]["pages"].append(doc)
                for k, s in enumerate(doc["seq_num"]):
                    runs[run]["events"].append(
                        {
                            "descriptor": doc["descriptor"],
                            "seq_num": s,
                            "uid": doc["uid"][k],
                            "data": {key: v[k] for key, v in doc["data"].items()},
                            "_paged": True,
                        }
                    )
        elif name == "stream_datum":
            run = descs.get(doc.get("descriptor"))
            if run in runs:
                runs[run]["stream_datums"].append(doc)
    return [runs[u] for u in order]
