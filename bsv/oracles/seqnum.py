"""SEQNUM - per run and stream the emitted seq_nums are exactly 1..N, N = stop.num_events[stream].

Rule names carry the kind of stream (bundle = create/read/save, collect, monitor, interruptions) and whether a
rewind (resume or suspension) happened while the run was open, so that known findings can be told apart from
new violations of the same property.
"""

_SKIP = ("doc", "dev", "status", "fault", "inject", "suspend_req", "release", "ret", "plan_end", "cbfail")


def _doc_emission_context(obs):
    """For every doc index: (timeline index, cause, rewinds so far, terminated so far).

    cause = 'save' | 'collect' | other message command | 'put' | 'state' | 'call' | ... : the nearest preceding
    timeline entry that is not itself a document / device op.
    """
    ctx = {}
    cause = None
    rewinds = 0
    for i, t in enumerate(obs.timeline):
        k = t[0]
        if k == "msg":
            cause = t[2]
            if t[2] == "_start_suspender":
                rewinds += 1
        elif k == "call":
            cause = "call:" + t[1]
            if t[1] == "resume":
                rewinds += 1
        elif k == "doc":
            ctx[t[1]] = (i, cause, rewinds)
        elif k in _SKIP:
            pass
        else:
            cause = k
    return ctx


def _kind(stream, causes, paged):
    if stream == "interruptions":
        return "interruptions"
    if paged or "collect" in causes:
        return "collect"
    if "put" in causes:
        return "monitor"
    if causes and all(c == "save" for c in causes):
        return "bundle"
    return "other"


def check_seqnum(obs, upto_docs=None):
    """Returns [(rule, detail)] for the documents obs.docs[:upto_docs]."""
    out = []
    docs = obs.docs[:upto_docs]
    ctx = _doc_emission_context(obs)
    runs = {}
    descs = {}
    order = []
    for di, (name, doc) in enumerate(docs):
        if name == "start":
            runs[doc["uid"]] = {"streams": {}, "stop": None, "sd": {}, "di": di, "stop_di": None}
            order.append(doc["uid"])
        elif name == "descriptor":
            descs[doc["uid"]] = (doc.get("run_start"), doc.get("name"))
            r = runs.get(doc.get("run_start"))
            if r is not None:
                r["streams"].setdefault(doc.get("name"), [])
        elif name == "event":
            run, stream = descs.get(doc.get("descriptor"), (None, None))
            if run in runs:
                runs[run]["streams"].setdefault(stream, []).append((doc["seq_num"], di, False))
        elif name == "event_page":
            run, stream = descs.get(doc.get("descriptor"), (None, None))
            if run in runs:
                for s in doc["seq_num"]:
                    runs[run]["streams"].setdefault(stream, []).append((s, di, True))
        elif name == "stream_datum":
            run, stream = descs.get(doc.get("descriptor"), (None, None))
            if run in runs:
                runs[run]["sd"].setdefault((stream, doc.get("stream_resource")), []).append((doc["seq_nums"], doc["indices"], di))
        elif name == "stop":
            r = runs.get(doc.get("run_start"))
            if r is not None and r["stop"] is None:
                r["stop"] = doc
                r["stop_di"] = di
    for ri, uid in enumerate(order):
        r = runs[uid]
        num_events = (r["stop"] or {}).get("num_events", None)
        rw_start = ctx.get(r["di"], (0, None, 0))[2]
        rw_end = ctx.get(r["stop_di"], (0, None, 10**9))[2] if r["stop_di"] is not None else None
        for stream, evs in r["streams"].items():
            seqs = [s for s, _di, _p in evs]
            causes = [ctx.get(di, (0, None, 0))[1] for _s, di, _p in evs]
            kind = _kind(stream, causes, any(p for _s, _di, p in evs))
            sd_here = [lst for (st, _res), lst in r["sd"].items() if st == stream]
            if sd_here:
                kind = "collect"
            rewound = "rewound" if (rw_end is not None and rw_end > rw_start) or (rw_end is None and ctx and max(c[2] for c in ctx.values()) > rw_start) else "norewind"
            present = set(seqs)
            for lst in sd_here:
                for sn, _ix, _d in lst:
                    present.update(range(sn["start"], sn["stop"]))
            if num_events is not None:
                N = num_events.get(stream, 0)
                full = set(range(1, N + 1))
                if present != full:
                    missing = sorted(full - present)[:5]
                    extra = sorted(present - full)[:5]
                    what = "beyond" if extra and not missing else ("missing" if missing and not extra else "both")
                    i_start = ctx.get(r["di"], (0, None, 0))[0]
                    i_stop = ctx.get(r["stop_di"], (len(obs.timeline), None, 0))[0]
                    ended_early = ctx.get(r["stop_di"], (0, None, 0))[1] != "close_run" or any(
                        (t[0] == "state" and t[1] in ("aborting", "stopping", "halting")) or (t[0] == "plan_end" and t[1] == "raised")
                        for t in obs.timeline[i_start:i_stop]
                    )
                    if ended_early:
                        what += ":terminated"  # the run was cut short (abort/stop/halt/failure) before its stop document
                    out.append(
                        (
                            f"seqnums-not-1..N:{kind}:{rewound}:{what}",
                            f"run#{ri} stream {stream!r}: num_events={N}, emitted={sorted(present)[:12]}, missing={missing}, beyond={extra}",
                        )
                    )
            else:
                top = max(present) if present else 0
                if present != set(range(1, top + 1)):
                    out.append((f"seqnums-gap:{kind}:{rewound}", f"run#{ri} stream {stream!r} (run still open): emitted {sorted(present)[:12]}"))
            # duplicates
            seen = {}
            for s, di, _paged in evs:
                if s in seen:
                    di0 = seen[s]
                    _i0, c0, rw0 = ctx.get(di0, (0, None, 0))
                    _i1, c1, rw1 = ctx.get(di, (0, None, 0))
                    replayable = c0 in ("save", "collect") and c1 in ("save", "collect")
                    if kind == "collect" and c0 in ("collect", "state") and c1 in ("collect", "state"):
                        # the engine's own back-stop collect (clean-up after the plan ended) of a flyer that was kicked
                        # off again by the replay: the same data points re-taken, like a replayed 'collect' message
                        replayable = True
                    if not replayable:
                        out.append((f"seqnum-reused:{kind}:{rewound}", f"run#{ri} stream {stream!r}: seq_num {s} emitted twice by sources that are never replayed ({c0!r}, {c1!r})"))
                    elif rw1 <= rw0:
                        out.append((f"seqnum-reused-without-rewind:{kind}", f"run#{ri} stream {stream!r}: seq_num {s} emitted twice with no rewind in between"))
                seen[s] = di
        # stream datum ranges tile the numbering of their stream, per stream_resource
        for (stream, res), lst in r["sd"].items():
            cur = None
            for sn, ix, _di in lst:
                if sn["stop"] - sn["start"] != ix["stop"] - ix["start"]:
                    out.append(("stream-datum-width", f"run#{ri} stream {stream!r}: seq_nums {sn} vs indices {ix}"))
                if cur is not None and sn["start"] != cur:
                    out.append(("stream-datum-not-contiguous", f"run#{ri} stream {stream!r} resource {str(res)[:8]}: seq_nums start {sn['start']} after previous stop {cur}"))
                cur = sn["stop"]
        if num_events is not None:
            for stream, n in num_events.items():
                if stream not in r["streams"] and n != 0 and not any(st == stream for st, _ in r["sd"]):
                    out.append(("num-events-for-unknown-stream", f"run#{ri}: num_events[{stream!r}]={n} but no events"))
    return out
