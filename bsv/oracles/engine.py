"""Oracle helpers over one Observation of the real RunEngine (timeline walking)."""

TERMINATORS = ("abort", "stop", "halt")
DRIVER_CALLS = ("RE", "resume", "abort", "stop", "halt", "probe")


def transitions_table():
    from bluesky.run_engine import RunEngineStateMachine

    return {k: set(v) for k, v in RunEngineStateMachine.Meta.transitions.items()}


def call_spans(obs):
    """[(call record, timeline index of its ('call',..) entry, index of its ('ret',..) entry or None)]"""
    spans = []
    tl = obs.timeline
    starts = [i for i, t in enumerate(tl) if t[0] == "call"]
    rets = [i for i, t in enumerate(tl) if t[0] == "ret"]
    for k, c in enumerate(obs.calls):
        s = starts[k] if k < len(starts) else None
        r = None
        if s is not None:
            for ri in rets:
                if ri > s:
                    r = ri
                    break
        spans.append((c, s, r))
    return spans


def resumability_at(obs, idx):
    """'yes' | 'no' | 'ambiguous' at timeline index idx, from the messages executed in the current RE(...) call.

    'no'  : a clear_checkpoint was executed and no checkpoint since (the section C10 speaks about).
    'yes' : no clear_checkpoint executed in this call.
    'ambiguous': a checkpoint followed a clear_checkpoint - the statements do not say whether that re-arms.
    """
    tl = obs.timeline
    start = 0
    for i in range(idx, -1, -1):
        t = tl[i]
        if t[0] == "call" and t[1] in ("RE", "probe"):
            start = i
            break
    cleared = False
    cp_after = False
    for t in tl[start:idx]:
        if t[0] == "msg":
            if t[2] == "clear_checkpoint":
                cleared, cp_after = True, False
            elif t[2] == "checkpoint" and cleared:
                cp_after = True
    if not cleared:
        return "yes"
    return "ambiguous" if cp_after else "no"


def interruptions(obs):
    """Interruptions that took effect: [(kind, timeline index, resumability)], kind in pause|suspend|failed."""
    out = []
    pending_suspends = 0
    pending_aborts = 0
    req_idx = []
    for i, t in enumerate(obs.timeline):
        if t[0] == "suspend_req":
            pending_suspends += 1
            req_idx.append(i)
        elif t[0] == "inject" and t[1].split(":")[0] == "abort":
            pending_aborts += 1
        elif t[0] == "call" and t[1] == "abort":
            pending_aborts += 1
        elif t[0] == "state":
            if t[1] == "pausing":
                out.append(("pause", i, resumability_at(obs, i)))
            elif t[1] == "suspending":
                pending_suspends = max(0, pending_suspends - 1)
                out.append(("suspend", i, resumability_at(obs, i)))
            elif t[1] == "aborting":
                if pending_aborts:
                    pending_aborts -= 1
                elif t[2] != "pausing" and pending_suspends:
                    # request_suspend outside a resumable section goes straight to 'aborting'
                    pending_suspends -= 1
                    out.append(("suspend", i, resumability_at(obs, i)))
    # suspension requests that never changed the state (they landed when the plan was over): they still
    # count as "the interruption was a suspension requested in a (non-)resumable place" for C08's reading
    for i in req_idx[len(req_idx) - pending_suspends :] if pending_suspends else ():
        out.append(("suspend-late", i, resumability_at(obs, i)))
    return out


BETWEEN_MESSAGES = (None, "", "sleep", "wait", "running")  # what _run awaits when it is not inside a command's coroutine


def inflight_commands(obs):
    """Commands that were EXECUTING (the engine awaiting inside the command's own coroutine) when a pause or suspension
    took effect: the known in-flight defect - such a command is neither completed nor (if uncacheable) replayed and the
    plan's yield receives None after the rewind."""
    out, cur = [], None
    for t in obs.timeline:
        if t[0] == "msg":
            cur = t[2]
        elif t[0] == "state" and t[1] in ("pausing", "suspending") and cur not in (None, "pause", "_start_suspender"):
            if len(t) > 4 and t[3] == "loop" and t[4] not in BETWEEN_MESSAGES:
                out.append(cur)
    return out


def terminators_before(obs, idx):
    """Names of abort/stop/halt requests (injected or decided by the caller) issued before timeline index idx."""
    out = []
    for t in obs.timeline[:idx]:
        if t[0] == "inject" and t[1].split(":")[0] in TERMINATORS:
            out.append(t[1].split(":")[0])
        if t[0] == "call" and t[1] in TERMINATORS:
            out.append(t[1])
    return out


def schedule_has(schedule, kinds):
    for _p, ev in schedule.get("injections", ()):
        if ev[0] in kinds:
            return True
    for d in schedule.get("decisions", ()):
        if d in kinds:
            return True
    return False


def plan_trace(obs, upto=None):
    """Commands (and plain args) of the messages seen by msg_hook, as comparable tuples."""
    out = []
    for m in obs.msgs[:upto]:
        out.append((m.command, getattr(m.obj, "name", None) if m.obj is not None else None, _plain(m.args), m.run))
    return out


def _plain(x):
    if isinstance(x, (int, float, str, bool, type(None))):
        return x
    if isinstance(x, (tuple, list)):
        return tuple(_plain(i) for i in x)
    if isinstance(x, dict):
        return tuple(sorted((k, _plain(v)) for k, v in x.items()))
    return type(x).__name__
