"""Determinism self-check (DESIGN.md 5.4): fixed schedules, twice in fresh workers and once here."""

import multiprocessing as mp
import os
import sys

from bsv import env

SCHEDULES = [
    ("count2", {}, {}),
    ("scan2", {}, {"injections": [((20, 0), ("pause",))]}),
    ("scan2", {"a": 1}, {"injections": [((31, 0), ("suspend", "both"))]}),
    ("cleanup", {"a": 1}, {"injections": [((40, 0), ("abort",))]}),
    ("nested", {}, {"injections": [((25, 0), ("pause",))], "decisions": ["stop"]}),
    ("monitor1", {}, {"injections": [((18, 0), ("put", "sig", 5)), ((30, 0), ("pause",))]}),
    ("bare", {}, {"faults": {3: "fail"}}),
    ("fly1", {}, {"injections": [((22, 0), ("halt",))]}),
]


def _digests(_=None):
    env.setup()
    env.silence_stdout()
    from bsv.explore.bounded import execute

    out = []
    for key, params, sched in SCHEDULES:
        _scn, obs = execute(key, params, sched)
        out.append((obs.digest, obs.outcome))
    env.restore_stdout()
    return out


def main():
    if os.environ.get("PYTHONHASHSEED") != "0":
        e = dict(os.environ, PYTHONHASHSEED="0")
        os.execve(sys.executable, [sys.executable, "-m", "bsv.selfcheck"], e)
    env.setup()
    here = _digests()
    ctx = mp.get_context("spawn")
    with ctx.Pool(2) as pool:
        a, b = pool.map(_digests, [0, 1])
    bad = [i for i in range(len(SCHEDULES)) if not (here[i] == a[i] == b[i])]
    if bad or any(o[1] != "ok" for o in here):
        print("SELFCHECK FAILED", bad, here, a, b)
        return 3
    print(f"selfcheck ok: {len(SCHEDULES)} schedules x 3 processes, digests agree")
    return 0


if __name__ == "__main__":
    sys.exit(main())
