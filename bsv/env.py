"""Process-level pinning: source tree, hash seed, clocks, uids, stdout.

``setup()`` must be called before bluesky is imported.  It is idempotent.
"""

import os
import sys

REPO_SRC = os.environ.get("BSV_SRC", "/repo/src")
VERIF = os.path.dirname(os.path.dirname(os.path.abspath(__file__)))

_done = False


def ensure_hashseed():
    """Re-exec the interpreter with PYTHONHASHSEED=0 so set iteration is reproducible."""
    if os.environ.get("PYTHONHASHSEED") != "0":
        env = dict(os.environ)
        env["PYTHONHASHSEED"] = "0"
        env.setdefault("BLUESKY_VERIF", "1")
        os.execve(sys.executable, [sys.executable, "-m", "bsv.check", *sys.argv[1:]], env)


def setup():
    global _done
    if _done:
        return
    _done = True
    os.environ.setdefault("BLUESKY_VERIF", "1")
    # the working tree under /repo is what is checked (the venv's editable install
    # points there too; forcing the path makes that independent of the install)
    if REPO_SRC not in sys.path:
        sys.path.insert(0, REPO_SRC)
    if VERIF not in sys.path:
        sys.path.insert(0, VERIF)
    import warnings

    warnings.simplefilter("ignore")
    import logging

    logging.disable(logging.CRITICAL)


class _Null:
    def write(self, s):
        return len(s)

    def flush(self):
        pass

    def isatty(self):
        return False


def silence_stdout():
    """Workers: the RunEngine prints on every pause/abort; drop it."""
    sys.stdout = _Null()
    if os.environ.get("BSV_KEEP_STDERR") != "1":
        # abandoned executions (deadlock outcomes, X2 unwinds) make the interpreter print
        # "Exception ignored in <coroutine _run>" when their frames are finalised
        sys.stderr = _Null()


def restore_stdout():
    sys.stdout = sys.__stdout__
    sys.stderr = sys.__stderr__
