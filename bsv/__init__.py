"""bsv - bounded exhaustive exploration (model checking) of bluesky against /verif/properties.jsonl.

See /verif/DESIGN.md.  Nothing in here imports bluesky at module import time except
through :mod:`bsv.env`, which pins the source tree first.
"""
