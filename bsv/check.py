"""CLI:  python -m bsv.check Cxx --tier quick|thorough [--replay path] [--jobs N]

Exit 0: the property held on everything explored (KNOWN-FINDING lines allowed).
Exit 1: at least one violation not listed as known, each on a line
        ``VIOLATION property=Cxx replay=<path>``.
Exit 3: harness error (nondeterminism, divergence, worker crash) - never a violation.
"""

import argparse
import fnmatch
import hashlib
import importlib
import json
import multiprocessing as mp
import os
import random
import sys
import time

from bsv import env

VERIF = env.VERIF
EVIDENCE_DIR = os.environ.get("BSV_EVIDENCE_DIR") or os.path.join(VERIF, "evidence")  # override: scratch runs against BSV_SRC
REPLAY_DIR = os.path.join(VERIF, "replays")
KNOWN = os.path.join(VERIF, "known_findings.json")

_MOD = None


def _load(prop):
    return importlib.import_module(f"bsv.props.{prop}")


def _worker_init(prop):
    global _MOD
    env.setup()
    env.silence_stdout()
    _MOD = _load(prop)
    if hasattr(_MOD, "worker_init"):
        _MOD.worker_init()


def _worker_run(item):
    try:
        return _MOD.run_item(item)
    except BaseException as e:  # noqa: BLE001 - a worker crash is a harness error, reported as such
        import traceback

        return {"crash": f"{type(e).__name__}: {e}\n{traceback.format_exc()}", "item": repr(item)[:400]}


def _child_main(prop, conn):
    _worker_init(prop)
    while True:
        try:
            item = conn.recv()
        except EOFError:
            break
        if item is None:
            break
        conn.send(_worker_run(item))
    conn.close()
    os._exit(0)


def _robust_map(prop, items, jobs, maxtasks):
    """Unordered map over forked workers that survives a worker dying (segfault, os._exit, kill): the item it was
    running is reported as a crash instead of blocking the whole check (multiprocessing.Pool waits forever)."""
    from multiprocessing.connection import wait

    ctx = mp.get_context("fork")
    pending = list(reversed(items))
    workers = {}  # conn -> [process, current item or None, tasks done]

    def spawn():
        a, b = ctx.Pipe()
        p = ctx.Process(target=_child_main, args=(prop, b), daemon=True)
        p.start()
        b.close()
        workers[a] = [p, None, 0]
        return a

    def feed(c):
        w = workers[c]
        if not pending:
            try:
                c.send(None)
            except OSError:
                pass
            return
        if w[2] >= maxtasks:
            try:
                c.send(None)
            except OSError:
                pass
            c.close()
            w[0].join(5)
            del workers[c]
            c = spawn()
            w = workers[c]
        w[1] = pending.pop()
        c.send(w[1])

    for _ in range(jobs):
        feed(spawn())
    while any(w[1] is not None for w in workers.values()):
        for c in wait([c for c, w in workers.items() if w[1] is not None]):
            w = workers[c]
            try:
                r = c.recv()
            except (EOFError, OSError):
                w[0].join(5)
                yield {"crash": f"worker process died (exit code {w[0].exitcode}) while running this item", "item": repr(w[1])[:400]}
                c.close()
                del workers[c]
                feed(spawn())
                continue
            w[1] = None
            w[2] += 1
            yield r
            feed(c)
    for c, w in list(workers.items()):
        try:
            c.send(None)
        except OSError:
            pass
        w[0].join(5)
        if w[0].is_alive():
            w[0].kill()


def load_known(prop):
    out = []
    if os.path.exists(KNOWN):
        with open(KNOWN) as f:
            data = json.load(f)
        out.extend(e for e in data.get("findings", []) if e.get("property") == prop)
    # staging area used while a check is being built; merged into known_findings.json by hand
    extra = os.path.join(VERIF, "known_findings.d", f"{prop}.json")
    if os.path.exists(extra):
        with open(extra) as f:
            out.extend(e for e in json.load(f) if e.get("property") == prop)
    return out


def match_known(known, sig):
    for e in known:
        if e.get("status") != "known":
            continue
        if fnmatch.fnmatchcase(sig, e["signature"]):
            return e
    return None


def merge(agg, r):
    agg["evaluations"] += r.get("evaluations", 0)
    agg["transitions"] += r.get("transitions", 0)
    agg["states"].update(r.get("states", ()))
    agg["nontrivial"].update(r.get("nontrivial", ()))
    for k, v in r.get("outcomes", {}).items():
        agg["outcomes"][k] = agg["outcomes"].get(k, 0) + v
    agg["violations"].extend(r.get("violations", ()))
    agg["harness_errors"].extend(r.get("harness_errors", ()))
    for s in r.get("samples", ()):
        if len(agg["samples"]) < 6:
            agg["samples"].append(s)
    for k, v in r.get("extra", {}).items():
        if isinstance(v, (int, float)):
            agg["extra"][k] = agg["extra"].get(k, 0) + v
        elif isinstance(v, (list, set, tuple)):
            agg["extra"].setdefault(k, set()).update(v)
        else:
            agg["extra"][k] = v


def write_replay(prop, v):
    os.makedirs(REPLAY_DIR, exist_ok=True)
    body = json.dumps(v, sort_keys=True, default=repr)
    h = hashlib.sha256(body.encode()).hexdigest()[:12]
    path = os.path.join(REPLAY_DIR, f"{prop}-{h}.json")
    with open(path, "w") as f:
        json.dump(dict(v, property=prop), f, indent=1, sort_keys=True, default=repr)
    return path


def main(argv=None):
    ap = argparse.ArgumentParser()
    ap.add_argument("prop")
    ap.add_argument("--tier", default=os.environ.get("VERIF_TIER", "quick"), choices=["quick", "thorough"])
    ap.add_argument("--replay")
    ap.add_argument("--jobs", type=int, default=int(os.environ.get("BSV_JOBS", "0")) or min(16, os.cpu_count() or 4))
    ap.add_argument("--max-replays", type=int, default=5)
    args = ap.parse_args(argv)
    env.ensure_hashseed()
    env.setup()
    seed = int(os.environ.get("VERIF_SEED", "0") or 0)
    prop = args.prop
    mod = _load(prop)
    t0 = time.time()

    if args.replay:
        with open(args.replay) as f:
            payload = json.load(f)
        env.silence_stdout()
        if hasattr(mod, "worker_init"):
            mod.worker_init()
        vs = mod.replay(payload)
        env.restore_stdout()
        if vs:
            for v in vs:
                print(f"REPRODUCED rule={v.get('rule')} detail={v.get('detail')}")
            print(f"VIOLATION property={prop} replay={args.replay}")
            return 1
        print("replay: no violation reproduced")
        return 0

    env.silence_stdout()
    try:
        items = mod.items(args.tier, seed)
    finally:
        env.restore_stdout()
    random.Random(seed).shuffle(items)  # VERIF_SEED only permutes the order of work
    agg = {
        "evaluations": 0,
        "transitions": 0,
        "states": set(),
        "nontrivial": set(),
        "outcomes": {},
        "violations": [],
        "harness_errors": [],
        "samples": [],
        "extra": {},
    }
    crashes = []
    jobs = max(1, min(args.jobs, len(items)))
    if jobs == 1:
        _worker_init(prop)
        results = map(_worker_run, items)
        for r in results:
            if "crash" in r:
                crashes.append(r)
            else:
                merge(agg, r)
        env.restore_stdout()
    else:
        for r in _robust_map(prop, items, jobs, getattr(mod, "MAXTASKS", 200)):
            if "crash" in r:
                crashes.append(r)
            else:
                merge(agg, r)
    wall = time.time() - t0

    if os.environ.get("BSV_DUMP"):
        with open(os.environ["BSV_DUMP"], "w") as f:
            json.dump(agg["violations"], f, default=repr)
    known = load_known(prop)
    new, knowns = [], {}
    for v in agg["violations"]:
        e = match_known(known, v.get("signature", ""))
        if e is not None:
            knowns.setdefault(e["signature"], [e, 0])[1] += 1
        else:
            new.append(v)
    # distinct new signatures, a replay file for the first of each
    by_sig = {}
    for v in new:
        by_sig.setdefault(v.get("signature", v.get("rule", "?")), []).append(v)

    tierinfo = mod.describe(args.tier) if hasattr(mod, "describe") else {}
    coverage = {
        "states": len(agg["states"]),
        "transitions": agg["transitions"],
        "traces_validated_against_impl": agg["evaluations"],
        "evaluations": agg["evaluations"],
        "distinct_nontrivial": len(agg["nontrivial"]),
        "rule": getattr(mod, "RULE", ""),
        "samples": agg["samples"] or [{"note": "no sample recorded"}],
        "exhaustive": not agg["extra"].get("caps_hit"),
        "outcome_classes": len(agg["outcomes"]),
        "outcome_histogram_top": sorted(agg["outcomes"].items(), key=lambda kv: -kv[1])[:12],
        "work_items": len(items),
        "known_findings_matched": {k: n for k, (e, n) in knowns.items()},
        "new_violation_signatures": sorted(by_sig)[:50],
    }
    coverage.update(tierinfo)
    for k, v in agg["extra"].items():
        coverage[k] = sorted(v) if isinstance(v, set) else v
    evidence = {
        "property_id": prop,
        "tier": args.tier,
        "seed": seed,
        "level": getattr(mod, "LEVEL", "model_checking"),
        "coverage": coverage,
        "assumptions": list(getattr(mod, "ASSUMPTIONS", [])),
        "wall_s": round(wall, 2),
        "violations": len(new),
    }
    os.makedirs(EVIDENCE_DIR, exist_ok=True)
    with open(os.path.join(EVIDENCE_DIR, f"{prop}.json"), "w") as f:
        json.dump(evidence, f, indent=1, default=repr)

    print(
        f"{prop} tier={args.tier} seed={seed} items={len(items)} executions={agg['evaluations']} "
        f"states={len(agg['states'])} transitions={agg['transitions']} nontrivial={len(agg['nontrivial'])} "
        f"outcome_classes={len(agg['outcomes'])} wall={wall:.1f}s"
    )
    for _sig, (e, n) in knowns.items():
        print(f"KNOWN-FINDING: property={prop} {e['description']} [{n} executions]")
    if crashes or agg["harness_errors"]:
        for c in crashes[:5]:
            print("HARNESS-ERROR worker crash:", c["crash"][:2000], c.get("item"))
        for hx in agg["harness_errors"][:5]:
            print("HARNESS-ERROR", json.dumps(hx, default=repr)[:600])
        return 3
    if by_sig:
        n = 0
        for sig, vs in sorted(by_sig.items()):
            if n >= args.max_replays:
                print(f"... {len(by_sig) - n} more distinct signatures")
                break
            path = write_replay(prop, vs[0])
            print(f"VIOLATION property={prop} replay={path}")
            print(f"  signature={sig} occurrences={len(vs)} detail={str(vs[0].get('detail'))[:300]}")
            n += 1
        return 1
    return 0


if __name__ == "__main__":
    sys.exit(main())
