"""Glue for properties decided by X1 (deviation-bounded exploration of the real RunEngine).

A property module defines SPECS = {'quick': [spec...], 'thorough': [...]} and
``oracle(scn, obs, ref, schedule) -> [(rule, detail)]`` and then does
``items, run_item, replay, describe = _x1.bind(SPECS, oracle)``.
"""

from bsv.explore import bounded

ALL_REQUESTS = [("pause",), ("dpause",), ("abort",), ("stop",), ("halt",), ("suspend", "none")]

X1_ASSUMPTIONS = [
    "external requests land at event-loop callback boundaries (and between the call_soons of one callback); "
    "their bodies run atomically (no GIL pre-emption inside a callback body)",
    "devices are the harness' fakes implementing bluesky.protocols; ophyd's own threads are not exercised",
    "virtual clock: time advances only when no callback is ready",
    "SIGINT / KeyboardInterrupt / panicked paths excluded (context_managers=[])",
    "after a public call returns, the loop is drained to quiescence before the caller's next action",
]


def spec(scn, menu=None, bound=1, faults=(), **params):
    return {"scn": scn, "params": params, "menu": list(menu if menu is not None else ALL_REQUESTS), "bound": bound, "fault_kinds": tuple(faults)}


def bind(specs, oracle, chunk=24):
    def items(tier, seed):
        return bounded.plan_items(specs[tier], chunk=chunk)

    def run_item(item):
        st = bounded.explore_item(item, oracle)
        return {
            "evaluations": st.evaluations,
            "transitions": st.transitions,
            "states": st.digests,
            "nontrivial": st.behaviours,
            "outcomes": dict(st.outcomes),
            "violations": st.violations,
            "harness_errors": st.harness_errors,
            "samples": st.samples,
            "extra": {"executions_where_deviation_changed_behaviour": st.effective, **{f"executions_at_depth_{d}": n for d, n in st.by_depth.items()}},
        }

    def replay(payload):
        sched = bounded.from_json(payload["schedule"])
        scn, ref = bounded.execute(payload["scenario"], payload.get("params") or {}, {})
        scn, obs = bounded.execute(payload["scenario"], payload.get("params") or {}, sched)
        scn, obs2 = bounded.execute(payload["scenario"], payload.get("params") or {}, sched)
        if obs.digest != obs2.digest:
            return [{"rule": "nondeterministic-replay", "detail": f"{obs.digest} != {obs2.digest}"}]
        return [{"rule": r, "detail": d} for r, d in oracle(scn, obs, ref, sched)]

    def describe(tier):
        return {
            "bounds": [
                {"scenario": s["scn"], "params": s["params"], "deviations<=": s["bound"], "menu": [":".join(map(str, e)) for e in s["menu"]], "fault_kinds": list(s["fault_kinds"])}
                for s in specs[tier]
            ],
            "states_means": "distinct full-observation digests (documents, messages, state changes, ledger, per-callback log)",
            "transitions_means": "event-loop callbacks executed + injected requests/faults, summed over executions",
        }

    return items, run_item, replay, describe
