"""C11 - suspension holds the plan until release, then runs the post-plan and rewinds."""

from bsv.oracles import engine
from bsv.oracles.replaymodel import HELPER_CMDS, check_replay
from bsv.props import _x1
from bsv.props._x1 import spec

ID = "C11"
LEVEL = "model_checking"
RULE = (
    "X1: request_suspend with pre/post plans in {none, pre, post, both} at every loop position of scan/count/two-motor/nested "
    "scenarios, a second overlapping suspension at every later position, an explicit release at every position after the request "
    "(including before the engine has reached its wait_for), and a real SuspendBoolHigh(sig, sleep=2) tripped/released by "
    "sig.put(1)/sig.put(0) at every position (virtual time), and a glitch (put(0);put(1) back-to-back) at every position after a trip; more than 6 messages after a trip was handled (and while the signal stays out of range) only suspension-helper messages execute. Oracle per suspension that took effect in a resumable place: between "
    "the helper's start and its _resume_from_suspender only 'rewindable', the pre-plan and 'wait_for' (and nested helpers) execute; "
    "every device set so far gets stop() before the pre-plan; _resume_from_suspender comes after the release (at release time + "
    "sleep for the real suspender), then the post-plan, 'rewindable', the replay (REPLAY-MODEL), and the caller's call does not "
    "return in between; non-trivial = a suspension took effect"
)
ASSUMPTIONS = _x1.X1_ASSUMPTIONS

SUS = [("suspend", "none"), ("suspend", "both"), ("suspend", "pre"), ("suspend", "post")]
SPECS = {
    "quick": [spec(k, SUS, bound=1) for k in ("scan2", "twomotors", "nested")]
    + [spec("tiny", [("suspend", "both"), ("release", 0), ("release", 1)], bound=2)]
    + [spec("suspreal", [("put", "sig", 1), ("put", "sig", 0), ("@once", "put")], bound=1)]
    + [spec("suspreal", [("put", "sig", 1)], bound=1, sleep=0, plans=0)]
    # trip, then a glitch (back to nominal and out again, back-to-back) at every later position, inside the settle time or not
    + [spec("suspreal", [("put", "sig", 1), ("puts", "sig", 0, 1), ("@once", "put", "puts")], bound=2, sleep=s) for s in (0, 2)],
    "thorough": [spec(k, SUS, bound=1, a=a) for k in ("scan2", "twomotors", "nested", "count2", "grid22s", "cleanup") for a in (0, 1)]
    + [spec(k, [("suspend", "both"), ("suspend", "none"), ("release", 0), ("release", 1)], bound=2) for k in ("tiny", "count2")]
    + [spec("tiny", [("suspend", "both"), ("release", 0), ("release", 1)], bound=3)]
    + [spec("suspreal", [("put", "sig", 1), ("put", "sig", 0)], bound=2, sleep=s, a=a) for s in (0, 2) for a in (0, 1)]
    + [spec(k, [("suspend", "both")], bound=1, ri=1) for k in ("scan2", "nested")]
    + [spec("suspreal", [("put", "sig", 1), ("put", "sig", 0), ("puts", "sig", 0, 1), ("puts", "sig", 1, 0)], bound=2, sleep=s) for s in (0, 2)],
}


TRIP_LATENCY = 6  # request_suspend -> call_soon_threadsafe -> create_task -> cancel -> _run: at most this many messages


def _helpers(obs):
    """[(i_start, i_resume or None, msg)] for every suspension helper, matched by stack discipline."""
    out = []
    stack = []
    for i, t in enumerate(obs.timeline):
        if t[0] == "msg":
            if t[2] == "_start_suspender":
                stack.append(len(out))
                out.append([i, None, obs.msgs[t[1]]])
            elif t[2] == "_resume_from_suspender" and stack:
                out[stack.pop()][1] = i
        elif t[0] == "call" and t[1] in ("RE", "probe"):
            stack = []
    return out


def oracle(scn, obs, ref, schedule):
    out = []
    if obs.outcome != "ok":
        return out
    if schedule.get("faults") or engine.schedule_has(schedule, engine.TERMINATORS):
        return out
    tl = obs.timeline
    inter = engine.interruptions(obs)
    if any(r != "yes" for _k, _i, r in inter):
        return out
    helpers = _helpers(obs)
    obs.extra["suspensions"] = len(helpers)
    moved = set()
    for i, t in enumerate(tl):
        if t[0] == "dev" and t[2] == "set":
            moved.add(t[1])
    for i_s, i_r, m in helpers:
        end = i_r if i_r is not None else len(tl)
        pre_plan, post_plan, just, fut = m.args
        # 1. nothing of the plan runs while suspended
        depth = 0
        for t in tl[i_s + 1 : end]:
            if t[0] == "msg":
                mm = obs.msgs[t[1]]
                if mm.command == "_start_suspender":
                    depth += 1
                elif mm.command == "_resume_from_suspender":
                    depth -= 1
                ok = mm.command in HELPER_CMDS or mm.command == "rewindable" or (mm.command == "null" and mm.args and mm.args[0] in ("PRE", "POST"))
                if not ok and depth == 0:
                    out.append(("plan-message-during-suspension", f"{mm.command} executed between the suspension's start and its _resume_from_suspender"))
                    break
            elif t[0] == "ret":
                out.append(("call-returned-during-suspension", f"{t[1]}() returned ({t[2]}) while a suspension was in effect"))
                break
        if i_r is None:
            # never resumed: acceptable only if the caller ended the plan (no terminators in these schedules)
            out.append(("suspension-never-resumed", "the helper's _resume_from_suspender never executed"))
            continue
        # 2. moved devices are stopped at the start of the suspension (before the helper's first message)
        nxt = next((i for i in range(i_s + 1, len(tl)) if tl[i][0] == "msg"), len(tl))
        moved_before = {t[1] for t in tl[:i_s] if t[0] == "dev" and t[2] == "set"}
        stopped = {t[1] for t in tl[i_s:nxt] if t[0] == "dev" and t[2] == "stop"}
        if moved_before - stopped:
            out.append(("moved-device-not-stopped-at-suspension", f"{sorted(moved_before - stopped)} were set before but not stopped when the suspension started"))
        # 3. the release precedes the resume
        rel = None
        if isinstance(just, str) and just.startswith("J"):
            idx = int(just[1:])
            rel = next((i for i, t in enumerate(tl) if t[0] == "release" and t[1] == idx), None)
            if rel is None or rel > i_r:
                out.append(("resumed-before-release", f"suspension {idx}: _resume_from_suspender executed before its release"))
        # 3b. the helper puts rewindability back the way it was: its closing 'rewindable' message carries the value
        #     the engine had when the suspension started (the plans here never toggle it themselves -> True)
        if len(helpers) == 1:
            closing = [obs.msgs[t[1]] for t in tl[i_r + 1 :] if t[0] == "msg" and t[2] == "rewindable"][:1]
            if closing and closing[0].args[:1] != (True,):
                out.append(("rewindable-not-restored", f"after the suspension the helper sets rewindable to {closing[0].args[:1]} although it was True before"))
        # 4. shape of the helper: rewindable, PRE*, wait_for ... _resume, POST*, rewindable
        #    (judged only when suspensions do not overlap: a nested helper's messages interleave anywhere)
        if len(helpers) != 1:
            continue
        inner =[obs.msgs[t[1]] for t in tl[i_s + 1 : i_r] if t[0] == "msg"]
        cmds = [x.command for x in inner]
        if not cmds or cmds[0] != "rewindable" or "wait_for" not in cmds:
            out.append(("helper-shape", f"messages after _start_suspender: {cmds[:6]}"))
        if pre_plan is not None:
            w = cmds.index("wait_for") if "wait_for" in cmds else len(cmds)
            if not any(x.command == "null" and x.args[:1] == ("PRE",) for x in inner[:w]):
                out.append(("pre-plan-not-run-before-wait", f"messages before wait_for: {cmds[:w]}"))
        after = [obs.msgs[t[1]] for t in tl[i_r + 1 :] if t[0] == "msg"][:3]
        if post_plan is not None:
            if not after or not (after[0].command == "null" and after[0].args[:1] == ("POST",)):
                out.append(("post-plan-not-run-after-release", f"messages after _resume_from_suspender: {[x.command for x in after]}"))
            elif len(after) < 2 or after[1].command != "rewindable":
                out.append(("no-rewindable-after-post-plan", f"messages after the post plan: {[x.command for x in after[1:]]}"))
        elif not after or after[0].command != "rewindable":
            if not (after and after[0].command == "_start_suspender"):
                out.append(("no-rewindable-after-release", f"messages after _resume_from_suspender: {[x.command for x in after]}"))
    # 5. real suspender: released at (time of the update that satisfied the resume condition) + sleep
    if scn.id == "suspreal" and helpers:
        sleep = scn.params.get("sleep", 2)
        for i_s, i_r, m in helpers:
            if i_r is None:
                continue
            puts0 = [t for t in tl[:i_r] if t[0] == "put" and t[1] == "sig" and not t[2]]
            trip = [t for t in tl[:i_s] if t[0] == "put" and t[1] == "sig" and t[2]]
            if not puts0 or not trip:
                continue
            # the release that ended this suspension is the FIRST update after the trip that satisfies the resume
            # condition (later ones change nothing: the suspender is no longer tripped)
            t_trip = trip[-1][4]
            i_trip = max(i for i, t in enumerate(tl[:i_s]) if t[0] == "put" and t[1] == "sig" and t[2])
            after_trip = [t for t in tl[i_trip:i_r] if t[0] == "put" and t[1] == "sig" and not t[2]]
            if not after_trip:
                continue
            t_rel = after_trip[0][4]
            t_res = tl[i_r][3]
            if abs(t_res - (t_rel + sleep)) > 1e-6 and t_res < t_rel + sleep - 1e-6:
                out.append(("released-before-sleep-elapsed", f"signal went back at t={t_rel}, sleep={sleep}, resumed at t={t_res}"))
    # 5b. real suspender: whenever a helper resumes the plan, the monitored signal is in range and has been for `sleep`
    #     seconds without interruption ("no further plan message runs until the suspender's condition is released")
    if scn.id == "suspreal":
        sleep = scn.params.get("sleep", 2)
        puts = [(t[4], t[2]) for t in tl if t[0] == "put" and t[1] == "sig"]
        for i_s, i_r, m in helpers:
            if i_r is None:
                continue
            t_res = tl[i_r][3]
            # (updates arriving at the very instant of the resume are concurrent with the timer that released the helper: rule 5c judges them)
            before = [(tt, v) for tt, v in ((t[4], t[2]) for t in tl[:i_r] if t[0] == "put" and t[1] == "sig") if tt < t_res - 1e-9]
            if not before:
                continue
            if before[-1][1]:
                continue  # a new trip is being handled concurrently with this resume: rule 5c
            # start of the last uninterrupted in-range stretch
            t_in = before[-1][0]
            for tt, v in reversed(before):
                if v:
                    break
                t_in = tt
            if t_res < t_in + sleep - 1e-6:
                out.append(("resumed-inside-settle-time", f"signal back in range since t={t_in}, sleep={sleep}, plan resumed at t={t_res}"))
    # 5c. real suspender: once a trip (in range -> out of range, handled while a plan is running) is older than
    #     TRIP_LATENCY engine messages and the signal has not come back, only suspension-helper messages execute
    if scn.id == "suspreal":
        high = bool(scn.params.get("initial", 0))
        i = 0
        while i < len(tl):
            t = tl[i]
            if t[0] == "sus_call":
                was, high = high, bool(t[1])
                if high and not was and t[2] not in (None, "idle", "paused"):
                    n = 0
                    for u in tl[i + 1 :]:
                        if u[0] == "sus_call" and not u[1]:
                            break
                        if u[0] == "msg":
                            n += 1
                            mm = obs.msgs[u[1]]
                            helper = mm.command in HELPER_CMDS or mm.command == "rewindable" or (mm.command == "null" and mm.args[:1] in (("PRE",), ("POST",)))
                            if n > TRIP_LATENCY and not helper:
                                out.append((f"plan-runs-while-tripped:trip-handled-in-state-{t[2]}", f"signal went out of range at t={t[3]} (engine {t[2]}) and stayed there; {n} messages later the plan message '{mm.command}' is executed"))
                                break
            i += 1
    # 6. the rewind itself
    rv, _stats = check_replay(obs)
    out.extend(rv)
    return out


items, run_item, replay, describe = _x1.bind(SPECS, oracle)
