"""C33 - 0MQ publishing delivers documents intact and filters by prefix.

S engine over frame histories.  The real ``Publisher`` and ``RemoteDispatcher`` are wired to an in-memory
double of the ``zmq`` / ``zmq.asyncio`` modules (passed through the constructors' own ``zmq=`` /
``zmq_asyncio=`` parameters): PUB sockets append frames to a queue, raw malformed frames are injected into
the same queue, the SUB socket's ``recv`` coroutine pops them, yielding to the loop like a real socket, and
raises a private end-of-input exception when the queue is dry.  ``RemoteDispatcher.start()`` runs the real
``_poll`` on a private event loop passed through the ``loop=`` parameter (stock ``asyncio.BaseEventLoop``
machinery without a selector; a new loop per case, closed by ``stop()``).
The reference is a filter-and-decode list.
"""

import copy
import hashlib
import itertools
import pickle

ID = "C33"
LEVEL = "model_checking"
RULE = (
    "S: every frame sequence of length 1..3 (quick) / 1..4 (thorough) over 10 frame kinds = 4 valid documents (start, descriptor, "
    "event, stop; payloads with spaces, newlines and both parties' prefix bytes) sent by the Publisher under test, 1 valid event "
    "from a second Publisher with prefix b'b', 5 malformed raw frames (one part, two parts, undecodable name, unknown name, "
    "undeserialisable payload; carrying the first publisher's prefix) x publisher prefix {b'',b'a',b'ab'} x dispatcher prefix "
    "{b'',b'a',b'b'} x strict {F,T}; plus every sequence one frame shorter for 5 legal but unusual publisher prefixes (tab, newline, CR+VT, NUL, non-UTF-8 bytes) x dispatcher prefix {b'', the same prefix} x strict. Oracle: delivered (name, doc) list == reference filter-and-decode list, in order; non-strict: "
    "nothing escapes start() and later frames are still delivered; strict: an addressed (or unsplittable) malformed frame raises, "
    "everything before it was delivered and nothing after. non-trivial = at least one document delivered and at least one frame "
    "filtered or dropped in the same history (measured)"
)
ASSUMPTIONS = [
    "the transport double queues frames (no loss, no reordering), i.e. the dispatcher is 'listening' from the first frame on",
    "strict mode, malformed frame whose prefix does not match the dispatcher's: raising and dropping are both accepted (don't-care)",
    "strict mode: the TYPE of the exception is not constrained by the statement ('or raise in strict mode'); it is recorded in the outcome "
    "histogram. Set STRICT_REQUIRES_DECODE_ERROR = True to demand Bluesky0MQDecodeError",
    "callbacks do not raise",
]

STRICT_REQUIRES_DECODE_ERROR = False

# indices 0..2: the ordinary prefixes (full cross).  From 3: legal but unusual prefixes (any bytes without b" " are allowed):
# other ASCII whitespace, NUL, non-UTF-8 bytes - crossed with the dispatcher prefixes {b"", the very same prefix}
PUB_PREFIXES = (b"", b"a", b"ab", b"a\tb", b"\n", b"run\r1\x0b", b"\x00", b"\xff\xfe")
DISP_PREFIXES = (b"", b"a", b"b", b"a\tb", b"\n", b"run\r1\x0b", b"\x00", b"\xff\xfe")
FOREIGN_PREFIX = b"b"

VALID = {
    "start": {"uid": "run 1", "time": 1.5, "note": "a b  ab\nnew line ", "plan_name": " a", "scan_id": 1},
    "descriptor": {"uid": "d 1", "run_start": "run 1", "name": "ab", "data_keys": {"a b": {"source": "b a\n", "dtype": "number", "shape": []}}},
    "event": {"uid": "e 1", "descriptor": "d 1", "seq_num": 1, "time": 2.5, "data": {"a b": " b"}, "timestamps": {"a b": 0.0}},
    "stop": {"uid": "s 1", "run_start": "run 1", "exit_status": "success", "reason": "a\nb ab ", "time": 3.5},
}
FOREIGN_DOC = {"uid": "foreign e", "descriptor": "d 9", "seq_num": 9, "time": 0.5, "data": {"x": "from b"}, "timestamps": {"x": 0.0}}
KINDS = ("valid-start", "valid-descriptor", "valid-event", "valid-stop", "foreign-event", "one-part", "two-parts", "undecodable-name", "unknown-name", "bad-payload")
MALFORMED = KINDS[5:]


def describe(tier):
    return {"bounds": {"frame_kinds": len(KINDS), "max_frames": 3 if tier == "quick" else 4, "prefix_pairs": 9, "unusual_prefixes": [repr(x) for x in PUB_PREFIXES[3:]], "unusual_prefix_pairs": 10, "unusual_max_frames": 2 if tier == "quick" else 3, "strict": [False, True]}}


def items(tier, seed):
    import bluesky.callbacks.zmq  # noqa: F401 - before the fork

    out = []
    for p in range(3):
        for d in range(3):
            for strict in (False, True):
                for first in range(len(KINDS)):
                    out.append({"tier": tier, "p": p, "d": d, "strict": strict, "first": first})
    for p in range(3, len(PUB_PREFIXES)):
        for d in (0, p):
            for strict in (False, True):
                for first in range(len(KINDS)):
                    out.append({"tier": tier, "p": p, "d": d, "strict": strict, "first": first, "short": 1})
    import gc

    gc.freeze()  # keep the forked workers' collector off the parent's heap (copy-on-write faults dominate otherwise)
    return out


# ---------------------------------------------------------------- transport double
class _EndOfFrames(Exception):
    """Raised by the SUB socket double when every frame has been received."""


class Bus:
    def __init__(self):
        self.frames = []
        self.consumed = 0


class _Socket:
    def __init__(self, bus, kind):
        self.bus, self.kind, self.closed, self.url = bus, kind, False, None

    def connect(self, url):
        self.url = url

    def setsockopt_string(self, opt, value):
        pass

    def send(self, message):
        assert not self.closed
        self.bus.frames.append(bytes(message))

    def close(self):
        self.closed = True


class _AsyncSocket(_Socket):
    async def recv(self):
        import asyncio

        await asyncio.sleep(0)  # a real socket always hands control back to the loop
        if self.bus.consumed < len(self.bus.frames):
            self.bus.consumed += 1
            return self.bus.frames[self.bus.consumed - 1]
        for _ in range(3):  # let everything already scheduled on the loop run before ending the poll
            await asyncio.sleep(0)
        raise _EndOfFrames()


class _Context:
    def __init__(self, bus, sock_cls):
        self.bus, self.sock_cls = bus, sock_cls

    def socket(self, kind):
        return self.sock_cls(self.bus, kind)

    def destroy(self):
        pass


class _NoSelector:
    """Nothing in these histories ever waits for I/O or a timer."""

    def select(self, timeout=None):
        if timeout is None:
            raise RuntimeError("C33 harness: the loop would block forever (nothing ready, nothing scheduled)")
        return []

    def close(self):
        pass


def make_loop():
    """A private stock asyncio loop (BaseEventLoop's own run_forever/_run_once/call_soon/Task machinery) without the
    selector's socketpair and epoll descriptor: one is built per case and closed by RemoteDispatcher.stop()."""
    import asyncio

    class MemLoop(asyncio.BaseEventLoop):
        def __init__(self):
            super().__init__()
            self._selector = _NoSelector()

        def _process_events(self, event_list):
            pass

        def _write_to_self(self):
            pass

    return MemLoop()


class FakeZmq:
    """Stands for the ``zmq`` module."""

    PUB, SUB, SUBSCRIBE = 1, 2, 6

    def __init__(self, bus, sock_cls=_Socket):
        self._bus, self._sock_cls = bus, sock_cls

    def Context(self, *args):  # noqa: N802
        return _Context(self._bus, self._sock_cls)


# ---------------------------------------------------------------- reference
def raw_frame(kind, prefix):
    body = pickle.dumps(VALID["event"])
    return {
        "one-part": b"garbage-without-any-blank",
        "two-parts": prefix + b" event",
        "undecodable-name": prefix + b" \xff\xfe " + body,
        "unknown-name": prefix + b" bogus " + body,
        "bad-payload": prefix + b" event \x00this is not a pickle",
    }[kind]


def reference(seq, P, D, strict):
    """-> list of acceptable (delivered list, raised?) outcomes, plus per-delivery source frame indices."""

    def addressed(prefix):
        return D == b"" or prefix == D

    alts = [([], [])]  # (delivered, frame index of each delivery) of the executions still alive
    done = []  # executions ended by a strict raise: (delivered, src, index of the raising frame)
    for i, kind in enumerate(seq):
        if kind.startswith("valid-"):
            if addressed(P):
                name = kind.split("-", 1)[1]
                alts = [(dl + [(name, VALID[name])], src + [i]) for dl, src in alts]
        elif kind == "foreign-event":
            if addressed(FOREIGN_PREFIX):
                alts = [(dl + [("event", FOREIGN_DOC)], src + [i]) for dl, src in alts]
        else:  # malformed: never delivers
            if strict:
                must = addressed(P) or kind == "one-part"
                done += [(dl, src, i) for dl, src in alts]
                if must:
                    alts = []
                    break
    return alts, done


# ---------------------------------------------------------------- one execution on the real classes
def execute(seq, P, D, strict):
    from bluesky.callbacks.zmq import Publisher, RemoteDispatcher

    bus = Bus()
    fz = FakeZmq(bus)
    fa = FakeZmq(bus, _AsyncSocket)  # stands for zmq.asyncio: only Context() is used
    pub = Publisher(("localhost", 5567), prefix=P, zmq=fz)
    pub_b = Publisher(("localhost", 5567), prefix=FOREIGN_PREFIX, zmq=fz)
    for kind in seq:
        if kind.startswith("valid-"):
            name = kind.split("-", 1)[1]
            pub(name, copy.deepcopy(VALID[name]))
        elif kind == "foreign-event":
            pub_b("event", copy.deepcopy(FOREIGN_DOC))
        else:
            bus.frames.append(raw_frame(kind, P))
    pub.close()
    pub_b.close()
    delivered = []
    disp = RemoteDispatcher(("localhost", 5568), prefix=D, loop=make_loop(), zmq=fz, zmq_asyncio=fa, strict=strict)
    disp.subscribe(lambda name, doc: delivered.append((name, doc)))
    raised = None
    try:
        disp.start()
    except _EndOfFrames:
        pass
    except Exception as e:  # noqa: BLE001
        raised = e
    finally:
        if not disp.loop.is_closed():
            disp.loop.close()
    return delivered, raised, bus.consumed


def run_case(seq, P, D, strict):
    from bluesky.callbacks.zmq import Bluesky0MQDecodeError

    seq = tuple(seq)
    case = {"seq": list(seq), "P": P.decode("latin-1"), "D": D.decode("latin-1"), "strict": strict}
    head = f"seq={list(seq)} publisher prefix={P!r} dispatcher prefix={D!r} strict={strict}"
    delivered, raised, consumed = execute(seq, P, D, strict)
    alts, done = reference(seq, P, D, strict)
    last = seq[consumed - 1] if consumed else "none"
    addressed_p = D == b"" or P == D
    vs = []

    def viol(rule, sig, detail):
        vs.append({"rule": rule, "detail": f"{head}: {detail}", "signature": f"{rule}|strict={strict}|{sig}", "case": case})

    def first_diff(exp, src):
        for k in range(max(len(exp), len(delivered))):
            if k >= len(delivered):
                return f"missing|frame={seq[src[k]]}", f"delivery {k} ({exp[k][0]} from frame {src[k]}) never arrived; {len(delivered)} of {len(exp)} delivered"
            if k >= len(exp):
                return f"extra|doc={delivered[k][0]}", f"unexpected delivery {k}: {delivered[k]!r}"
            if delivered[k] != exp[k]:
                return f"wrong|frame={seq[src[k]]}", f"delivery {k} is {delivered[k]!r}, expected {exp[k]!r}"
        return None

    outcome = "ok"
    if raised is None:
        if not alts:
            # strict and a frame that must raise
            _, _, idx = done[-1]
            viol("strict-did-not-raise", f"frame={seq[idx]}|addressed={addressed_p}", f"frame {idx} ({seq[idx]}) must raise; start() ended normally with {len(delivered)} deliveries")
            outcome = "strict-did-not-raise"
        else:
            exp, src = alts[0]
            d = first_diff(exp, src)
            if d:
                viol("delivered-differs", d[0], d[1])
                outcome = "delivered-differs"
    else:
        tname = type(raised).__name__
        if not strict:
            viol(
                "nonstrict-raised",
                f"frame={last}|addressed={addressed_p}|exc={tname}",
                f"{raised!r} escaped RemoteDispatcher.start() while handling frame {consumed - 1} ({last}); {len(seq) - consumed} later frame(s) never read, "
                f"{len(delivered)} document(s) delivered",
            )
            outcome = f"nonstrict-raised:{tname}"
        else:
            outcome = f"strict-raised:{tname}|frame={last}"
            match = [(dl, src) for dl, src, idx in done if idx == consumed - 1]
            if not match:
                viol("strict-raised-on-acceptable-frame", f"frame={last}|addressed={addressed_p}|exc={tname}", f"{raised!r} while handling frame {consumed - 1} ({last}), which is not malformed")
                outcome = "strict-raised-wrongly"
            else:
                exp, src = match[0]
                d = first_diff(exp, src)
                if d:
                    viol("delivered-differs-before-strict-raise", d[0], d[1])
                    outcome = "delivered-differs"
                if STRICT_REQUIRES_DECODE_ERROR and not isinstance(raised, Bluesky0MQDecodeError):
                    viol("strict-wrong-exception-type", f"frame={last}|exc={tname}", f"{raised!r} instead of Bluesky0MQDecodeError")
    dropped = consumed - len(delivered)
    nontrivial = len(delivered) >= 1 and dropped >= 1
    digest = hashlib.sha256(repr(([(n, sorted(d.items(), key=repr)) for n, d in delivered], type(raised).__name__, consumed)).encode()).hexdigest()[:12]
    return vs, outcome, nontrivial, digest, consumed


def _sequences(tier, first, short=0):
    maxlen = (3 if tier == "quick" else 4) - short
    f = KINDS[first]
    out = []
    for n in range(0, maxlen):
        for rest in itertools.product(KINDS, repeat=n):
            out.append((f,) + rest)
    return out


def run_item(item):
    P, D, strict = PUB_PREFIXES[item["p"]], DISP_PREFIXES[item["d"]], item["strict"]
    violations, states, nontrivial, outcomes = [], set(), set(), {}
    persig, suppressed = {}, 0
    n = steps = 0
    for seq in _sequences(item["tier"], item["first"], item.get("short", 0)):
        n += 1
        key = hashlib.sha256(repr((seq, P, D, strict)).encode()).hexdigest()[:12]
        states.add(key)
        vs, oc, nt, digest, consumed = run_case(seq, P, D, strict)
        states.add(digest)
        steps += len(seq) + consumed  # frames sent + frames polled
        if nt:
            nontrivial.add(key)
        outcomes[oc] = outcomes.get(oc, 0) + 1
        for v in vs:
            persig[v["signature"]] = persig.get(v["signature"], 0) + 1
            if persig[v["signature"]] <= 3:
                violations.append(v)
            else:
                suppressed += 1
    return {
        "evaluations": n,
        "transitions": steps,
        "states": states,
        "nontrivial": nontrivial,
        "outcomes": outcomes,
        "violations": violations,
        "samples": [{"publisher_prefix": repr(P), "dispatcher_prefix": repr(D), "strict": strict, "frames": list(seq)}],
        "extra": {"caps_hit": 0, "violating_cases_not_listed_individually": suppressed},
    }


def replay(payload):
    c = payload["case"]
    vs, _, _, _, _ = run_case(tuple(c["seq"]), c["P"].encode("latin-1"), c["D"].encode("latin-1"), c["strict"])
    return vs
