"""C25 - step scans visit exactly the documented trajectory, one checkpointed reading per point, consistent metadata.

S engine through the real RunEngine on the deterministic harness: every plan of the bounded family is executed
against fake motors/detector; what the devices were told to do (ledger), what was recorded (event documents),
the message stream and the start document are compared with an independent reference trajectory.
"""

import hashlib
import itertools

ID = "C25"
LEVEL = "model_checking"
TOL = 1e-9

V = (-1, 0, 0.5, 2)
P16 = tuple(itertools.product(V, V))
P4 = ((-1, 2), (2, -1), (0, 0.5), (0.5, 0.5))
P2 = ((-1, 2), (2, 0.5))
NUMS = (1, 2, 3, 4)
# fine steps: |step| small against |position| (and against 1e-8 near zero) but far above the comparison tolerance -
# a move must not be skipped or merged because the target is "close to" the previous one
PF = ((8000, 8000.06), (-5000.03, -5000), (100000.3, 100000), (0, 3e-8))
INIT = 7.0  # initial motor position, not a member of V: a missing first move shows up in the first reading

RULE = (
    "S through the real RunEngine (fake devices): scan (1-3 motors, num positional and keyword), inner_product_scan, list_scan, "
    "grid_scan (1-3 axes, new-style args with snake_axes in {None, False, True, every list of non-first motors} and old-style args "
    "with inline snake flags), list_grid_scan (2-3 axes, snake_axes False/True/lists), scan_nd (inner sums and outer products of "
    "cyclers), log_scan, x2x_scan; starts/stops from {-1,0,0.5,2} (all 16 pairs on the first axis, stated subsets on the others), "
    "num 1..4, position lists of length 1..3; plus fine-step axes (8000..8000.06, -5000.03..-5000, 100000.3..100000, 0..3e-8; steps far above the 1e-9 comparison tolerance) for scan, inner_product_scan, list_scan, grid_scan and list_grid_scan. Reference: exact start+i*(stop-start)/(num-1), zip for inner products, nested loops "
    "with explicit reversal on every odd traversal of a snaked axis, 10**linspace for log_scan, initial+offset for x2x_scan. "
    "Oracle per plan: motor positions reconstructed from the device ledger at each detector trigger = reference point (1e-9); the "
    "motor readings in the i-th event = reference point; every set target is the reference coordinate of its point; exactly one "
    "checkpoint (before the acquisition), one trigger and one event per point; start document num_points = number of points, shape = axis lengths, extents "
    "cover exactly the visited range per axis, snaking = the requested flags. Non-trivial = at least two distinct points."
)
ASSUMPTIONS = [
    "devices are the harness fakes (instantaneous moves, readback = last commanded position)",
    "float comparisons with absolute/relative tolerance 1e-9 (linspace vs the closed formula differ by rounding)",
    "num=1 yields the single point `start` (numpy.linspace semantics)",
    "extents of an axis with a single point only have to contain that point",
    "metadata keys other than num_points, shape, extents and snaking are not examined",
]

TIERS = {
    "quick": {
        "scan": {1: (P16,), 2: (P16, P4), 3: (P4, P4, P2)},
        "scan_styles": {1: ("pos", "kw"), 2: ("pos", "kw"), 3: ("kw",)},
        "ips": {1: (P16,), 2: (P4, P4)},
        "list_scan": {1: ((V, 3),), 2: ((V, 3), ((-1, 2), 3)), 3: (((-1, 2), 2),) * 3},
        "grid": {1: ((P16,), NUMS), 2: ((P4, P4), NUMS), 3: ((P2, P2, P2[:1]), (1, 2, 3))},
        "list_grid": {2: (((-1, 2), 3), ((-1, 0.5, 2), 2)), 3: "updown"},
        "scan_nd_inner": {1: ((V, 3),), 2: (((-1, 2), 3), ((0, 0.5), 3))},
        "scan_nd_outer": (((-1, 2), 2), ((0.5, 2), 2)),
        "log": P16,
        "x2x": (P16, ((0.0, 0.0), (1.5, -2.0), (2.0, 1.0), (-1.0, -0.5), (0.5, 0.25))),
    },
    "thorough": {
        "scan": {1: (P16,), 2: (P16, P16), 3: (P16, P4, P4)},
        "scan_styles": {1: ("pos", "kw"), 2: ("pos", "kw"), 3: ("pos", "kw")},
        "ips": {1: (P16,), 2: (P16, P4), 3: (P4, P4, P2)},
        "list_scan": {1: ((V, 3),), 2: ((V, 3), ((-1, 0.5, 2), 3)), 3: (((-1, 2), 3),) * 3},
        "grid": {1: ((P16,), NUMS), 2: ((P16, P4), NUMS), 3: ((P4, P2, P2), NUMS)},
        "list_grid": {2: (((-1, 0.5, 2), 3), ((-1, 0.5, 2), 3)), 3: (((-1, 2), 2),) * 3},
        "scan_nd_inner": {1: ((V, 3),), 2: ((V, 3), ((0, 0.5), 3))},
        "scan_nd_outer": (((-1, 0.5, 2), 3), ((0.5, 2), 3)),
        "log": P16,
        "x2x": (P16, ((0.0, 0.0), (1.5, -2.0), (-2.0, 1.5), (2.0, 1.0), (-1.0, -0.5), (0.5, 0.25), (0.0, 1.0), (2.0, 0.0))),
    },
}


def describe(tier):
    return {
        "bounds": {
            "values": list(V),
            "P16": "all 16 (start,stop) pairs over the values",
            "P4": [list(p) for p in P4],
            "P2": [list(p) for p in P2],
            "nums": list(NUMS),
            "families": {k: repr(v) for k, v in TIERS[tier].items()},
            "entry_points": ["scan", "inner_product_scan", "list_scan", "grid_scan", "list_grid_scan", "scan_nd", "log_scan", "x2x_scan"],
        }
    }


# --------------------------------------------------------------------------- enumeration


def _lists(values, maxlen, length=None):
    lens = range(1, maxlen + 1) if length is None else (length,)
    return [tuple(s) for L in lens for s in itertools.product(values, repeat=L)]


def _subsets(idx):
    return [list(c) for r in range(len(idx) + 1) for c in itertools.combinations(idx, r)]


def _cases(tier):
    t = TIERS[tier]
    out = []
    for n, pairsets in t["scan"].items():
        for pairs in itertools.product(*pairsets):
            for num in NUMS:
                for style in t["scan_styles"][n]:
                    out.append(("scan", [list(p) for p in pairs], num, style))
    for n, pairsets in t["ips"].items():
        for pairs in itertools.product(*pairsets):
            for num in NUMS:
                out.append(("inner_product_scan", [list(p) for p in pairs], num))
    for n, specs in t["list_scan"].items():
        maxlen = min(s[1] for s in specs)
        for L in range(1, maxlen + 1):
            for lists in itertools.product(*[_lists(vals, ml, L) for vals, ml in specs]):
                out.append(("list_scan", [list(x) for x in lists]))
    for n, (pairsets, nums) in t["grid"].items():
        for pairs in itertools.product(*pairsets):
            for ns in itertools.product(nums, repeat=n):
                axes = [[p[0], p[1], k] for p, k in zip(pairs, ns)]
                for sa in [None, False, True] + _subsets(list(range(1, n))):
                    out.append(("grid_scan", axes, "new", sa))
                if n >= 2:
                    for flags in itertools.product((False, True), repeat=n - 1):
                        out.append(("grid_scan", axes, "old", list(flags)))
    for n, specs in t["list_grid"].items():
        if specs == "updown":
            per_axis = [[(-1,), (-1, 2), (2, -1)]] * n
        else:
            per_axis = [_lists(vals, ml) for vals, ml in specs]
        for lists in itertools.product(*per_axis):
            for sa in [False, True] + _subsets(list(range(1, n))):
                out.append(("list_grid_scan", [list(x) for x in lists], sa))
    for n, specs in t["scan_nd_inner"].items():
        maxlen = min(s[1] for s in specs)
        for L in range(1, maxlen + 1):
            for lists in itertools.product(*[_lists(vals, ml, L) for vals, ml in specs]):
                out.append(("scan_nd", "inner", [list(x) for x in lists]))
    for lists in itertools.product(*[_lists(vals, ml) for vals, ml in t["scan_nd_outer"]]):
        out.append(("scan_nd", "outer", [list(x) for x in lists]))
    for p in t["log"]:
        for num in NUMS:
            out.append(("log_scan", list(p), num))
    for p in PF:
        for num in (2, 3, 4):
            out.append(("scan", [list(p)], num, "pos"))
            out.append(("inner_product_scan", [list(p)], num))
            for q in P2:
                out.append(("scan", [list(p), list(q)], num, "kw"))
                out.append(("scan", [list(q), list(p)], num, "pos"))
        out.append(("list_scan", [[p[0], (p[0] + p[1]) / 2, p[1]]]))
        out.append(("list_scan", [[p[1], p[0], (p[0] + p[1]) / 2], [-1, 2, 0.5]]))
        for k in (2, 3):
            for sa in (False, True):
                out.append(("grid_scan", [[-1, 2, 2], [p[0], p[1], k]], "new", sa))
                out.append(("list_grid_scan", [[-1, 2], [p[0], (p[0] + p[1]) / 2, p[1]][:k]], sa))
    pairs, inits = t["x2x"]
    for p in pairs:
        for num in NUMS:
            for ini in inits:
                out.append(("x2x_scan", list(p), num, list(ini)))
    return out


def items(tier, seed):
    cases = _cases(tier)
    size = 60 if tier == "quick" else 120
    return [{"cases": cases[i : i + size]} for i in range(0, len(cases), size)]


# --------------------------------------------------------------------------- reference


def lin(a, b, n):
    if n == 1:
        return [float(a)]
    return [a + i * (b - a) / (n - 1) for i in range(n)]


def inner_ref(columns):
    return [tuple(col[i] for col in columns) for i in range(len(columns[0]))]


def outer_ref(axes, snake):
    """Row-major product; a snaked axis (never the first) runs backwards on each odd traversal."""
    n = len(axes)
    out, trav = [], [0] * n

    def walk(i, prefix):
        if i == n:
            out.append(tuple(prefix))
            return
        seq = list(axes[i])
        if i > 0 and snake[i] and trav[i] % 2 == 1:
            seq.reverse()
        trav[i] += 1
        for v in seq:
            walk(i + 1, prefix + [v])

    walk(0, [])
    return out


def reference(case):
    """-> (nmotors, initial positions, expected points, expected metadata dict)"""
    entry = case[0]
    if entry in ("scan", "inner_product_scan"):
        pairs, num = case[1], case[2]
        pts = inner_ref([lin(a, b, num) for a, b in pairs])
        return len(pairs), [INIT] * len(pairs), pts, {"num_points": num}
    if entry == "list_scan":
        lists = case[1]
        return len(lists), [INIT] * len(lists), inner_ref(lists), {"num_points": len(lists[0])}
    if entry == "grid_scan":
        axes, style, sn = case[1], case[2], case[3]
        n = len(axes)
        if style == "old":
            snake = [False] + list(sn)
        elif sn is None or sn is False:
            snake = [False] * n
        elif sn is True:
            snake = [False] + [True] * (n - 1)
        else:
            snake = [i in sn for i in range(n)]
        pts = outer_ref([lin(a, b, k) for a, b, k in axes], snake)
        md = {"num_points": len(pts), "shape": [k for _, _, k in axes], "extents": True, "snaking": snake}
        return n, [INIT] * n, pts, md
    if entry == "list_grid_scan":
        lists, sn = case[1], case[2]
        n = len(lists)
        if sn is False:
            snake = [False] * n
        elif sn is True:
            snake = [False] + [True] * (n - 1)
        else:
            snake = [i in sn for i in range(n)]
        pts = outer_ref(lists, snake)
        return n, [INIT] * n, pts, {"num_points": len(pts), "shape": [len(x) for x in lists], "extents": True}
    if entry == "scan_nd":
        mode, lists = case[1], case[2]
        pts = inner_ref(lists) if mode == "inner" else outer_ref(lists, [False] * len(lists))
        return len(lists), [INIT] * len(lists), pts, {"num_points": len(pts)}
    if entry == "log_scan":
        (a, b), num = case[1], case[2]
        return 1, [INIT], [(10.0**e,) for e in lin(a, b, num)], {"num_points": num}
    if entry == "x2x_scan":
        (a, b), num, ini = case[1], case[2], case[3]
        c1 = [ini[0] + x for x in lin(a, b, num)]
        c2 = [ini[1] + x for x in lin(a / 2, b / 2, num)]
        return 2, list(ini), inner_ref([c1, c2]), {"num_points": num}
    raise ValueError(entry)


# --------------------------------------------------------------------------- execution


def _scenario(case):
    from bsv.harness.devices import FakeDet, FakeMotor
    from bsv.harness.session import Scenario

    nm, inits, _, _ = reference(case)

    class Scn(Scenario):
        id = "c25"
        probe = False
        horizon = 20000

        def devices(self, ctx):
            d = {f"m{i}": FakeMotor(ctx, f"m{i}", initial=inits[i]) for i in range(nm)}
            d["det"] = FakeDet(ctx, "det", stageable=False)
            return d

        def plan(self, d):
            import bluesky.plans as bp
            from cycler import cycler

            ms = [d[f"m{i}"] for i in range(nm)]
            dets = [d["det"]]
            entry = case[0]
            if entry == "scan":
                args = []
                for m, (a, b) in zip(ms, case[1]):
                    args += [m, a, b]
                if case[3] == "pos":
                    return bp.scan(dets, *args, case[2])
                return bp.scan(dets, *args, num=case[2])
            if entry == "inner_product_scan":
                args = []
                for m, (a, b) in zip(ms, case[1]):
                    args += [m, a, b]
                return bp.inner_product_scan(dets, case[2], *args)
            if entry == "list_scan":
                args = []
                for m, lst in zip(ms, case[1]):
                    args += [m, list(lst)]
                return bp.list_scan(dets, *args)
            if entry == "grid_scan":
                axes, style, sn = case[1], case[2], case[3]
                args = []
                for i, (m, (a, b, k)) in enumerate(zip(ms, axes)):
                    args += [m, a, b, k]
                    if style == "old" and i > 0:
                        args.append(sn[i - 1])
                if style == "old":
                    return bp.grid_scan(dets, *args)
                if isinstance(sn, list):
                    return bp.grid_scan(dets, *args, snake_axes=[ms[i] for i in sn])
                if sn is None:
                    return bp.grid_scan(dets, *args)
                return bp.grid_scan(dets, *args, snake_axes=sn)
            if entry == "list_grid_scan":
                lists, sn = case[1], case[2]
                args = []
                for m, lst in zip(ms, lists):
                    args += [m, list(lst)]
                return bp.list_grid_scan(dets, *args, snake_axes=[ms[i] for i in sn] if isinstance(sn, list) else sn)
            if entry == "scan_nd":
                mode, lists = case[1], case[2]
                cyc = None
                for m, lst in zip(ms, lists):
                    c = cycler(m, list(lst))
                    cyc = c if cyc is None else (cyc + c if mode == "inner" else cyc * c)
                return bp.scan_nd(dets, cyc)
            if entry == "log_scan":
                return bp.log_scan(dets, ms[0], case[1][0], case[1][1], case[2])
            if entry == "x2x_scan":
                return bp.x2x_scan(dets, ms[0], ms[1], case[1][0], case[1][1], case[2])
            raise ValueError(entry)

    return Scn()


def _close(a, b):
    a, b = float(a), float(b)
    return abs(a - b) <= TOL * max(1.0, abs(a), abs(b))


def _same_point(p, q):
    return len(p) == len(q) and all(_close(x, y) for x, y in zip(p, q))


def _sigtag(case):
    entry = case[0]
    if entry == "grid_scan":
        sn = case[3]
        kind = "flags" if case[2] == "old" else ("none" if sn is None else (str(sn).lower() if isinstance(sn, bool) else "list"))
        return f"grid_scan|axes={len(case[1])}|args={case[2]}|snake={kind}"
    if entry == "list_grid_scan":
        sn = case[2]
        return f"list_grid_scan|axes={len(case[1])}|snake={str(sn).lower() if isinstance(sn, bool) else 'list'}"
    if entry in ("scan", "inner_product_scan"):
        return f"{entry}|motors={len(case[1])}" + (f"|num={case[3]}" if entry == "scan" else "")
    if entry == "list_scan":
        return f"list_scan|motors={len(case[1])}"
    if entry == "scan_nd":
        return f"scan_nd|{case[1]}|motors={len(case[2])}"
    return entry


def run_case(case):
    from bsv.harness.session import run

    nm, inits, ref, md = reference(case)
    obs = run(_scenario(case))
    vs = []
    tag = _sigtag(case)

    def viol(rule, detail):
        vs.append({"rule": rule, "detail": f"{_show(case)}: {detail}", "signature": f"{rule}|{tag}", "case": case})

    distinct = len({tuple(round(float(x), 9) for x in p) for p in ref})
    info = {"npoints": len(ref), "nontrivial": distinct >= 2, "steps": obs.nsteps, "harness_error": None}
    if obs.outcome != "ok":
        info["harness_error"] = f"{obs.outcome}: {obs.harness_error}"
        return [], info
    call = obs.calls[0]
    if call["outcome"] != "return":
        e = call["exc"]
        viol("plan-raised", f"{type(e).__name__}: {e}")
        vs[-1]["signature"] += f"|{type(e).__name__}"
        return vs, info
    names = [f"m{i}" for i in range(nm)]
    # 1. what the devices did: positions at each detector trigger, from the ledger
    pos = dict(zip(names, inits))
    at_trigger, sets_per_point, cur_sets = [], [], []
    for _, dev, op, args, _ in obs.ledger:
        if op == "set" and dev in pos:
            pos[dev] = args[0]
            cur_sets.append((dev, args[0]))
        elif op == "trigger" and dev == "det":
            at_trigger.append(tuple(pos[n] for n in names))
            sets_per_point.append(cur_sets)
            cur_sets = []
    is_rel = case[0] == "x2x_scan"
    if len(at_trigger) != len(ref):
        viol("wrong-number-of-points", f"{len(at_trigger)} detector triggers, documented trajectory has {len(ref)} points")
    else:
        for i, (p, q) in enumerate(zip(at_trigger, ref)):
            if not _same_point(p, q):
                viol("trajectory-differs", f"point #{i}: motors at {tuple(float(x) for x in p)} when the detector was triggered, documented {q}")
                break
        if not any(v["rule"] == "trajectory-differs" for v in vs):
            for i, ss in enumerate(sets_per_point):
                bad = [(d, float(v)) for d, v in ss if not _close(v, ref[i][names.index(d)])]
                if bad:
                    viol("set-target-off-trajectory", f"before point #{i}: set{bad[0]} but the point is {ref[i]}")
                    break
    if cur_sets and not is_rel:
        viol("move-after-last-point", f"{[(d, float(v)) for d, v in cur_sets]} commanded after the last reading")
    # 2. what was recorded
    events = [d for n, d in obs.docs if n == "event"]
    if len(events) != len(ref):
        viol("wrong-number-of-events", f"{len(events)} events for {len(ref)} points")
    else:
        for i, (ev, q) in enumerate(zip(events, ref)):
            p = tuple(ev["data"][n] for n in names)
            if not _same_point(p, q):
                viol("recorded-positions-differ", f"event #{i + 1} records {tuple(float(x) for x in p)}, documented {q}")
                break
    # 3. one checkpointed reading per point: split the run at each 'save'; every chunk holds exactly one
    #    checkpoint and it precedes the chunk's trigger/create/read (whether the moves come before or after the
    #    checkpoint is not stated and not demanded)
    cmds = [m.command for m in obs.msgs]
    if "open_run" in cmds and "close_run" in cmds:
        body = cmds[cmds.index("open_run") + 1 : len(cmds) - 1 - cmds[::-1].index("close_run")]
        chunks, cur = [], []
        for c in body:
            cur.append(c)
            if c == "save":
                chunks.append(cur)
                cur = []
        tail = cur
        if len(chunks) != len(ref):
            viol("readings-differ-from-points", f"{len(chunks)} saved readings for {len(ref)} points")
        elif tail.count("checkpoint") or body.count("checkpoint") != len(ref):
            viol("checkpoints-differ-from-points", f"{body.count('checkpoint')} checkpoints for {len(ref)} points ({tail.count('checkpoint')} after the last reading)")
        else:
            for i, ch in enumerate(chunks):
                acq = [k for k, c in enumerate(ch) if c in ("trigger", "create", "read")]
                if ch.count("checkpoint") != 1 or ch.count("create") != 1:
                    viol("not-one-checkpointed-reading-per-point", f"point #{i}: {ch.count('checkpoint')} checkpoint / {ch.count('create')} create in {ch}")
                    break
                if acq and ch.index("checkpoint") > acq[0]:
                    viol("reading-not-checkpointed", f"point #{i}: acquisition starts before the checkpoint: {ch}")
                    break
                if "set" in ch and acq and max(k for k, c in enumerate(ch) if c == "set") > acq[0]:
                    viol("move-during-reading", f"point #{i}: a motor is commanded after the acquisition started: {ch}")
                    break
    else:
        viol("no-run", "no open_run/close_run pair in the message stream")
    # 4. metadata
    start = next((d for n, d in obs.docs if n == "start"), None)
    if start is None:
        viol("no-start-document", "")
    else:
        if start.get("num_points") != md["num_points"]:
            viol("md-num_points", f"start['num_points']={start.get('num_points')!r}, plan takes {md['num_points']} points")
        if "shape" in md:
            got = start.get("shape")
            if got is None or [int(x) for x in got] != md["shape"]:
                viol("md-shape", f"start['shape']={got!r}, axis lengths {md['shape']}")
        if md.get("extents"):
            got = start.get("extents")
            cols = list(zip(*ref))
            ok = got is not None and len(got) == nm
            if ok:
                for (lo, hi), col in zip(([min(e), max(e)] for e in got), cols):
                    vmin, vmax = min(col), max(col)
                    if len({round(float(x), 9) for x in col}) == 1:
                        ok = ok and lo - TOL <= vmin <= hi + TOL
                    else:
                        ok = ok and _close(lo, vmin) and _close(hi, vmax)
            if not ok:
                viol("md-extents", f"start['extents']={got!r}, visited ranges {[[float(min(c)), float(max(c))] for c in cols]}")
        if "snaking" in md:
            got = start.get("snaking")
            if got is None or [bool(x) for x in got] != md["snaking"]:
                viol("md-snaking", f"start['snaking']={got!r}, requested {md['snaking']}")
    return vs, info


def _show(case):
    entry = case[0]
    if entry == "scan":
        args = ", ".join(f"m{i}, {a}, {b}" for i, (a, b) in enumerate(case[1]))
        return f"scan([det], {args}, {'num=' if case[3] == 'kw' else ''}{case[2]})"
    if entry == "inner_product_scan":
        args = ", ".join(f"m{i}, {a}, {b}" for i, (a, b) in enumerate(case[1]))
        return f"inner_product_scan([det], {case[2]}, {args})"
    if entry == "list_scan":
        return "list_scan([det], " + ", ".join(f"m{i}, {l}" for i, l in enumerate(case[1])) + ")"
    if entry == "grid_scan":
        axes, style, sn = case[1], case[2], case[3]
        parts = []
        for i, (a, b, k) in enumerate(axes):
            parts.append(f"m{i}, {a}, {b}, {k}" + (f", {sn[i - 1]}" if style == "old" and i > 0 else ""))
        extra = "" if style == "old" or sn is None else f", snake_axes={[f'm{i}' for i in sn] if isinstance(sn, list) else sn}"
        return f"grid_scan([det], {', '.join(parts)}{extra})"
    if entry == "list_grid_scan":
        sn = case[2]
        return "list_grid_scan([det], " + ", ".join(f"m{i}, {l}" for i, l in enumerate(case[1])) + f", snake_axes={[f'm{i}' for i in sn] if isinstance(sn, list) else sn})"
    if entry == "scan_nd":
        op = " + " if case[1] == "inner" else " * "
        return "scan_nd([det], " + op.join(f"cycler(m{i}, {l})" for i, l in enumerate(case[2])) + ")"
    if entry == "log_scan":
        return f"log_scan([det], m0, {case[1][0]}, {case[1][1]}, {case[2]})"
    return f"x2x_scan([det], m0, m1, {case[1][0]}, {case[1][1]}, {case[2]}) from m0={case[3][0]}, m1={case[3][1]}"


def _plain(x):
    if isinstance(x, tuple):
        return [_plain(i) for i in x]
    if isinstance(x, list):
        return [_plain(i) for i in x]
    return x


def run_item(item):
    violations, states, nontrivial, outcomes, herr = [], set(), set(), {}, []
    n = steps = 0
    sample = None
    for case in item["cases"]:
        case = _plain(case)
        n += 1
        key = hashlib.sha256(repr(case).encode()).hexdigest()[:12]
        states.add(key)
        vs, info = run_case(case)
        if info["harness_error"]:
            herr.append({"case": case, "error": info["harness_error"]})
            continue
        steps += info["steps"]
        if info["nontrivial"]:
            nontrivial.add(key)
        np_ = info["npoints"]
        o = f"{_sigtag(case)}:points={'1' if np_ == 1 else ('2-4' if np_ <= 4 else ('5-16' if np_ <= 16 else '17+'))}" + (":VIOL" if vs else "")
        outcomes[o] = outcomes.get(o, 0) + 1
        violations.extend(vs)
        if sample is None and info["nontrivial"] and case[0] in ("grid_scan", "list_grid_scan"):
            sample = {"case": _show(case), "reference_points": [list(map(float, p)) for p in reference(case)[2][:8]], "outcome": o}
    return {
        "evaluations": n,
        "transitions": steps,
        "states": states,
        "nontrivial": nontrivial,
        "outcomes": outcomes,
        "violations": violations,
        "harness_errors": herr,
        "samples": [sample] if sample else [],
        "extra": {"caps_hit": 0},
    }


def replay(payload):
    return run_case(_plain(payload["case"]))[0]
