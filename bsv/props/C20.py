"""C20 - plan_mutator / msg_mutator with a processor that changes nothing are transparent.

G engine: every program of the grammar up to N nodes x every adaptive driver script up to depth D,
bare generator vs plan_mutator(p, lambda m: (None, None)) vs msg_mutator(p, lambda m: m).
"""

from bsv.explore import genproto as G

ID = "C20"
LEVEL = "model_checking"
ENGINE = "G"
# layers: (nodes, exact?, script depth); the layers of a tier are disjoint sets of programs
LAYERS = {"quick": [(4, False, 4)], "thorough": [(5, False, 6), (6, True, 3)]}
RULE = (
    "G: all plan programs of the grammar {Y fresh Msg, YS same Msg object, YF, Seq, Try(except Exception|BaseException / else / "
    "finally, every arm may yield), Raise, Reraise, Return} with <= N nodes and nesting <= 2 (dead code after a terminal statement pruned; bare raise "
    "only inside except arms) x every adaptive driver script of depth <= D (quick: N=4,D=4; thorough: N<=5,D=6 plus N=6,D=3) over {send(None), send(1), "
    "throw(E1), throw(RequestStop), throw(RequestAbort), throw(PlanHalt), close(); close() before the first send}; oracle: the full "
    "interaction trace (yielded Msg identity+content, terminal StopIteration value / exception type and identity / clean close / "
    "RuntimeError on yield-during-close) and the program's own log of what each yield received are identical for the bare program and "
    "the program wrapped in the no-op plan_mutator / msg_mutator; non-trivial = the script contains a throw or close, or the program "
    "contains a Try"
)
ASSUMPTIONS = [
    "exception __context__/__traceback__ are not part of 'the same exceptions seen and raised'; type, identity and text are",
    "scripts start with send(None) or close(); throw() into a not-yet-started generator is not in the alphabet",
]

WRAPPERS = ("plan_mutator", "msg_mutator")
CHUNK = {"quick": 40, "thorough": 150}


def _progs(layer):
    n, exact, _ = layer
    return G.programs(n, exact=exact)


def describe(tier):
    return {
        "bounds": {
            "layers": [{"program_size": ("=" if ex else "<=") + str(n), "depth": d, "programs": len(_progs((n, ex, d)))} for n, ex, d in LAYERS[tier]],
            "nesting": 2,
            "wrappers": list(WRAPPERS),
        }
    }


def worker_init():
    G.quiet()


def items(tier, seed):
    import bluesky.preprocessors  # noqa: F401 - imported before the pool forks so that workers inherit it

    out = []
    size = CHUNK[tier]
    for li, layer in enumerate(LAYERS[tier]):
        n = len(_progs(layer))
        out.extend({"tier": tier, "layer": li, "lo": lo, "hi": min(n, lo + size)} for lo in range(0, n, size))
    return out


def _wrap(name):
    from bluesky.preprocessors import msg_mutator, plan_mutator

    if name == "plan_mutator":
        return lambda gen: plan_mutator(gen, lambda m: (None, None))
    return lambda gen: msg_mutator(gen, lambda m: m)


def _kind(o):
    k = o.kind()
    if k.endswith(":RuntimeError"):
        k += "(" + "-".join(str(o.steps[-1][3]).split()[:3]) + ")"
    return k


def _halt_seen_as_close(oa, ob):
    """The two logs differ only in that an except arm saw a GeneratorExit where the bare plan saw the thrown PlanHalt."""
    if len(oa.log) != len(ob.log):
        return False
    for x, y in zip(oa.log, ob.log):
        if x != y and not (x[0] == "exc" and y[0] == "exc" and x[1][1] == "PlanHalt" and y[1][1] == "GeneratorExit"):
            return False
    return True


def _signature(wrapper, script, oa, ob):
    last = script[-1]
    lastname = last[0] + (":" + str(last[1]) if len(last) > 1 else "")
    if oa.steps != ob.steps:
        what = "steps"
    else:
        what = "log:halt-seen-as-GeneratorExit" if _halt_seen_as_close(oa, ob) else "log"
    return f"mismatch|{wrapper}|last={lastname}|bare={_kind(oa)}|wrapped={_kind(ob)}|diff={what}"


def _check_program(t, prog, depth, wrappers=WRAPPERS):
    f = G.compile_program(prog)
    nt_prog = G.has(prog, "Try")
    for w in wrappers:
        wrap = _wrap(w)
        res = G.differential(lambda env: f(env), lambda env: wrap(f(env)), depth)
        if res.get("unconfirmed"):
            t.extra["unconfirmed_mismatches"] = t.extra.get("unconfirmed_mismatches", 0) + res["unconfirmed"]
        for script, oa in res["obs"]:
            t.case((prog, w, script), oa.key(), nt_prog or G.script_nontrivial(script), f"{w}:{oa.kind()}", steps=2 * len(script), evaluations=2)
        for script, oa, ob in res["mismatches"]:
            t.violation(
                "wrapped-differs-from-bare",
                f"{w} program={prog!r} script=[{G.script_str(script)}] bare={oa.steps[-1:]!r} log={oa.log[-2:]!r} "
                f"wrapped={ob.steps[-1:]!r} log={ob.log[-2:]!r}",
                _signature(w, script, oa, ob),
                program=G.to_jsonable(prog),
                script=G.to_jsonable(script),
                wrapper=w,
                depth=len(script),
            )


def run_item(item):
    layer = LAYERS[item["tier"]][item["layer"]]
    progs = _progs(layer)
    t = G.Tally()
    for prog in progs[item["lo"] : item["hi"]]:
        _check_program(t, prog, layer[2])
    p0 = progs[item["lo"]]
    t.sample({"program": repr(p0), "source": G.pretty(p0)[:600]})
    return t.result()


def replay(payload):
    prog = G.from_jsonable(payload["program"])
    script = G.from_jsonable(payload["script"])
    G.quiet()
    f = G.compile_program(prog)
    wrap = _wrap(payload["wrapper"])
    oa = G.run_script(lambda env: f(env), script)
    ob = G.run_script(lambda env: wrap(f(env)), script)
    if oa.key() != ob.key():
        return [
            {
                "rule": "wrapped-differs-from-bare",
                "detail": f"{payload['wrapper']} script=[{G.script_str(script)}] bare={oa.steps!r} {oa.log!r} wrapped={ob.steps!r} {ob.log!r}\n{G.pretty(prog)}",
                "signature": _signature(payload["wrapper"], script, oa, ob),
            }
        ]
    return []
