"""C19 - callbacks see every document once, in order, and errors follow policy.

S engine on the real RunEngine.  A case = fresh engine, 1..3 callbacks subscribed with RE.subscribe in a fixed order
(after the harness' own collector, which is the reference stream), each with a filter in {all, event, start+stop} and
optionally raising at the k-th document IT receives (every k up to the number of documents its filter selects from
the undisturbed stream), RE.ignore_callback_exceptions in {False, True}, plan in {count(num=2), two count(num=1) runs}.
"""

import hashlib
import itertools

ID = "C19"
LEVEL = "model_checking"
RULE = (
    "S on the real RunEngine: 1..3 callbacks x filter {all, event, start+stop} x raise-at {never, k-th received document "
    "for every k the filter admits} x ignore_callback_exceptions {False, True} x plan {count(num=2): 5 documents, two "
    "count(num=1) runs: 8 documents}; quick: 1..2 callbacks on both plans and 3 callbacks on count(2); thorough: the whole "
    "product.  Oracle against the first subscriber's stream: every log is the emission-ordered selection of its filter, no "
    "document twice, none missing except (raising policy) for callbacks subscribed after the raiser on the very document "
    "that raised; per document the invocation order is the subscription order; ignore -> RE returns, stream as undisturbed, "
    "all runs success; raise -> RE(...) raises that very exception object, engine idle, no further run is opened, the run "
    "open at the raise has a stop with exit_status 'fail'.  non-trivial = a callback actually raised while another callback "
    "was subscribed to that document kind"
)
ASSUMPTIONS = [
    "callbacks are distinct plain functions subscribed with RE.subscribe after the harness' collector; 'start+stop' = the same function subscribed to 'start' and to 'stop'",
    "don't-care (raising policy): what callbacks subscribed after the raiser see of the very document on which it raised",
    "don't-care: when a callback raises on a RunStop that run is already closed - its exit_status is not judged (RE(...) must still raise that exception and open no further run)",
    "don't-care: with several callbacks actually raising in one call (a later one on the 'fail' stop), RE(...) may raise any of the exceptions actually raised",
    "a callback raises only once (at its k-th document) and keeps logging afterwards",
]

FILTERS = ("all", "event", "startstop")
PLANS = ("count2", "two")
BASE = {
    "count2": ["start", "descriptor", "event", "event", "stop"],
    "two": ["start", "descriptor", "event", "stop", "start", "descriptor", "event", "stop"],
}
CHUNK = 40
MAXV = 3


def _sel(filt, kind):
    if filt == "all":
        return True
    if filt == "event":
        return kind == "event"
    return kind in ("start", "stop")


def _options(plan):
    out = []
    for f in FILTERS:
        n = sum(1 for k in BASE[plan] if _sel(f, k))
        out.append((f, None))
        for k in range(1, n + 1):
            out.append((f, k))
    return out


def _cases(tier):
    cases = []
    for plan in PLANS:
        opts = _options(plan)
        for ncb in (1, 2, 3):
            if tier == "quick" and ncb == 3 and plan != "count2":
                continue
            for cbs in itertools.product(opts, repeat=ncb):
                for ignore in (False, True):
                    cases.append((plan, [list(c) for c in cbs], ignore))
    return cases


def describe(tier):
    return {
        "bounds": {
            "callbacks": "1..3" if tier == "thorough" else "1..2 (both plans), 3 (count2)",
            "filters": list(FILTERS),
            "raise_at": "never or k-th received document, all k",
            "policies": [False, True],
            "plans": list(PLANS),
        },
        "dont_cares": [
            "later callbacks on the very document an earlier one raised on (raising policy)",
            "exit_status of a run whose RunStop is the document raised on",
            "which exception leaves RE(...) when several callbacks actually raised",
        ],
    }


def items(tier, seed):
    cases = _cases(tier)
    return [{"cases": cases[i : i + CHUNK]} for i in range(0, len(cases), CHUNK)]


def _hash(x):
    return hashlib.sha256(repr(x).encode()).hexdigest()[:12]


class Boom(Exception):
    pass


_CLS = None


def _classes():
    global _CLS
    if _CLS is not None:
        return _CLS
    from bsv.harness.devices import FakeDet
    from bsv.harness.session import Scenario, Session

    class Scn(Scenario):
        id = "C19"
        probe = False

        def devices(self, ctx):
            return {"det": FakeDet(ctx, "det", stageable=False)}

    class One(Session):
        def __init__(self, case):
            super().__init__(Scn())
            self.case = case
            self.inv = []  # global invocation log: (callback index, kind, uid)
            self.raised = []  # (callback index, kind, uid, exception object)
            self.rec = None

        def _script(self, RE, Msg, RunEngineInterrupted):
            import bluesky.plans as bp

            plan_kind, cbs, ignore = self.case
            det = self.d["det"]
            inv, raised = self.inv, self.raised
            self.keep = []

            def make(i, k):
                count = [0]

                def cb(name, doc):
                    count[0] += 1
                    inv.append((i, name, doc["uid"]))
                    if k is not None and count[0] == k:
                        e = Boom(f"callback {i} at its document {k} ({name})")
                        raised.append((i, name, doc["uid"], e))
                        raise e

                cb.__name__ = f"cb{i}"
                return cb

            RE.ignore_callback_exceptions = ignore
            for i, (filt, k) in enumerate(cbs):
                cb = make(i, k)
                self.keep.append(cb)
                if filt == "startstop":
                    RE.subscribe(cb, "start")
                    RE.subscribe(cb, "stop")
                else:
                    RE.subscribe(cb, filt)
            if plan_kind == "count2":
                plan = bp.count([det], num=2)
            else:

                def two():
                    yield from bp.count([det], num=1)
                    yield from bp.count([det], num=1)

                plan = two()
            self.rec = self._call("RE", lambda: RE(plan))

    _CLS = One
    return One


def run_case(case):
    """Returns (violations [(rule, shape, detail)], info dict) or raises nothing; harness trouble in info['harness_error']."""
    plan_kind, cbs, ignore = case
    cbs = [tuple(c) for c in cbs]
    One = _classes()
    sess = One((plan_kind, cbs, ignore))
    obs = sess.run()
    info = {"harness_error": None, "nraised": 0, "nontrivial": False, "outcome": "?", "digest": None, "ndocs": 0}
    if obs.outcome != "ok" or sess.rec is None:
        info["harness_error"] = f"session outcome {obs.outcome}: {obs.harness_error}"
        return [], info
    rec = sess.rec
    out = []
    pol = "ignore" if ignore else "raise"

    def v(rule, shape, detail):
        out.append((rule, f"{pol},{shape}", detail))

    R = [(name, doc["uid"], doc) for name, doc in obs.docs]
    keys = [(n, u) for n, u, _ in R]
    pos = {k: i for i, k in enumerate(keys)}
    info["ndocs"] = len(R)
    if len(pos) != len(keys):
        info["harness_error"] = "reference stream repeats a (kind, uid)"
        return [], info
    raised = sess.raised
    info["nraised"] = len(raised)
    raise_at = {}  # doc key -> index of the callback that raised on it (first one in subscription order)
    for i, n, u, _e in raised:
        raise_at.setdefault((n, u), i)
    first_raise_pos = min((pos[(n, u)] for i, n, u, _e in raised if (n, u) in pos), default=None)
    # ---- per callback: selection, order, multiplicity
    for i, (filt, k) in enumerate(cbs):
        log = [(n, u) for j, n, u in sess.inv if j == i]
        foreign = [x for x in log if x not in pos]
        if foreign:
            v("foreign-document", f"filter={filt}", f"callback {i} got {foreign[:2]} which the first subscriber never saw")
        log = [x for x in log if x in pos]
        cnt = {}
        for x in log:
            cnt[x] = cnt.get(x, 0) + 1
        for x, c in cnt.items():
            if not _sel(filt, x[0]):
                v("unsubscribed-kind", f"filter={filt},kind={x[0]}", f"callback {i} ({filt}) got a {x[0]}")
            if c > 1:
                v("duplicate-document", f"filter={filt},kind={x[0]}", f"callback {i} got {x[0]} {c} times")
        if [pos[x] for x in log] != sorted(pos[x] for x in log):
            v("out-of-order", f"filter={filt}", f"callback {i} log {[x[0] for x in log]} is not in emission order")
        for x in keys:
            if not _sel(filt, x[0]) or x in cnt:
                continue
            if not ignore and x in raise_at and raise_at[x] < i:
                continue  # don't-care: an earlier callback raised on this very document
            if first_raise_pos is None:
                when = "no-raise"
            elif pos[x] < first_raise_pos:
                when = "before-first-raise"
            elif pos[x] == first_raise_pos:
                when = "raise-doc,cb-" + ("is-raiser" if raise_at.get(x) == i else "before-raiser" if raise_at.get(x, -1) > i else "after-raiser")
            else:
                when = "after-first-raise"
            v("missed-document", f"filter={filt},kind={x[0]},when={when}", f"callback {i} ({filt}) never got {x[0]} #{pos[x]} of the stream {[n for n, _ in keys]}")
    # ---- per document: invocation order = subscription order
    per_doc = {}
    for j, n, u in sess.inv:
        per_doc.setdefault((n, u), []).append(j)
    for x, order in per_doc.items():
        if order != sorted(order):
            v("invocation-order", f"kind={x[0]},ncb={len(cbs)}", f"{x[0]} #{pos.get(x)} was delivered to callbacks in order {order}, subscription order is {sorted(order)}")
    # the collector is subscribed first: every invocation must come after the collector saw the document - implied by pos lookups
    # ---- outcome
    kinds = [n for n, _ in keys]
    stops = {d["run_start"]: d for n, u, d in R if n == "stop"}
    starts = [d for n, u, d in R if n == "start"]
    if ignore or not raised:
        info["outcome"] = "completed"
        if (rec["outcome"], rec["state_after"]) != ("return", "idle"):
            v("plan-not-completed", f"raised={min(len(raised), 2)}", f"RE(...) {rec['outcome']} {type(rec['exc']).__name__}: {rec['exc']}, state {rec['state_after']}")
            info["outcome"] = "V-not-completed"
        if kinds != BASE[plan_kind]:
            v("stream-disturbed", f"raised={min(len(raised), 2)}", f"stream {kinds}, undisturbed {BASE[plan_kind]}")
        for s in starts:
            st = stops.get(s["uid"])
            if st is None or st.get("exit_status") != "success":
                v("run-not-success", f"raised={min(len(raised), 2)}", f"run {s['uid'][:8]} stop {None if st is None else st.get('exit_status')}")
    else:
        fi, fn, fu, fe = raised[0]
        info["outcome"] = f"raised-on-{fn}" + ("-multi" if len(raised) > 1 else "")
        if rec["outcome"] != "raise":
            v("exception-swallowed", f"on={fn}", f"callback {fi} raised {fe!r} on {fn} but RE(...) returned {rec['value']!r}")
        elif len(raised) == 1 and rec["exc"] is not fe:
            v("wrong-exception", f"on={fn}", f"RE(...) raised {rec['exc']!r}, the callback raised {fe!r}")
        elif len(raised) > 1 and not any(rec["exc"] is e for _i, _n, _u, e in raised):
            v("wrong-exception", f"on={fn},multi", f"RE(...) raised {rec['exc']!r}, callbacks raised {[repr(e) for _i, _n, _u, e in raised]}")
        if rec["state_after"] != "idle":
            v("not-idle", f"on={fn}", f"state {rec['state_after']} after the call")
        if (fn, fu) not in pos:
            # the raiser was called before the first subscriber: already an invocation-order violation
            v("raised-before-first-subscriber", f"on={fn}", f"callback {fi} raised on a {fn} the first subscriber (subscribed earlier) never received")
            info["digest"] = _hash((kinds, [(j, n) for j, n, _u in sess.inv], rec["outcome"], "early"))
            return out, info
        p0 = pos[(fn, fu)]
        later_starts = [i for i, (n, _) in enumerate(keys) if n == "start" and i > p0]
        if later_starts:
            v("plan-continued-after-raise", f"on={fn}", f"a run was opened at stream position {later_starts[0]} after the raise at {p0}: {kinds}")
        # the run that was open when the callback raised
        d0 = R[p0][2]
        run_uid = d0["uid"] if fn == "start" else d0.get("run_start")
        if fn == "descriptor":
            run_uid = d0["run_start"]
        elif fn == "event":
            desc = {d["uid"]: d for n, u, d in R if n == "descriptor"}
            run_uid = desc[d0["descriptor"]]["run_start"]
        if fn != "stop":
            st = stops.get(run_uid)
            if st is None:
                v("run-not-closed", f"on={fn}", f"run {run_uid[:8]} has no stop document: {kinds}")
            elif st.get("exit_status") != "fail":
                v("run-not-failed", f"on={fn}", f"run {run_uid[:8]} stop says {st.get('exit_status')!r}")
        # every opened run is closed
        for s in starts:
            if s["uid"] not in stops:
                v("run-not-closed", f"on={fn},any", f"run {s['uid'][:8]} has no stop document: {kinds}")
    # non-triviality: somebody raised while another callback selects that kind
    for i, n, u, _e in raised:
        if any(j != i and _sel(f, n) for j, (f, _k) in enumerate(cbs)):
            info["nontrivial"] = True
    info["digest"] = _hash((kinds, [(j, n) for j, n, _u in sess.inv], rec["outcome"], [st.get("exit_status") for st in stops.values()]))
    return out, info


def run_item(item):
    res = {
        "evaluations": 0,
        "transitions": 0,
        "states": set(),
        "nontrivial": set(),
        "outcomes": {},
        "violations": [],
        "harness_errors": [],
        "samples": [],
        "extra": {"caps_hit": 0, "callbacks_raised": 0},
    }
    per_sig = {}
    for case in item["cases"]:
        plan_kind, cbs, ignore = case
        vs, info = run_case(case)
        res["evaluations"] += 1
        if info["harness_error"]:
            res["harness_errors"].append({"case": case, "error": info["harness_error"]})
            continue
        res["transitions"] += max(1, info["ndocs"])  # documents pushed through the dispatcher
        res["extra"]["callbacks_raised"] += info["nraised"]
        res["states"].add(info["digest"])
        if info["nontrivial"]:
            res["nontrivial"].add(_hash(case))
        oc = f"{plan_kind}/{'ignore' if ignore else 'raise'}/{info['outcome']}/ncb={len(cbs)}" + ("/V" if vs else "")
        res["outcomes"][oc] = res["outcomes"].get(oc, 0) + 1
        for rule, shape, detail in vs:
            sig = f"{rule}|{shape}"
            n = per_sig.get(sig, 0)
            per_sig[sig] = n + 1
            if n < MAXV:
                res["violations"].append({"rule": rule, "detail": f"plan={plan_kind} callbacks={cbs} ignore={ignore}: {detail}", "signature": sig, "case": [plan_kind, [list(c) for c in cbs], ignore]})
        if info["nontrivial"] and len(res["samples"]) < 1:
            res["samples"].append({"plan": plan_kind, "callbacks(filter, raise_at)": cbs, "ignore": ignore, "outcome": info["outcome"], "documents": info["ndocs"]})
    return res


def replay(payload):
    plan_kind, cbs, ignore = payload["case"]
    vs, info = run_case((plan_kind, cbs, ignore))
    if info["harness_error"]:
        return [{"rule": "harness-error", "detail": info["harness_error"], "signature": "harness-error"}]
    return [{"rule": rule, "detail": detail, "signature": f"{rule}|{shape}"} for rule, shape, detail in vs]
