"""C13 - each yield receives the response to its own message."""

from bsv.oracles import engine
from bsv.props import _x1
from bsv.props._x1 import spec

ID = "C13"
LEVEL = "model_checking"
RULE = (
    "X1: an instrumented top-level plan logs (message, response) at every yield of corpus bodies that use the responses of every "
    "command kind (open_run, read, set, trigger, wait, stage, subscribe, collect, close_run, configure, ...), bare, under "
    "RE.preprocessors = [no-op plan_mutator, no-op msg_mutator, SupplementalData] (scenario params pp=1), and under pause->resume / "
    "suspension (with pre/post plans) at every loop position, sync and async devices. Expected response computed by the harness from "
    "what the devices returned and the documents emitted: the next RunStart uid for open_run, the very reading object for read, the very "
    "status object for set/trigger/kickoff/complete, True for wait, the token for subscribe, the RunStart uid for close_run, None "
    "for null/checkpoint/create/save/sleep. RE(...) returns the uids of the RunStart documents of the call in order; with "
    "call_returns_result=True plan_result is the plan's return value and exit_status 'success'; "
    "non-trivial = behaviour digest differs from the reference run"
)
ASSUMPTIONS = _x1.X1_ASSUMPTIONS + ["responses of commands not listed in RULE are not judged"]

MENU = [("pause",), ("suspend", "none"), ("suspend", "both")]
_q = ["resp", "count2", "scan2", "nested", "fly1"]
SPECS = {
    "quick": [spec(k, MENU, bound=1, ly=1) for k in _q] + [spec("resp", MENU, bound=1, ly=1, pp=1), spec("resp", MENU, bound=1, ly=1, rr=1), spec("count2", MENU, bound=1, ly=1, pp=1), spec("stubbed", MENU, bound=1), spec("tiny", MENU, bound=2, ly=1)],
    "thorough": [spec(k, MENU, bound=1, ly=1, a=a, pp=pp, rr=rr) for k in _q + ["grid22s", "tworuns", "cleanup", "flyonly"] for a in (0, 1) for pp in (0, 1) for rr in (0, 1)]
    + [spec(k, MENU, bound=2, ly=1) for k in ("resp", "tiny")],
}

NONE_CMDS = {"null", "checkpoint", "create", "save", "drop", "sleep", "clear_checkpoint", "monitor", "unmonitor", "unsubscribe"}
STATUS_CMDS = {"set", "trigger", "kickoff", "complete"}


def _expected(obs, k_msg, m, i_msg, i_next):
    """('is'|'eq'|'type', value) or None when the response of this command is not judged."""
    tl = obs.timeline
    results = obs.extra.get("results", {})
    seg = tl[i_msg:i_next]
    if m.command in NONE_CMDS:
        return ("eq", None)
    if m.command == "open_run":
        uid = next((obs.docs[t[1]][1]["uid"] for t in seg if t[0] == "doc" and t[2] == "start"), None)
        return ("eq", uid) if uid is not None else None
    if m.command == "close_run":
        rs = next((obs.docs[t[1]][1]["run_start"] for t in seg if t[0] == "doc" and t[2] == "stop"), None)
        return ("eq", rs) if rs is not None else None
    if m.command in STATUS_CMDS or m.command == "read":
        op = next((t[4] for t in seg if t[0] == "dev" and t[2] == m.command and t[1] == getattr(m.obj, "name", None)), None)
        if op is None or op not in results:
            return None
        return ("is", results[op])
    if m.command == "wait":
        return ("eq", True)
    if m.command in ("stage", "unstage"):
        if hasattr(m.obj, m.command):
            return ("eq", [m.obj])
        return ("eq", [])
    if m.command == "subscribe":
        return ("type", int)
    if m.command == "rewindable":
        return ("type", bool)
    return None


def oracle(scn, obs, ref, schedule):
    from bluesky.utils import RunEngineInterrupted

    out = []
    if obs.outcome != "ok":
        return out
    if schedule.get("faults") or engine.schedule_has(schedule, engine.TERMINATORS):
        return out
    tl = obs.timeline
    ylog = obs.extra.get("ylog", [])
    # timeline index of every hooked message, by identity (first occurrence: replays re-hook the same object)
    first_idx = {}
    all_idx = {}
    for i, t in enumerate(tl):
        if t[0] == "msg":
            mm = obs.msgs[t[1]]
            first_idx.setdefault(id(mm), i)
            all_idx.setdefault(id(mm), []).append(i)
    inter_idx = [i for i, t in enumerate(tl) if t[0] == "state" and t[1] in ("pausing", "suspending")]
    msg_positions = [i for i, t in enumerate(tl) if t[0] == "msg"]
    for k, m, kind, value in ylog:
        if kind != "resp":
            continue
        if id(m) not in first_idx:
            # the engine never saw this message: a wrapper dropped it (stub_wrapper) - there is no response to it,
            # so the yield must receive None and certainly not the response to some other message
            if scn.id == "stubbed" and value is not None:
                out.append((f"dropped-message-got-a-response:{m.command}", f"yield {k} ({m.command}) was dropped by stub_wrapper but received {_short(value)}"))
            continue  # (under other preprocessors the engine may see a different object: not judged)
        # the execution whose response the plan finally received: the last time this object was hooked
        i_msg = all_idx[id(m)][-1]
        i_next = next((j for j in msg_positions if j > i_msg), len(tl))
        exp = _expected(obs, k, m, i_msg, i_next)
        if exp is None:
            # fall back to the first execution (e.g. the replayed one produced no new document)
            i0 = first_idx[id(m)]
            exp = _expected(obs, k, m, i0, next((j for j in msg_positions if j > i0), len(tl)))
            if exp is None:
                continue
        how, want = exp
        ok = (value is want) if how == "is" else (isinstance(value, want) if how == "type" else value == want)
        if not ok and how == "is":
            # the response of the FIRST execution is also the response to this message
            i0 = first_idx[id(m)]
            e0 = _expected(obs, k, m, i0, next((j for j in msg_positions if j > i0), len(tl)))
            ok = e0 is not None and value is e0[1]
        if ok:
            continue
        interrupted = any(first_idx[id(m)] < j for j in inter_idx) and len(all_idx[id(m)]) > 1 or any(
            first_idx[id(m)] < j < next((x for x in msg_positions if x > first_idx[id(m)]), len(tl)) for j in inter_idx
        )
        # was the engine INSIDE the command (awaiting its coroutine) when the interruption took effect, or between two
        # messages (the command had completed and its response was already on the response stack)?
        i0 = first_idx[id(m)]
        nx = next((x for x in msg_positions if x > i0), len(tl))
        inside = [tl[j][4] if len(tl[j]) > 4 else None for j in inter_idx if i0 < j < nx]
        between = bool(inside) and all(a in (None, "", "sleep", "running") for a in inside)
        if value is None and interrupted and between:
            out.append((f"completed-response-lost:{m.command}", f"yield {k} ({m.command}) had completed (response {_short(want)} ready) when the interruption took effect between two messages; after the rewind the plan received None"))
        elif value is None and interrupted:
            out.append((f"response-lost-after-rewind:{m.command}", f"yield {k} ({m.command}) was in flight when the plan was interrupted; after the rewind it received None instead of {_short(want)}"))
        else:
            out.append((f"wrong-response:{m.command}", f"yield {k} ({m.command}) received {_short(value)}, expected {how} {_short(want)}"))
    # what the calls returned
    spans = engine.call_spans(obs)
    chain_uids = []
    for c, s, r in spans:
        if c["name"] == "probe" or r is None:
            break
        if c["name"] == "RE":
            chain_uids = []
        chain_uids += [obs.docs[t[1]][1]["uid"] for t in tl[s:r] if t[0] == "doc" and t[2] == "start"]
        if c["name"] in ("RE", "resume") and c["exc"] is None:
            v = c["value"]
            if scn.params.get("rr"):
                if list(getattr(v, "run_start_uids", ())) != chain_uids:
                    out.append(("result-uids", f"{c['name']}() result uids {getattr(v, 'run_start_uids', None)} != emitted {chain_uids}"))
                if getattr(v, "exit_status", None) != "success":
                    out.append(("result-exit-status", f"{c['name']}() result exit_status {getattr(v, 'exit_status', None)!r} after normal completion"))
                if any(t[0] == "plan_end" and t[1] == "returned" for t in tl[:r]) and r is not None:
                    pr = obs.extra.get("plan_return")
                    got = getattr(v, "plan_result", None)
                    late = any(t[0] == "state" and len(t) > 3 and t[3] == "ending" for t in tl[s:r])
                    if got != pr and not late:
                        out.append(("result-plan-return", f"{c['name']}() plan_result {_short(got)} != the plan's return value {_short(pr)}"))
            else:
                if list(v) != chain_uids:
                    out.append(("returned-uids", f"{c['name']}() returned {v} != emitted RunStart uids {chain_uids}"))
    return out


def _short(x):
    s = repr(x)
    return s if len(s) < 80 else s[:77] + "..."


items, run_item, replay, describe = _x1.bind(SPECS, oracle)
