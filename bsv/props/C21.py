"""C21 - plan_mutator inserts head/tail messages exactly as documented.

G engine: host programs x processors (keyed on a host message tag) x adaptive driver scripts; the real
plan_mutator against a reference interpreter of the contract in the property statement.
"""

from bsv.explore import genproto as G

ID = "C21"
LEVEL = "model_checking"
ENGINE = "G"
# layers (host nodes, exactly?, script depth); the layers of a tier are disjoint in the host program
BOUNDS = {"quick": [(3, False, 4), (4, True, 3)], "thorough": [(4, False, 6), (5, True, 4)]}
HOST_LEAVES = (("Y",), ("Raise", 2), ("Reraise",), ("Ret", 7))
HEADS = (None, "m", "hm", "h", "clone", "raise0", "h-raise", "hm-log")
TAILS = (None, "t", "tt", "raise0", "t-raise")
ACTIONS = (G.SEND_NONE, G.SEND_1, G.THROW_E1, G.THROW_STOP)
PROC_CALL_CAP = 40
RULE = (
    "G: host programs of the grammar {Y fresh Msg, YF, Seq, Try(except Exception/else/finally), Raise, Reraise, Return} with <= N nodes "
    "x processors keyed on one host message tag (each yield site, or every site) returning head in {None, [m], "
    "[h,m], [h] replacement, [fresh copy of m], raises at once, [h] then raises, [h,m] logging its responses} and tail in {None, [t], "
    "[t1,t2], raises at once, [t] then raises} x every adaptive driver script of depth <= D (quick: N<=3,D=4 plus N=4,D=3; thorough: N<=4,D=6 plus N=5,D=4) over {send(None), "
    "send(1), throw(E1), throw(RequestStop)}; oracle: a reference interpreter of the stated contract (host receives the response to "
    "head's last message; tail runs right after head, responses swallowed; an exception while head/tail run reaches the host at its "
    "original yield; the processor is called on host messages only) - compared on the driver trace + host/head logs (rule trace) and "
    "on the processor's call log (rule reprocessed); non-trivial = the processor inserted something and the script reached the target"
)
ASSUMPTIONS = [
    "close()/PlanHalt on inserted plans are not covered by the C21 statement and are left to C20; the driver alphabet here has no close",
    "the host yields a fresh Msg object at every yield (plan_mutator's id(msg) memo for re-yielded objects is not part of the statement)",
    "heads and tails do not catch exceptions thrown into them; an empty head is not in the family (the statement does not define it)",
]


def describe(tier):
    return {
        "bounds": {
            "layers": [{"program_size": ("=" if ex else "<=") + str(n), "depth": d, "hosts": len(_hosts(n, ex))} for n, ex, d in BOUNDS[tier]],
            "heads": [str(h) for h in HEADS],
            "tails": [str(x) for x in TAILS],
        }
    }


def worker_init():
    G.quiet()


def _hosts(n, exact=False):
    return [p for p in G.programs(n, leaves=HOST_LEAVES, catch=("E",), exact=exact) if G.has(p, "Y")]


def _ntags(prog):
    return sum(1 for x in G.walk(prog) if x[0] == "Y")


def items(tier, seed):
    import bluesky.preprocessors  # noqa: F401

    out = []
    for li, (n, ex, _d) in enumerate(BOUNDS[tier]):
        total = len(_hosts(n, ex))
        size = 4 if tier == "quick" else 6
        out.extend({"tier": tier, "layer": li, "lo": lo, "hi": min(total, lo + size)} for lo in range(0, total, size))
    return out


class ProcessorLoop(Exception):
    pass


def _processor(env, target, head_kind, tail_kind):
    """msg_proc keyed on the message tag; inserted messages (tags h, t, t2) never match."""
    calls = env.aux.setdefault("proc", [])

    def head(msg):
        if head_kind == "raise0":
            raise env.new_exc(3)
        if head_kind in ("hm", "h", "h-raise", "hm-log"):
            r = yield env.mk("h")
            if head_kind == "hm-log":
                env.rec("h<", env.canon(r))
            if head_kind == "h-raise":
                raise env.new_exc(3)
        if head_kind in ("m", "hm", "hm-log"):
            r = yield msg
            if head_kind == "hm-log":
                env.rec("m<", env.canon(r))
        if head_kind == "clone":
            yield env.mk(msg.command + "'", msg.command)
        return "head-return-value"

    def tail():
        if tail_kind == "raise0":
            raise env.new_exc(3)
        yield env.mk("t")
        if tail_kind == "t-raise":
            raise env.new_exc(3)
        if tail_kind == "tt":
            yield env.mk("t2")
        return "tail-return-value"

    def proc(msg):
        calls.append(env.label(msg).split(":", 1)[1])
        if len(calls) > PROC_CALL_CAP:
            raise ProcessorLoop(f"processor called more than {PROC_CALL_CAP} times")
        if msg.command == target or (target == "*" and msg.command.startswith("a")):
            return (head(msg) if head_kind is not None else None), (tail() if tail_kind is not None else None)
        return None, None

    return proc


# ---- reference interpreter of the documented contract ---------------------------------------


def _one(msg):
    return (yield msg)


def _last_response(gen):
    last = None
    try:
        m = gen.send(None)
    except StopIteration:
        return None
    while True:
        try:
            last = yield m
        except Exception as e:  # noqa: BLE001
            try:
                m = gen.throw(e)
            except StopIteration:
                return last
        else:
            try:
                m = gen.send(last)
            except StopIteration:
                return last


def ref_plan_mutator(plan, proc):
    try:
        msg = plan.send(None)
    except StopIteration as e:
        return e.value
    while True:
        head, tail = proc(msg)  # host messages only
        err = None
        resp = None
        if head is None and tail is None:
            try:
                resp = yield msg
            except Exception as e:  # noqa: BLE001
                err = e
        else:
            if head is None:
                head = _one(msg)
            try:
                resp = yield from _last_response(head)  # the host gets the response to head's LAST message
                if tail is not None:
                    yield from tail  # immediately after; responses stay inside tail
            except Exception as e:  # noqa: BLE001 - reaches the host at its original yield
                err = e
        try:
            msg = plan.throw(err) if err is not None else plan.send(resp)
        except StopIteration as e:
            return e.value


# ---------------------------------------------------------------------------------------------


def _factories(prog, target, hk, tk):
    from bluesky.preprocessors import plan_mutator

    f = G.compile_program(prog)
    return (
        lambda env: ref_plan_mutator(f(env), _processor(env, target, hk, tk)),
        lambda env: plan_mutator(f(env), _processor(env, target, hk, tk)),
    )


def _lastname(script):
    last = script[-1]
    return last[0] + (":" + str(last[1]) if len(last) > 1 else "")


def _judge(prog, target, hk, tk, script, oref, oimp):
    """-> list of (rule, signature, detail)."""
    out = []
    cfg = f"head={hk}|tail={tk}"
    if oref.key() != oimp.key():
        what = "steps" if oref.steps != oimp.steps else "log"
        out.append(
            (
                "trace",
                f"trace|plan_mutator|{cfg}|last={_lastname(script)}|ref={oref.kind()}|impl={oimp.kind()}|diff={what}",
                f"ref={oref.steps[-2:]!r} log={oref.log[-3:]!r} impl={oimp.steps[-2:]!r} log={oimp.log[-3:]!r}",
            )
        )
    pr, pi = oref.aux.get("proc", ()), oimp.aux.get("proc", ())
    if pr != pi:
        extra = sorted({c.rstrip("'") if c.startswith("a") else c for c in pi if c not in pr or pi.count(c) != pr.count(c)})
        kinds = sorted({"host-copy" if c.endswith("'") else ("head-msg" if c == "h" else "tail-msg" if c in ("t", "t2") else "host-msg") for c in pi if pi.count(c) != pr.count(c)})
        out.append(("reprocessed", f"reprocessed|plan_mutator|called-on={'+'.join(kinds)}", f"processor calls: contract={list(pr)} impl={list(pi)} (extra: {extra})"))
    return out


def _check(t, prog, target, hk, tk, depth):
    fa, fb = _factories(prog, target, hk, tk)
    inserted = hk is not None or tk is not None
    # differential on the trace; the processor call log is compared on every script as well
    stack = [()]
    while stack:
        script = stack.pop()
        if len(script) >= depth:
            continue
        for a in (G.SEND_NONE,) if not script else ACTIONS:
            s = script + (a,)
            oref = G.run_script(fa, s)
            oimp = G.run_script(fb, s)
            reached = any(c == target or (target == "*") for c in oref.aux.get("proc", ()))
            t.case((prog, target, hk, tk, s), oref.key(), inserted and reached, f"{oref.kind()}", steps=2 * len(s), evaluations=2)
            vs = _judge(prog, target, hk, tk, s, oref, oimp)
            if any(v[0] == "trace" for v in vs):
                # every trace violation is re-executed before it is reported (the call-log rule is deterministic by construction)
                again = {v[1] for v in _judge(prog, target, hk, tk, s, G.run_script(fa, s), G.run_script(fb, s))}
                if {v[1] for v in vs} != again:
                    t.extra["unconfirmed_mismatches"] = t.extra.get("unconfirmed_mismatches", 0) + 1
                    vs = [v for v in vs if v[1] in again]
            for rule, sig, detail in vs:
                t.violation(
                    rule,
                    f"host={prog!r} target={target} head={hk} tail={tk} script=[{G.script_str(s)}] {detail}",
                    sig,
                    program=G.to_jsonable(prog),
                    target=target,
                    head=hk,
                    tail=tk,
                    script=G.to_jsonable(s),
                )
            if any(v[0] == "trace" for v in vs):
                continue  # reported at its shortest script
            if oref.alive:
                stack.append(s)


def _configs(prog):
    n = _ntags(prog)
    targets = [f"a{i}" for i in range(n)] + (["*"] if n > 1 else [])
    for target in targets:
        for hk in HEADS:
            for tk in TAILS:
                yield target, hk, tk


def run_item(item):
    n, ex, d = BOUNDS[item["tier"]][item["layer"]]
    hosts = _hosts(n, ex)
    t = G.Tally()
    for prog in hosts[item["lo"] : item["hi"]]:
        for target, hk, tk in _configs(prog):
            _check(t, prog, target, hk, tk, d)
    t.sample({"host": repr(hosts[item["lo"]]), "source": G.pretty(hosts[item["lo"]])[:500]})
    return t.result()


def replay(payload):
    G.quiet()
    prog = G.from_jsonable(payload["program"])
    script = G.from_jsonable(payload["script"])
    fa, fb = _factories(prog, payload["target"], payload["head"], payload["tail"])
    oref, oimp = G.run_script(fa, script), G.run_script(fb, script)
    return [
        {"rule": r, "signature": s, "detail": f"{d}\nfull: ref={oref.steps!r} {oref.log!r} {oref.aux!r}\n impl={oimp.steps!r} {oimp.log!r} {oimp.aux!r}\n{G.pretty(prog)}"}
        for r, s, d in _judge(prog, payload["target"], payload["head"], payload["tail"], script, oref, oimp)
    ]
