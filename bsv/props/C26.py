"""C26 - snaked grids are a continuous back-and-forth ordering of the full grid.

S engine: every axis count / length vector / snake vector up to the bound, through
snake_cyclers, outer_product and outer_list_product, against an independent reference
(mixed-radix digits with per-axis reversal on odd traversals).
"""

import hashlib
import itertools

ID = "C26"
LEVEL = "model_checking"
RULE = (
    "S: all axis counts 1..4, all length vectors (1..3 per axis; 1..4 for <=3 axes), all snake vectors, "
    "x 3 entry points (snake_cyclers, outer_product, outer_list_product); thorough adds every ordering of lengths {2,3,5} "
    "and 5 axes of length 1..2; non-trivial = at least one snaked axis (beyond the first) of length >= 2 with a slower axis of length >= 2"
)
ASSUMPTIONS = [
    "positions are distinct integers/floats per axis so that a point identifies its index vector",
    "the statement's 'random larger cases' are sampling and are replaced by deterministic larger cases (DESIGN.md C26)",
]


def describe(tier):
    return {"bounds": {"axes": "1..4 (5 in thorough with lengths<=2)", "lengths": "1..3 (1..4 for <=3 axes)", "snake_vectors": "all", "entry_points": 3}}


def _cases(tier):
    cases = []
    for n in (1, 2, 3, 4):
        maxlen = 4 if n <= 3 else 3
        for lengths in itertools.product(range(1, maxlen + 1), repeat=n):
            for snakes in itertools.product((False, True), repeat=n):
                cases.append((lengths, snakes))
    if tier == "thorough":
        for lengths in itertools.permutations((2, 3, 5)):
            for snakes in itertools.product((False, True), repeat=3):
                cases.append((lengths, snakes))
        for lengths in itertools.product((1, 2), repeat=5):
            for snakes in itertools.product((False, True), repeat=5):
                cases.append((lengths, snakes))
        for lengths in itertools.permutations((2, 3, 4, 5)):
            for snakes in itertools.product((False, True), repeat=4):
                cases.append((lengths, snakes))
    return cases


def items(tier, seed):
    cases = _cases(tier)
    size = 400
    return [{"cases": cases[i : i + size]} for i in range(0, len(cases), size)]


def reference(lengths, snakes):
    """Index vectors of the documented trajectory, written without tile/repeat."""
    n = len(lengths)
    total = 1
    for L in lengths:
        total *= L
    reps = [1] * n
    for i in range(n - 2, -1, -1):
        reps[i] = reps[i + 1] * lengths[i + 1]
    out = []
    for t in range(total):
        idx = []
        for i in range(n):
            d = (t // reps[i]) % lengths[i]
            q = t // (reps[i] * lengths[i])  # how many complete traversals of axis i so far
            if snakes[i] and i > 0 and q % 2 == 1:
                d = lengths[i] - 1 - d
            idx.append(d)
        out.append(tuple(idx))
    return out


class _M:
    def __init__(self, name):
        self.name = name

    def __repr__(self):
        return self.name

    def __hash__(self):
        return hash(self.name)

    def __eq__(self, o):
        return self is o

    def set(self, v):  # Movable + Readable: what classify_outer_product_args_pattern looks for
        raise NotImplementedError

    def read(self):
        raise NotImplementedError

    def describe(self):
        raise NotImplementedError

    parent = None


def _check_structure(traj, lengths, snakes):
    """The statement itself, evaluated on the produced index trajectory (independent of `reference`)."""
    out = []
    n = len(lengths)
    full = set(itertools.product(*[range(L) for L in lengths]))
    if len(traj) != len(full) or set(traj) != full:
        out.append(("not-a-permutation", f"{len(traj)} points, {len(set(traj))} distinct, grid has {len(full)}"))
        return out
    eff = [snakes[i] and i > 0 for i in range(n)]
    if not any(eff):
        if traj != sorted(full):
            out.append(("unsnaked-order", "no axis snaked but order is not the plain product order"))
    for a, b in zip(traj, traj[1:]):
        changed = [i for i in range(n) if a[i] != b[i]]
        # the slowest axis that changed advances; snaked faster axes must stay where they are
        s = changed[0]
        for i in changed[1:]:
            if eff[i]:
                out.append(("snaked-axis-jumped", f"{a}->{b}: snaked axis {i} moved together with slower axis {s}"))
                return out
            if b[i] != 0:
                out.append(("unsnaked-axis-not-reset", f"{a}->{b}: axis {i}"))
                return out
        if eff[s] and abs(a[s] - b[s]) != 1:
            out.append(("snaked-axis-step", f"{a}->{b}: axis {s} stepped by {b[s] - a[s]}"))
            return out
        if not eff[s] and b[s] - a[s] != 1:
            out.append(("unsnaked-axis-step", f"{a}->{b}: axis {s} stepped by {b[s] - a[s]}"))
            return out
    return out


def _traj_from_cycler(cyc, motors, values):
    pts = list(cyc)
    traj = []
    for p in pts:
        traj.append(tuple(values[i].index(p[m]) for i, m in enumerate(motors)))
    return traj


def run_case(lengths, snakes):
    from cycler import cycler

    from bluesky import plan_patterns as pp
    from bluesky.utils import snake_cyclers

    n = len(lengths)
    motors = [_M(f"m{i}") for i in range(n)]
    values = [[float(10 * i + k) for k in range(L)] for i, L in enumerate(lengths)]
    ref = reference(lengths, snakes)
    res = []

    def judge(entry, traj):
        vs = _check_structure(traj, lengths, snakes)
        if not vs and traj != ref:
            vs = [("differs-from-reference", f"first difference at point {next(i for i, (x, y) in enumerate(zip(traj, ref)) if x != y)}")]
        for rule, detail in vs:
            res.append(
                {
                    "rule": rule,
                    "detail": f"{entry} lengths={lengths} snakes={snakes}: {detail}",
                    "signature": f"{rule}|{entry}|n={n}",
                    "case": {"lengths": list(lengths), "snakes": list(snakes), "entry": entry},
                }
            )

    # 1. snake_cyclers
    cyc = snake_cyclers([cycler(m, v) for m, v in zip(motors, values)], list(snakes))
    judge("snake_cyclers", _traj_from_cycler(cyc, motors, values))
    # 2. outer_list_product with the list form of snake_axes (axis 0 can be named too; it must not matter)
    args = []
    for m, v in zip(motors, values):
        args += [m, v]
    snake_axes = [m for m, s in zip(motors, snakes) if s]
    cyc = pp.outer_list_product(args, snake_axes if snake_axes else False)
    judge("outer_list_product", _traj_from_cycler(cyc, motors, values))
    # 3. outer_product (pattern 2 needs >= 2 axes; linspace positions)
    if n >= 2:
        a = [motors[0], values[0][0], values[0][-1], lengths[0]]
        for i in range(1, n):
            a += [motors[i], values[i][0], values[i][-1], lengths[i], bool(snakes[i])]
        cyc = pp.outer_product(a)
        import numpy as np

        lin = [list(np.linspace(values[i][0], values[i][-1], lengths[i])) for i in range(n)]
        pts = list(cyc)
        traj = [tuple(min(range(lengths[i]), key=lambda k: abs(lin[i][k] - p[motors[i]])) for i in range(n)) for p in pts]
        judge("outer_product", traj)
    return res


def _nontrivial(lengths, snakes):
    return any(snakes[i] and lengths[i] >= 2 and any(L >= 2 for L in lengths[:i]) for i in range(1, len(lengths)))


def run_item(item):
    violations, nontrivial, states = [], set(), set()
    n = 0
    for lengths, snakes in item["cases"]:
        n += 1
        key = hashlib.sha256(repr((lengths, snakes)).encode()).hexdigest()[:12]
        states.add(key)
        if _nontrivial(lengths, snakes):
            nontrivial.add(key)
        violations.extend(run_case(tuple(lengths), tuple(snakes)))
    return {
        "evaluations": n * 3,
        "transitions": n * 3,
        "states": states,
        "nontrivial": nontrivial,
        "violations": violations,
        "samples": [{"lengths": list(item["cases"][0][0]), "snakes": list(item["cases"][0][1]), "reference_trajectory": reference(*item["cases"][0])[:8]}],
        "outcomes": {"ok": n},
    }


def replay(payload):
    c = payload["case"]
    return run_case(tuple(c["lengths"]), tuple(c["snakes"]))
