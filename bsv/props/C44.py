"""C44 - PeakStats describes the data it was given.

S engine over the inputs of a (numerically) pure computation: every x grid / y vector / edge_count of the
bound is turned into a synthetic start / descriptor / events / stop document stream, sent through a fresh
real ``PeakStats`` and the documented attributes (max, min, com, cen, crossings, fwhm) are judged against
the statement with a pure-Python reference (no numpy in the oracle).
"""

import hashlib
import itertools
import math

ID = "C44"
LEVEL = "model_checking"
RULE = (
    "S: x strictly increasing or decreasing from -1.0 with consecutive spacings from {1,0.5,2}; y in {-1,0,1,2,5}^n; edge_count in "
    "{None,1,2}. quick: n=3,4 with every spacing vector, n=5 with 6 spacing patterns (3 uniform, 3 cyclic). thorough: n=5 every spacing "
    "vector, n=6 with the 6 patterns. Oracle (statement): max/min are sample x positions at which (background-subtracted or raw) y is "
    "extreme; com finite and within [min x, max x] when the total mass is non-zero; cen within the x range; every reported crossing lies "
    "between two adjacent samples whose y straddle the mid-line (max+min)/2; every strict sign change about the mid-line contains a "
    "reported crossing; fwhm == max(crossings) - min(crossings) when there are >= 2 crossings. non-trivial = the real object reported "
    ">= 2 crossings (fwhm defined; measured)"
)
ASSUMPTIONS = [
    "numeric property decided on a finite grid; nothing is claimed between grid points; comparisons use an absolute tolerance of 1e-9",
    "ties for the extreme y: any of the tied sample positions is accepted",
    "with edge_count the extreme may be that of the raw or of the background-subtracted y (statement does not say which)",
    "com is a don't-care when sum(y) is 0 (centre of mass undefined); fwhm is a don't-care with fewer than 2 crossings",
    "crossings are judged on the background-subtracted y when edge_count is given (the class documents the subtraction)",
]

SPACINGS = (1.0, 0.5, 2.0)
YVALS = (-1, 0, 1, 2, 5)
EDGES = (None, 1, 2)
TOL = 1e-9
X0 = -1.0


def describe(tier):
    return {
        "bounds": {
            "lengths": "3,4 full; 5 six spacing patterns" if tier == "quick" else "3,4,5 full; 6 six spacing patterns",
            "y_alphabet": list(YVALS),
            "spacings": list(SPACINGS),
            "edge_count": [None, 1, 2],
        },
        "dont_care": ["com when sum(y)=0", "fwhm with <2 crossings", "which of tied extremes", "raw vs subtracted extreme with edge_count"],
    }


def _patterns(n):
    """The 6 fixed spacing patterns used where the full 3^(n-1) product is outside the bound."""
    out = [tuple([s] * (n - 1)) for s in SPACINGS]
    for r in range(3):
        out.append(tuple(SPACINGS[(r + i) % 3] for i in range(n - 1)))
    return out


def items(tier, seed):
    import numpy  # noqa: F401 - imported before the pool forks

    import bluesky.callbacks.fitting  # noqa: F401

    out = []
    full = (3, 4) if tier == "quick" else (3, 4, 5)
    pat = (5,) if tier == "quick" else (6,)
    for n in full:
        for sp in itertools.product(SPACINGS, repeat=n - 1):
            for d in (1, -1):
                out.append({"n": n, "sp": list(sp), "dir": d, "y0": None})
    for n in pat:
        for sp in _patterns(n):
            for d in (1, -1):
                for y0 in YVALS if n >= 6 else (None,):
                    out.append({"n": n, "sp": list(sp), "dir": d, "y0": y0})
    import gc

    gc.freeze()  # keep the forked workers' collector off the parent's heap (fewer copy-on-write faults)
    return out


def make_x(sp, d):
    x = [X0]
    for s in sp:
        x.append(x[-1] + d * s)
    return x


# ---------------------------------------------------------------- reference (pure Python)
def subtract_background(x, y, e):
    if e is None:
        return [float(v) for v in y]
    lx, ly = sum(x[:e]) / e, sum(y[:e]) / e
    rx, ry = sum(x[-e:]) / e, sum(y[-e:]) / e
    m = (ry - ly) / (rx - lx)
    b = ly - m * lx
    return [yi - (m * xi + b) for xi, yi in zip(x, y)]


def judge(x, y, e, obs):
    """obs: dict of the attributes read from the real object.  -> list of (rule, detail)."""
    out = []
    ys = subtract_background(x, y, e)
    yr = [float(v) for v in y]
    lo, hi = min(x), max(x)

    def extreme(name, pick):
        val = obs[name]
        if val is None:
            out.append((f"{name}-missing", f"{name} is None"))
            return
        xm = float(val[0])
        ks = [k for k, xv in enumerate(x) if xv == xm]
        if not ks:
            out.append((f"{name}-not-a-sample", f"{name}[0]={xm!r} is not one of the x positions {x}"))
            return
        k = ks[0]
        ok = abs(ys[k] - pick(ys)) <= TOL or abs(yr[k] - pick(yr)) <= TOL
        if not ok:
            out.append((f"{name}-not-extreme", f"{name}[0]={xm!r} (y={yr[k]}, subtracted {ys[k]!r}) but the extreme is {pick(yr)} / {pick(ys)!r}"))

    extreme("max", max)
    extreme("min", min)

    com = obs["com"]
    if abs(sum(ys)) > TOL and abs(sum(yr)) > TOL:
        if com is None or not math.isfinite(float(com)) or not (lo - TOL <= float(com) <= hi + TOL):
            out.append(("com-outside-x-range", f"com={com!r}, x range [{lo}, {hi}]"))
    cen = obs["cen"]
    if cen is not None:
        if not math.isfinite(float(cen)) or not (lo - TOL <= float(cen) <= hi + TOL):
            out.append(("cen-outside-x-range", f"cen={cen!r}, x range [{lo}, {hi}]"))

    mid = (max(ys) + min(ys)) / 2
    cr = [] if obs["crossings"] is None else [float(c) for c in obs["crossings"]]
    for c in cr:
        good = False
        for k in range(len(x) - 1):
            a, b = ys[k], ys[k + 1]
            straddle = min(a, b) - TOL <= mid <= max(a, b) + TOL
            inside = min(x[k], x[k + 1]) - TOL <= c <= max(x[k], x[k + 1]) + TOL
            if straddle and inside:
                good = True
                break
        if not (good and math.isfinite(c)):
            out.append(("crossing-not-between-straddling-samples", f"crossing {c!r}; mid-line {mid!r}; y' = {ys}; x = {x}"))
            break
    for k in range(len(x) - 1):
        a, b = ys[k] - mid, ys[k + 1] - mid
        if abs(a) > TOL and abs(b) > TOL and (a < 0) != (b < 0):
            if not any(min(x[k], x[k + 1]) - TOL <= c <= max(x[k], x[k + 1]) + TOL for c in cr):
                out.append(("crossing-missing", f"y' changes sign about the mid-line between x={x[k]} and x={x[k + 1]} but no crossing is reported there (crossings {cr})"))
                break
    if len(cr) >= 2:
        want = max(cr) - min(cr)
        f = obs["fwhm"]
        if f is None or not math.isfinite(float(f)) or abs(float(f) - want) > TOL:
            out.append(("fwhm-not-outermost-distance", f"fwhm={f!r}, outermost crossings {min(cr)!r}..{max(cr)!r} are {want!r} apart (crossings {cr})"))
    return out


# ---------------------------------------------------------------- driving the real object
def observe(x, y, e):
    from bluesky.callbacks.fitting import PeakStats

    ps = PeakStats("mot", "det", edge_count=e)
    ps("start", {"uid": "run-1", "time": 0.0, "scan_id": 1})
    ps(
        "descriptor",
        {
            "uid": "desc-1",
            "run_start": "run-1",
            "time": 0.0,
            "name": "primary",
            "data_keys": {
                "mot": {"dtype": "number", "shape": [], "source": "sim"},
                "det": {"dtype": "number", "shape": [], "source": "sim"},
            },
            "configuration": {},
            "hints": {},
            "object_keys": {},
        },
    )
    for i, (xv, yv) in enumerate(zip(x, y)):
        ps(
            "event",
            {
                "uid": f"ev-{i}",
                "descriptor": "desc-1",
                "seq_num": i + 1,
                "time": float(i),
                "data": {"mot": xv, "det": yv},
                "timestamps": {"mot": float(i), "det": float(i)},
                "filled": {},
            },
        )
    ps("stop", {"uid": "stop-1", "run_start": "run-1", "time": 9.0, "exit_status": "success", "reason": "", "num_events": {"primary": len(x)}})
    cr = ps.crossings
    return {
        "max": None if ps.max is None else [float(ps.max[0]), float(ps.max[1])],
        "min": None if ps.min is None else [float(ps.min[0]), float(ps.min[1])],
        "com": None if ps.com is None else float(ps.com),
        "cen": None if ps.cen is None else float(ps.cen),
        "crossings": None if cr is None else [float(c) for c in cr],
        "fwhm": None if ps.fwhm is None else float(ps.fwhm),
    }


def run_case(sp, d, y, e):
    x = make_x(sp, d)
    case = {"sp": list(sp), "dir": d, "y": list(y), "edge_count": e}
    tag = f"edge={e}|dir={'inc' if d > 0 else 'dec'}"
    try:
        obs = observe(x, list(y), e)
    except Exception as ex:  # noqa: BLE001
        rule = f"exception:{type(ex).__name__}"
        return [{"rule": rule, "detail": f"x={x} y={list(y)} edge_count={e}: {ex!r}", "signature": f"{rule}|{tag}", "case": case}], None
    ncr = 0 if obs["crossings"] is None else len(obs["crossings"])
    vs = []
    for rule, detail in judge(x, list(y), e, obs):
        vs.append(
            {
                "rule": rule,
                "detail": f"x={x} y={list(y)} edge_count={e}: {detail}",
                "signature": f"{rule}|{tag}|ncross={min(ncr, 3)}{'+' if ncr >= 3 else ''}",
                "case": case,
                "observed": obs,
            }
        )
    return vs, obs


def run_item(item):
    n, sp, d = item["n"], tuple(item["sp"]), item["dir"]
    violations, states, nontrivial, outcomes = [], set(), set(), {}
    persig, suppressed = {}, 0
    evaluations = transitions = 0
    sample = None
    ys = itertools.product(YVALS, repeat=n) if item["y0"] is None else ((item["y0"],) + t for t in itertools.product(YVALS, repeat=n - 1))
    for y in ys:
        for e in EDGES:
            evaluations += 1
            transitions += n + 3  # documents sent to the real object
            key = hashlib.sha256(repr((sp, d, y, e)).encode()).hexdigest()[:12]
            states.add(key)
            vs, obs = run_case(sp, d, y, e)
            if obs is None:
                oc = "exception"
            else:
                ncr = 0 if obs["crossings"] is None else len(obs["crossings"])
                if ncr >= 2:
                    nontrivial.add(key)
                com_ok = obs["com"] is not None and math.isfinite(obs["com"])
                oc = f"ncross={min(ncr, 4)}|com={'finite' if com_ok else 'undefined'}|fwhm={'yes' if obs['fwhm'] is not None else 'no'}|edge={e}"
                if sample is None and ncr >= 3:
                    sample = {"x": make_x(sp, d), "y": list(y), "edge_count": e, "observed": obs}
            outcomes[oc] = outcomes.get(oc, 0) + 1
            for v in vs:
                persig[v["signature"]] = persig.get(v["signature"], 0) + 1
                if persig[v["signature"]] <= 3:
                    violations.append(v)
                else:
                    suppressed += 1
    return {
        "evaluations": evaluations,
        "transitions": transitions,
        "states": states,
        "nontrivial": nontrivial,
        "outcomes": outcomes,
        "violations": violations,
        "samples": [sample] if sample else [],
        "extra": {"caps_hit": 0, "violating_cases_not_listed_individually": suppressed},
    }


def replay(payload):
    c = payload["case"]
    vs, _ = run_case(tuple(c["sp"]), c["dir"], tuple(c["y"]), c["edge_count"])
    return vs
