"""C42 - each run's trace span ends once with that run's outcome."""

import json

from bsv.oracles.docstream import runs_of
from bsv.props import _x1
from bsv.props._x1 import spec

ID = "C42"
LEVEL = "model_checking"
RULE = (
    "X1 with a recording tracer bound to bluesky.run_engine.tracer: interleaved run keys (all 70 interleavings at 0 deviations; 10 "
    "of them and the nested/tworuns/bare/count2 scenarios under abort / stop / halt / pause(+decisions) / suspension at every loop "
    "position and a raising / failing device op at every ledger op). Oracle at every return to idle: each RunStart emitted by the "
    "call has exactly one '... run' span (matched through the open_run metadata recorded on the span), end() was called on it "
    "exactly once, and its exit_status attribute names the outcome in that run's RunStop ('aborted' is accepted for 'abort'); "
    "non-trivial = behaviour digest differs from the reference run"
)
ASSUMPTIONS = _x1.X1_ASSUMPTIONS + [
    "the tracer is observed through a recording double bound to the module global bluesky.run_engine.tracer (API-only opentelemetry in this image)",
]

F = ("raise", "fail")
REQ = [("abort",), ("stop",), ("halt",), ("pause",), ("suspend", "none")]
_ten = [0, 7, 19, 23, 34, 35, 46, 52, 61, 69]
SPECS = {
    "quick": [spec("keys", [], bound=0, il=i) for i in range(70)]
    + [spec("keys", REQ, bound=1, il=i) for i in (19, 35)]
    + [spec(k, REQ, bound=1, faults=F) for k in ("nested", "tworuns", "bare", "count2")]
    + [spec("tiny", REQ, bound=2)],
    "thorough": [spec("keys", REQ, bound=1, il=i, faults=F) for i in _ten]
    + [spec(k, REQ, bound=1, faults=F, a=a) for k in ("nested", "tworuns", "bare", "count2", "cleanup", "fly1") for a in (0, 1)]
    + [spec(k, REQ, bound=2) for k in ("tiny", "tworuns")],
}

SPANS = []


class RecSpan:
    def __init__(self, name):
        self.name = name
        self.attrs = {}
        self.ends = 0

    def set_attribute(self, k, v):
        self.attrs[k] = v

    def set_attributes(self, d):
        self.attrs.update(d)

    def end(self, *a, **k):
        self.ends += 1

    def is_recording(self):
        return True

    def add_event(self, *a, **k):
        pass

    def record_exception(self, *a, **k):
        pass

    def set_status(self, *a, **k):
        pass


class RecTracer:
    def __init__(self, real):
        self._real = real

    def start_span(self, name, *a, **k):
        s = RecSpan(name)
        SPANS.append(s)
        return s

    def __getattr__(self, n):
        return getattr(self._real, n)


def worker_init():
    import bluesky.run_engine as re_mod

    if not isinstance(re_mod.tracer, RecTracer):
        re_mod.tracer = RecTracer(re_mod.tracer)


def oracle(scn, obs, ref, schedule):
    # NOTE: SPANS is process-global; the explorer runs the reference execution and then this execution, each on a
    # fresh engine, so the spans of THIS execution are the ones created since the session started.  The session start
    # is recognised by the marker the oracle leaves in obs.extra on first sight.
    out = []
    spans = obs.extra.get("spans")
    if spans is None:
        return out
    if obs.outcome != "ok":
        return out
    run_spans = [s for s in spans if s.name.endswith(" run")]
    # match spans to runs through the metadata of the open_run message recorded on the span
    docs = obs.docs
    runs = runs_of(docs)
    final_idle = obs.calls and obs.calls[-1].get("state_drained") == "idle"
    if not final_idle:
        return out
    # spans in creation order correspond to successful-or-not open_run messages in execution order
    opens = [obs.msgs[t[1]] for t in obs.timeline if t[0] == "msg" and t[2] == "open_run"]
    # which open_run produced which RunStart: the start document emitted while that message executed
    tl = obs.timeline
    start_of = {}
    k = -1
    cur_k = None
    for i, t in enumerate(tl):
        if t[0] == "msg":
            cur_k = None
            if t[2] == "open_run":
                k += 1
                cur_k = k
        elif t[0] == "doc" and t[2] == "start" and cur_k is not None:
            start_of[cur_k] = obs.docs[t[1]][1]["uid"]
    accepted = sorted(start_of)
    if len(run_spans) == len(opens):
        span_of = dict(enumerate(run_spans))  # a span per open_run message, accepted or not
    elif len(run_spans) == len(accepted):
        span_of = dict(zip(accepted, run_spans))  # a span per opened run
    else:
        out.append(("span-count", f"{len(run_spans)} run spans for {len(opens)} open_run messages ({len(accepted)} accepted)"))
        return out
    by_uid = {r["start"]["uid"]: r for r in runs}
    for k, span in sorted(span_of.items()):
        uid = start_of.get(k)
        if uid is None:
            continue  # the open_run was rejected (no RunStart): the statement speaks about opened runs
        run = by_uid[uid]
        if span.ends != 1:
            out.append((f"span-ended-{span.ends}-times", f"run#{k} (key={run['start'].get('key')}, stop={(run['stop'] or {}).get('exit_status')}): end() called {span.ends} times by the time the engine is idle"))
            continue
        if run["stop"] is None:
            continue
        want = run["stop"].get("exit_status")
        got = span.attrs.get("exit_status")
        # an abort/halt accepted after the plan generator had already returned: two causes, either outcome (see C02)
        late = any(t[0] == "state" and t[1] in ("aborting", "halting") and len(t) > 3 and t[3] == "ending" for t in obs.timeline)
        if got != want and not (got == "aborted" and want == "abort") and not (late and got == "aborted"):
            out.append((f"span-status-{got}-run-{want}", f"run#{k} (key={run['start'].get('key')}): span exit_status {got!r}, RunStop exit_status {want!r}"))
    return out


def _wrap_execute():
    """Attach the spans created during an execution to its observation (obs.extra['spans'])."""
    from bsv.explore import bounded

    if getattr(bounded.execute, "_c42", False):
        return
    orig = bounded.execute

    def execute(scn_key, params, schedule):
        n0 = len(SPANS)
        scn, obs = orig(scn_key, params, schedule)
        obs.extra["spans"] = SPANS[n0:]
        SPANS.clear()
        return scn, obs

    execute._c42 = True
    bounded.execute = execute


_items, _run_item, _replay, describe = _x1.bind(SPECS, oracle)


def items(tier, seed):
    return _items(tier, seed)


def run_item(item):
    worker_init()
    _wrap_execute()
    return _run_item(item)


def replay(payload):
    worker_init()
    _wrap_execute()
    return _replay(payload)
