"""C23 - paired-action wrappers always undo what they did.

G engine with a scripted responder: each wrapper around every inner program of a small vocabulary-instantiated
grammar, every placement of up to J failures / stop / abort requests at ANY message of the wrapped generator (the inner
plan's and the wrapper's own); pairing invariants on the emitted message trace, judged on what was acknowledged.
"""

import itertools

from bsv.explore import genproto as G

ID = "C23"
LEVEL = "model_checking"
ENGINE = "G"
# tier -> layers: inner program nodes (<= n, or exactly n when exact), max injections per execution, reduced = smaller families
# for the costly configurations.  The layers of a tier are disjoint in the inner program.
BOUNDS = {
    "quick": [{"n": 3, "exact": False, "inj": 1, "reduced": True}],
    "thorough": [{"n": 3, "exact": False, "inj": 2, "reduced": False}, {"n": 4, "exact": True, "inj": 1, "reduced": True}],
}
HORIZON = 60
INJECT = (G.THROW_E1, G.THROW_STOP, G.THROW_ABORT)
RULE = (
    "G + scripted responder (open_run -> uid, subscribe -> fresh token, stage/unstage -> [obj] | [obj]+children | Status object, else None): "
    "run_wrapper, stage_wrapper, lazily_stage_wrapper, subs_wrapper, suspend_wrapper, monitor_during_wrapper, fly_during_wrapper around every "
    "inner program with <= N nodes of the grammar {Y(msg), YF, Seq, Try(except Exception/else/finally), Raise, Return} "
    "instantiated per wrapper (generic 'null' messages; read/null on the devices of the list for lazily_stage; open_run/close_run with and "
    "without run keys + null for monitor/fly, and run_wrapper(program) as inner plan); device lists = every tuple of 1-3 devices (repetition "
    "allowed for stage_wrapper, every subset for the others) from the forest P1{c1a,c1b}, P2{c2a}, S (quick: the [obj]+children and Status response styles on lists of 1-2 devices only); scripts = every placement of <= J "
    "injections (quick: N<=3,J=1; thorough: N<=3,J=2 plus N=4,J=1 on the configurations whose inner vocabulary matters) from {throw E1, RequestStop, RequestAbort} at EVERY message the wrapped generator yields - "
    "the inner plan's and the wrapper's own (stage, open_run, subscribe, install_suspender, monitor, kickoff, their waits, and the undo messages) - "
    "(thorough, stage_wrapper on 3-device lists: every message for inner programs <= 2 nodes, inner messages only for exactly 3 nodes; quick, monitor/fly with the run-key vocabulary: inner messages only), everything else answered by "
    "the responder, run to termination; oracle per wrapper on the emitted trace, judged on what was ACKNOWLEDGED (a run is open / a device staged, monitored, kicked off / a token "
    "subscribed / a suspender installed once its message got a normal response; a 'do' message answered by an exception is a don't-care): as many close_run as acknowledged open_run, exit_status matching the "
    "outcome of the wrapped plan; unstage sequence (restricted to devices of acknowledged stage messages) = reverse of the stage sequence, each once, after the plan's "
    "last message; every handed-out token unsubscribed once; every installed suspender removed once; unmonitor / complete-then-collect of every device between the "
    "previous run boundary and each close_run (when one of the wrapper's own messages failed: of every device whose monitor / kickoff was acknowledged in that segment); once an undo message "
    "itself is answered by an exception the remainder of the undo sequence is a don't-care (but nothing is undone twice and the order stays a prefix of the reverse order); "
    "non-trivial = at least one injection or the inner program contains a Try"
)
ASSUMPTIONS = [
    "extra unstage messages for devices that were reported by the stage response but never named in a stage message are a don't-care",
    "whether a device / token / suspender / run whose 'do' message was answered by an exception gets undone is a don't-care; so is everything left of the undo sequence after an undo message was answered by an exception",
    "no close()/PlanHalt (the statement speaks of succeeding, failing and stopped plans)",
]

# ---- devices ------------------------------------------------------------------------------------


class Dev:
    def __init__(self, name, parent=None):
        self.name = name
        self.parent = parent
        self.children = []
        if parent is not None:
            parent.children.append(self)

    def __repr__(self):
        return self.name


class FakeStatus:
    """bluesky.protocols.Status"""

    name = "status"
    done = True
    success = True

    def add_callback(self, cb):
        cb(self)

    def exception(self, timeout=0.0):
        return None


def _forest():
    p1, p2, s = Dev("P1"), Dev("P2"), Dev("S")
    devs = [p1, Dev("c1a", p1), Dev("c1b", p1), p2, Dev("c2a", p2), s]
    return {d.name: d for d in devs}


FOREST = _forest()
NAMES = tuple(FOREST)


def f1(name, doc):
    pass


def f2(name, doc):
    pass


S1, S2 = Dev("susp1"), Dev("susp2")


def _mkmsg(env, tag, cmd, objname):
    from bluesky.utils import Msg

    cmd = cmd or "null"
    run = None
    if "@" in cmd:
        cmd, run = cmd.split("@")
    return Msg(cmd, FOREST.get(objname) if objname else None, tag, run=run)


def _env():
    return G.Env(mkmsg=_mkmsg, objs=FOREST)


def _responder(stage_mode):
    def respond(env, msg, v):
        cmd = msg.command
        if cmd in ("stage", "unstage"):
            if stage_mode == "status":
                return FakeStatus()
            if stage_mode == "tree":
                return [msg.obj] + list(msg.obj.children)
            return [msg.obj]
        if cmd == "subscribe":
            n = env.aux.get("tok", 100)
            env.aux["tok"] = n + 1
            return n
        if cmd == "open_run":
            n = env.aux.get("uid", 0)
            env.aux["uid"] = n + 1
            return f"uid{n}"
        return None

    return respond


# ---- the space --------------------------------------------------------------------------------------

GENERIC_LEAVES = (("Y", "null"), ("Raise", 2), ("Ret", 7))
RUN_LEAVES = (("Y", "open_run"), ("Y", "close_run"), ("Y", "null"), ("Raise", 2))
KEYED_LEAVES = (("Y", "open_run@k1"), ("Y", "open_run@k2"), ("Y", "close_run@k1"), ("Y", "close_run@k2"), ("Y", "null"))

OWN = {
    "run_wrapper": {"open_run", "close_run"},
    "stage_wrapper": {"stage", "unstage", "wait"},
    "lazily_stage_wrapper": {"stage", "unstage", "wait"},
    "subs_wrapper": {"subscribe", "unsubscribe"},
    "suspend_wrapper": {"install_suspender", "remove_suspender"},
    "monitor_during_wrapper": {"monitor", "unmonitor"},
    "fly_during_wrapper": {"kickoff", "complete", "collect", "wait"},
}


def _subsets(maxn=3):
    out = []
    for k in range(1, maxn + 1):
        out.extend(itertools.combinations(NAMES, k))
    return out


def _tuples(maxn=3):
    out = []
    for k in range(1, maxn + 1):
        out.extend(itertools.product(NAMES, repeat=k))
    return out


def _generic(n, exact=False):
    return G.programs(n, leaves=GENERIC_LEAVES, catch=("E",), exact=exact)


def _configs(tier):
    """Every (wrapper, config, inner-program family) - config is JSON-able; family = (kind, nodes, exact, injections)."""
    out = []
    for layer in BOUNDS[tier]:
        n, ex, inj, red = layer["n"], layer["exact"], layer["inj"], layer["reduced"]

        def fam(kind, nodes):
            return (kind, nodes, ex, inj)

        for md in (None, {"purpose": "x"}):
            out.append(("run_wrapper", {"md": md}, fam("generic", n)))
        for mode in ("self", "tree", "status"):
            if not ex:  # stage_wrapper never looks at the wrapped plan's messages: inner programs <= 2 (3) nodes
                for devs in _tuples(3):
                    if red and mode != "self" and len(devs) > 2:
                        continue  # quick: the two other stage-response styles on device lists of 1-2 only
                    c = {"devices": list(devs), "stage": mode}
                    if red or len(devs) <= 2:
                        out.append(("stage_wrapper", c, fam("generic", 2 if red else 3)))
                    else:
                        # 3-device lists: injections at every message for inner programs <= 2 nodes, at the inner
                        # messages only (the wrapper's own phases are the same for every inner program) for exactly 3 nodes
                        out.append(("stage_wrapper", c, fam("generic", 2)))
                        out.append(("stage_wrapper", c, ("generic", 3, True, inj, "inner")))
            for devs in _subsets(3):
                if ex and len(devs) > 2:
                    continue
                if red and mode != "self" and len(devs) > 2:
                    continue
                out.append(("lazily_stage_wrapper", {"devices": list(devs), "stage": mode}, fam("devices", n if len(devs) < 3 or not red else 2)))
        for subs in ("func", "list2", "dict", "none"):
            out.append(("subs_wrapper", {"subs": subs}, fam("generic", n)))
        for susp in ("single", "list1", "list2", "empty"):
            out.append(("suspend_wrapper", {"susp": susp}, fam("generic", n)))
        for w in ("monitor_during_wrapper", "fly_during_wrapper"):
            for devs in _subsets(3):
                if ex:
                    if len(devs) == 1:
                        out.append((w, {"devices": list(devs)}, fam("runs", n)))
                    continue
                out.append((w, {"devices": list(devs)}, fam("runs", n - 1 if len(devs) > 1 and red else n)))
                out.append((w, {"devices": list(devs)}, fam("run_wrapper", 2 if red else 3)))
                if len(devs) <= 2:
                    # quick: the run-key vocabulary with injections at the inner messages only (the wrapper's own phases
                    # are exercised under injection by the 'runs' and 'run_wrapper' families)
                    out.append((w, {"devices": list(devs)}, ("keyed", 3, ex, inj, "inner") if red else fam("keyed", 3)))
    return out


def _inner_programs(family, cfg):
    kind, n, ex = family[0], family[1], family[2]
    if kind in ("generic", "run_wrapper"):
        return _generic(n, ex)
    if kind == "devices":
        leaves = tuple(("Y", "read", d) for d in cfg["devices"]) + (("Y", "null"), ("Raise", 2))
        return [p for p in G.programs(n, leaves=leaves, catch=("E",), exact=ex) if any(x[0] == "Y" and len(x) > 2 for x in G.walk(p))]
    if kind == "runs":
        return [p for p in G.programs(n, leaves=RUN_LEAVES, catch=("E",), exact=ex) if any(x[0] == "Y" and x[1] == "close_run" for x in G.walk(p))]
    if kind == "keyed":
        return [p for p in G.programs(n, leaves=KEYED_LEAVES, catch=("E",), exact=ex) if any(x[0] == "Y" and x[1].startswith("close_run") for x in G.walk(p))]
    raise ValueError(family)


def describe(tier):
    cfgs = _configs(tier)
    per = {}
    for w, _c, _f in cfgs:
        per[w] = per.get(w, 0) + 1
    return {"bounds": {"layers": BOUNDS[tier], "configs_per_wrapper": per, "horizon": HORIZON}}


def worker_init():
    G.quiet()


def items(tier, seed):
    import bluesky.preprocessors  # noqa: F401

    cfgs = _configs(tier)
    size = 5 if tier == "quick" else 4
    return [{"tier": tier, "lo": lo, "hi": min(len(cfgs), lo + size)} for lo in range(0, len(cfgs), size)]


# ---- running one case ---------------------------------------------------------------------------------


def _factory(wrapper, cfg, family, prog):
    import bluesky.preprocessors as bpp

    f = G.compile_program(prog)

    def plan(env):
        if family[0] == "run_wrapper":
            return bpp.run_wrapper(f(env))
        return f(env)

    def inner(env):
        # transparent pass-through that records how the WRAPPED plan ended (the wrapper may end differently when one of
        # its own messages is answered by an exception)
        try:
            ret = yield from plan(env)
        except BaseException as e:
            env.aux["inner_end"] = type(e).__name__
            raise
        env.aux["inner_end"] = "return"
        return ret

    devs = [FOREST[d] for d in cfg.get("devices", ())]
    if wrapper == "run_wrapper":
        return lambda env: bpp.run_wrapper(inner(env), md=cfg["md"])
    if wrapper == "stage_wrapper":
        return lambda env: bpp.stage_wrapper(inner(env), list(devs))
    if wrapper == "lazily_stage_wrapper":
        return lambda env: bpp.lazily_stage_wrapper(inner(env))
    if wrapper == "subs_wrapper":
        subs = {"func": f1, "list2": [f1, f2], "dict": {"event": [f1], "all": f2}, "none": None}[cfg["subs"]]
        return lambda env: bpp.subs_wrapper(inner(env), subs)
    if wrapper == "suspend_wrapper":
        susp = {"single": S1, "list1": [S1], "list2": [S1, S2], "empty": []}[cfg["susp"]]
        return lambda env: bpp.suspend_wrapper(inner(env), susp)
    if wrapper == "monitor_during_wrapper":
        return lambda env: bpp.monitor_during_wrapper(inner(env), list(devs))
    if wrapper == "fly_during_wrapper":
        return lambda env: bpp.fly_during_wrapper(inner(env), list(devs))
    raise ValueError(wrapper)


def _decode(obs, script=None):
    """canon steps -> list of dicts for the yielded messages; with the script: 'ack' = the message got a normal response
    (step i is the outcome of action i, so the message yielded at step i is answered by action i+1)"""
    out = []
    for i, st in enumerate(obs.steps):
        if st[0] != "yield":
            continue
        _, label, cmd, objc, argsc, kwc, run = st[1]
        ack = None
        if script is not None and i + 1 < len(script):
            ack = script[i + 1][0] == "send"
        out.append({"label": label, "cmd": cmd, "obj": objc[1] if isinstance(objc, tuple) else None, "args": argsc[1:], "kwargs": dict(kwc[1:]), "run": run, "ack": ack})
    return out


UNDO = {
    "run_wrapper": {"close_run"},
    "stage_wrapper": {"unstage"},
    "lazily_stage_wrapper": {"unstage"},
    "subs_wrapper": {"unsubscribe"},
    "suspend_wrapper": {"remove_suspender"},
    "monitor_during_wrapper": {"unmonitor"},
    "fly_during_wrapper": {"complete", "collect"},
}


def _invariants(wrapper, cfg, obs, script):
    """-> list of (rule, shape) ; obs is terminal.

    Pairing is judged on what was ACKNOWLEDGED: a device is staged / a token subscribed / a suspender installed / a run
    opened / a device monitored or kicked off once the message got a normal response.  A 'do' message answered by an
    exception is a don't-care (may or may not be undone).  Once an 'undo' message of the wrapper was itself answered by an
    exception the rest of the undo sequence is a don't-care (nothing may be undone twice, though).
    """
    msgs = _decode(obs, script)
    own = OWN[wrapper]
    term = obs.steps[-1]
    out = []
    inner_idx = [i for i, m in enumerate(msgs) if m["cmd"] not in own]
    last_inner = inner_idx[-1] if inner_idx else -1
    own_exc = any(m["cmd"] in own and not m["ack"] for m in msgs)  # one of the wrapper's own messages was answered by an exception
    undo_exc = any(m["cmd"] in UNDO[wrapper] and not m["ack"] for m in msgs)

    if wrapper == "run_wrapper":
        opens = [m for m in msgs if m["cmd"] == "open_run" and m["ack"]]
        opens_x = [m for m in msgs if m["cmd"] == "open_run" and not m["ack"]]
        closes = [(i, m) for i, m in enumerate(msgs) if m["cmd"] == "close_run"]
        if not (len(opens) <= len(closes) <= len(opens) + len(opens_x)):
            out.append(("close_run-count", f"opens={len(opens)}|closes={len(closes)}"))
        else:
            # the status must match the outcome of the WRAPPED plan (= the wrapper's outcome unless one of the wrapper's own
            # messages was answered by an exception)
            end = obs.aux.get("inner_end")
            if end == "return":
                want = (None, "success")
            elif end == "RequestStop":
                want = ("success",)
            elif end == "RequestAbort":
                want = ("abort",)
            else:
                want = ("fail",)
            for i, m in closes:
                if end is not None and m["kwargs"].get("exit_status") not in want:
                    out.append(("close_run-status", f"outcome={'return' if end == 'return' else 'raise'}:{'' if end == 'return' else end}|exit_status={m['kwargs'].get('exit_status')}"))
                if i < last_inner:
                    out.append(("close_run-before-plan-end", ""))
    elif wrapper in ("stage_wrapper", "lazily_stage_wrapper"):
        S = [m["obj"] for m in msgs if m["cmd"] == "stage" and m["ack"]]
        Uall = [(i, m["obj"]) for i, m in enumerate(msgs) if m["cmd"] == "unstage"]
        U = [o for _, o in Uall if o in set(S)]
        dup = sorted({o for o in U if U.count(o) > 1})
        if dup:
            roots_of_used_children = all(any(FOREST[c].parent is FOREST[o] for c in cfg.get("used", ())) for o in dup)
            out.append(("unstaged-more-than-once", f"stage={cfg['stage']}|" + ("root-restaged-for-child" if roots_of_used_children else "other")))
        elif set(S) - set(U) and not undo_exc:
            # did the inserted head plan die right after a stage response (the message that triggered the stage never came out)?
            died = False
            for i, m in enumerate(msgs):
                if m["cmd"] == "stage" and m["ack"]:
                    nxt = msgs[i + 1] if i + 1 < len(msgs) else None
                    if nxt is None or nxt["cmd"] in ("stage", "unstage") or nxt["obj"] is None or (FOREST[nxt["obj"]].parent or FOREST[nxt["obj"]]).name != m["obj"]:
                        died = True
            if cfg["stage"] == "status" and wrapper == "lazily_stage_wrapper" and died:
                shape = "stage=status|head-plan-died-on-Status-response"
            else:
                shape = f"stage={cfg['stage']}|outcome={term[0]}:{term[1] if term[0] == 'raise' else ''}"
                if own_exc:
                    shape += "|" + _own_exc_shape(msgs, own)
            out.append(("staged-not-unstaged", shape))
        elif (U != list(reversed(S))) if not undo_exc else (U != list(reversed(S))[: len(U)]):
            out.append(("unstage-not-reverse-order", f"stage={cfg['stage']}|n={len(S)}"))
        if any(i < last_inner for i, _ in Uall):
            out.append(("unstage-before-plan-end", f"stage={cfg['stage']}"))
    elif wrapper == "subs_wrapper":
        ntok = sum(1 for m in msgs if m["cmd"] == "subscribe" and m["ack"])  # the responder hands out a token per answered subscribe
        toks = list(range(100, 100 + ntok))
        un = [(i, m["kwargs"].get("token")) for i, m in enumerate(msgs) if m["cmd"] == "unsubscribe"]
        got = sorted(t for _, t in un)
        if (got != toks) if not undo_exc else (len(set(got)) != len(got) or not set(got) <= set(toks)):
            out.append(("unsubscribe-mismatch", f"subscribed={ntok}|unsubscribed={len(un)}" + ("|" + _own_exc_shape(msgs, own) if own_exc else "")))
        if any(i < last_inner for i, _ in un):
            out.append(("unsubscribe-before-plan-end", ""))
    elif wrapper == "suspend_wrapper":
        ins = sorted(m["args"][0][1] for m in msgs if m["cmd"] == "install_suspender" and m["ack"])
        rem = [(i, m["args"][0][1]) for i, m in enumerate(msgs) if m["cmd"] == "remove_suspender"]
        got = sorted(r for _, r in rem)
        if not own_exc:
            bad = got != ins
        else:
            # removal of a suspender whose installation was interrupted / never attempted: don't-care
            bad = any(got.count(x) > 1 for x in ins) or (not undo_exc and any(got.count(x) != 1 for x in ins))
        if bad:
            out.append(("suspender-not-removed", f"installed={len(ins)}|removed={len(rem)}" + ("|" + _own_exc_shape(msgs, own) if own_exc else "")))
        if any(i < last_inner for i, _ in rem):
            out.append(("remove-before-plan-end", ""))
    else:
        devs = list(cfg["devices"])
        prev = -1
        for i, m in enumerate(msgs):
            if m["cmd"] in ("open_run", "close_run"):
                if m["cmd"] == "close_run" and own_exc:
                    # acknowledged-based reading: what was started in this run segment is finished before the close_run
                    seg = msgs[prev + 1 : i]
                    do, undo = ("monitor", ("unmonitor",)) if wrapper == "monitor_during_wrapper" else ("kickoff", ("complete", "collect"))
                    for k, x in enumerate(seg):
                        if x["cmd"] == do and x["ack"]:
                            pos = k
                            for u in undo:
                                pos = next((j for j in range(pos + 1, len(seg)) if seg[j]["cmd"] == u and seg[j]["obj"] == x["obj"]), None)
                                if pos is None:
                                    break
                            if pos is None:
                                out.append((f"{'-'.join(undo)}-missing-before-close_run", f"devices={len(devs)}|acknowledged-{do}|" + _own_exc_shape(msgs, own)))
                elif m["cmd"] == "close_run":
                    seg = msgs[prev + 1 : i]
                    if wrapper == "monitor_during_wrapper":
                        got = [x["obj"] for x in seg if x["cmd"] == "unmonitor"]
                        if sorted(got) != sorted(devs):
                            out.append(("unmonitor-missing-before-close_run", f"devices={len(devs)}|unmonitored={len(got)}"))
                    else:
                        comp = [x["obj"] for x in seg if x["cmd"] == "complete"]
                        coll = [x["obj"] for x in seg if x["cmd"] == "collect"]
                        if sorted(comp) != sorted(devs) or sorted(coll) != sorted(devs):
                            out.append(("complete-collect-missing-before-close_run", f"devices={len(devs)}|complete={len(comp)}|collect={len(coll)}"))
                        else:
                            for d in devs:
                                ic = next(k for k, x in enumerate(seg) if x["cmd"] == "complete" and x["obj"] == d)
                                il = next(k for k, x in enumerate(seg) if x["cmd"] == "collect" and x["obj"] == d)
                                if il < ic:
                                    out.append(("collect-before-complete", ""))
                prev = i
    return out


def _own_exc_shape(msgs, own):
    """which of the wrapper's own messages were answered by an exception (commands only; stable under renumbering)"""
    return "own-msg-failed=" + "+".join(sorted({m["cmd"] for m in msgs if m["cmd"] in own and not m["ack"]}))


def _run_case(t, wrapper, cfg, family, prog, max_inj):
    factory = _factory(wrapper, cfg, family, prog)
    respond = _responder(cfg.get("stage", "self"))
    own = OWN[wrapper]
    if wrapper == "lazily_stage_wrapper":
        cfg = dict(cfg, used=sorted({x[2] for x in G.walk(prog) if x[0] == "Y" and len(x) > 2}))
    nt_prog = G.has(prog, "Try")
    inner_only = len(family) > 4 and family[4] == "inner"

    def menu(script, obs):
        if obs is None:
            return (G.SEND_NONE,)
        acts = [G.SEND_NONE]
        ninj = sum(1 for a in script if a[0] == "throw")
        if ninj < max_inj and obs.last[0] == "yield" and not (inner_only and obs.last[1][2] in own):
            acts.extend(INJECT)  # at EVERY message the wrapped generator yields, the wrapper's own included
        return acts

    for script, obs in G.explore(factory, HORIZON, respond=respond, env_factory=_env, menu=menu):
        if obs.alive:
            if len(script) >= HORIZON:
                t.extra["caps_hit"] += 1
            continue
        ninj = sum(1 for a in script if a[0] == "throw")
        t.case((wrapper, cfg, family, prog, script), obs.key(), ninj > 0 or nt_prog, f"{wrapper}:{obs.kind()}", steps=len(script))
        for rule, shape in _invariants(wrapper, cfg, obs, script):
            inj = "+".join(a[1] for a in script if a[0] == "throw") or "none"
            t.violation(
                rule,
                f"{wrapper} cfg={cfg} inner[{family[0]}]={prog!r} script=[{G.script_str(script)}] trace={[(m['cmd'], m['obj']) for m in _decode(obs)]} end={obs.steps[-1]!r}",
                f"{rule}|{wrapper}|{shape}",
                wrapper=wrapper,
                cfg=cfg,
                family=list(family),
                program=G.to_jsonable(prog),
                script=G.to_jsonable(script),
                injected=inj,
            )


def run_item(item):
    t = G.Tally()
    for wrapper, cfg, family in _configs(item["tier"])[item["lo"] : item["hi"]]:
        progs = _inner_programs(family, cfg)
        for prog in progs:
            _run_case(t, wrapper, cfg, family, prog, family[3])
        t.sample({"wrapper": wrapper, "cfg": cfg, "family": list(family), "inner_programs": len(progs)})
    return t.result()


def replay(payload):
    G.quiet()
    wrapper, cfg, family = payload["wrapper"], payload["cfg"], tuple(payload["family"])
    prog = G.from_jsonable(payload["program"])
    script = G.from_jsonable(payload["script"])
    cfg = {k: v for k, v in cfg.items() if k != "used"}
    obs = G.run_script(_factory(wrapper, cfg, family, prog), script, _env(), _responder(cfg.get("stage", "self")))
    if wrapper == "lazily_stage_wrapper":
        cfg = dict(cfg, used=sorted({x[2] for x in G.walk(prog) if x[0] == "Y" and len(x) > 2}))
    if obs.alive:
        return []
    return [
        {"rule": r, "signature": f"{r}|{wrapper}|{shape}", "detail": f"trace={[(m['cmd'], m['obj'], m['kwargs']) for m in _decode(obs)]} end={obs.steps[-1]!r}\n{G.pretty(prog)}"}
        for r, shape in _invariants(wrapper, cfg, obs, script)
    ]
