"""C45 - collected stream assets line up with the stream's event numbering.

X1 at 0 deviations over exhaustive inputs: one or two detectors implementing Collectable + WritesStreamAssets with a
scripted get_index() progression, a declared stream (declare_stream(..., collect=True)), one `collect` after every
step of the progression, on the real RunEngine.  The detector behaves like a file-writing detector: it publishes one
stream_resource per data key the first time it is collected and afterwards one stream_datum per data key covering
[last index published, index asked for) - it trusts the index the engine passes.
"""

import hashlib
import itertools

ID = "C45"
LEVEL = "model_checking"

BOUNDS = {"quick": (3, 4), "thorough": (4, 6)}  # (max progression length, max index)
NKEYS = (2, 1)  # data keys of detector 1 / detector 2
# named: 1 = collect(name='main'), 0 = collect() with the stream inferred, 2 = the same detectors are ALSO declared into a second
# stream 'aux' (declared first, never collected into) and every collect names 'main';  a: sync or async device methods
VARIANTS = [(named, a) for named in (1, 0, 2) for a in (0, 1)]
BATCH = 32
ITEM = 256
STREAM = "main"

RULE = (
    "X1 at 0 deviations: 1 detector with every non-decreasing get_index() progression of length 1..3 over {0..4} (thorough: length 1..4 over {0..6}), "
    "and 2 detectors (2 and 1 data keys) with every PAIR of such progressions of equal length, a collect of all detectors after every step, on a stream "
    "declared with declare_stream(collect=True); x {collect names the stream, stream inferred from the declaration, the same detectors also declared into a second stream that is never collected into} x {sync, async device methods}; "
    "oracle on the documents of each run: no collect is rejected; per stream_resource (= per data key) the stream_datum indices tile [0, n) contiguously "
    "from 0 and seq_nums == indices + 1; after the k-th collect EVERY data key ends at min over detectors of their k-th index; every stream_datum names the "
    "declared descriptor; stop.num_events[stream] == the final minimum index; "
    "non-trivial = 2 detectors whose indices differ at some step AND at least two collects published frames"
)
ASSUMPTIONS = [
    "the detector is a harness fake built with event_model.compose_stream_resource; like ophyd-async detectors it publishes [last published, index) and trusts the index passed by the engine "
    "(index=None for a single detector means its own index)",
    "a collect cadence that skips steps equals a shorter progression with the skipped increments merged, which is in the space",
    "indices never decrease (frames are not un-written)",
    f"{BATCH} cases share one RE(...) call, each in its own open_run/close_run with its own detectors; a violation is re-run alone before it is reported",
    "don't-care: whether num_events lists a stream with 0 frames as 0 or omits it; order of documents of one collect",
]


def _progressions(maxlen, maxidx):
    for n in range(1, maxlen + 1):
        yield from itertools.combinations_with_replacement(range(maxidx + 1), n)


_CASES = {}


def _cases(tier):
    """[(progressions tuple, named, async)] - the whole bounded space in a fixed order."""
    if tier not in _CASES:
        maxlen, maxidx = BOUNDS[tier]
        progs = list(_progressions(maxlen, maxidx))
        out = []
        for p in progs:
            for named, a in VARIANTS:
                out.append(((p,), named, a))
        for p in progs:
            for q in progs:
                if len(p) == len(q):
                    for named, a in VARIANTS:
                        out.append(((p, q), named, a))
        _CASES[tier] = out
    return _CASES[tier]


def describe(tier):
    maxlen, maxidx = BOUNDS[tier]
    n = len(list(_progressions(maxlen, maxidx)))
    return {
        "bounds": {
            "progression_length": f"1..{maxlen}",
            "index_values": f"0..{maxidx}",
            "progressions_per_detector": n,
            "detectors": "1 or 2 (2 + 1 data keys)",
            "variants": ["named/async=%d/%d" % v for v in VARIANTS],
            "cases": len(_cases(tier)),
            "deviations": 0,
        },
        "states_means": "distinct per-case observation digests (per collect: outcome and the indices/seq_nums ranges of every stream_datum per data key; num_events)",
    }


def items(tier, seed):
    total = len(_cases(tier))
    return [{"tier": tier, "lo": lo, "hi": min(total, lo + ITEM)} for lo in range(0, total, ITEM)]


# ----------------------------------------------------------------------------- devices / scenario
def _scenario_class():
    from event_model import compose_stream_resource

    from bsv.harness.devices import _Base, _dk
    from bsv.harness.session import Scenario

    class StreamDet(_Base):
        """Collectable + WritesStreamAssets (+ Configurable with an empty configuration)."""

        def __init__(self, ctx, name, nkeys, is_async=False):
            super().__init__(ctx, name, is_async)
            self.keys = [f"{name}-sd{i + 1}" for i in range(nkeys)]
            self.index = 0  # frames written so far (scripted by the plan)
            self.last = 0  # frames published so far
            self.bundles = None

        def describe_collect(self):
            return self._ret({k: _dk(f"fake:{self.name}:{k}", dtype="array", shape=[4, 4], external="STREAM:") for k in self.keys})

        def read_configuration(self):
            return self._ret({})

        def describe_configuration(self):
            return self._ret({})

        def get_index(self):
            self.ctx.op(self, "get_index", fallible=False)
            return self._ret(self.index)

        def _docs(self, index):
            self.ctx.op(self, "collect_asset_docs", index, fallible=False)
            upto = self.index if index is None else index
            out = []
            if self.bundles is None:
                self.bundles = [compose_stream_resource(mimetype="application/x-hdf5", uri=f"file://localhost/fake/{self.name}.h5", data_key=k, parameters={"dataset": f"/{k}"}) for k in self.keys]
                out.extend(("stream_resource", b.stream_resource_doc) for b in self.bundles)
            if upto > self.last:
                out.extend(("stream_datum", b.compose_stream_datum({"start": self.last, "stop": upto})) for b in self.bundles)
                self.last = upto
            return out

        def collect_asset_docs(self, index=None):
            if self.is_async:
                return self._adocs(index)
            return iter(self._docs(index))

        async def _adocs(self, index):
            import asyncio

            await asyncio.sleep(0)
            for x in self._docs(index):
                yield x

    class Collects(Scenario):
        id = "c45-collect"
        probe = False
        track = False

        def devices(self, ctx):
            out = {}
            for ci, (progs, _named, a) in enumerate(self.params["cases"]):
                out[ci] = [StreamDet(ctx, f"d{j + 1}", NKEYS[j], is_async=bool(a)) for j in range(len(progs))]
            return out

        def plan(self, d):
            from bluesky.utils import Msg

            cases = self.params["cases"]
            self.log = log = []  # per yielded message: (case index, part, outcome, value)

            def plan():
                for ci, (progs, named, _a) in enumerate(cases):
                    dets = d[ci]
                    msgs = [("open", None, Msg("open_run"))]
                    if named == 2:
                        msgs.append(("declare_aux", None, Msg("declare_stream", None, *dets, name="aux", collect=True)))
                    msgs.append(("declare", None, Msg("declare_stream", None, *dets, name=STREAM, collect=True)))
                    for k in range(len(progs[0])):
                        kw = {"name": STREAM} if named else {}
                        msgs.append(("collect", k, Msg("collect", *dets, **kw)))
                    msgs.append(("close", None, Msg("close_run")))
                    for part, k, msg in msgs:
                        if part == "collect":
                            for det, p in zip(dets, progs):
                                det.index = p[k]
                        try:
                            r = yield msg
                        except Exception as e:  # noqa: BLE001
                            log.append((ci, part, k, "exc", e))
                        else:
                            log.append((ci, part, k, "ok", r))

            return plan()

    return Collects


_SCN = None


def worker_init():
    global _SCN
    _SCN = _scenario_class()


def _execute(cases):
    from bsv.harness.session import run

    if _SCN is None:
        worker_init()
    scn = _SCN(cases=[[[list(p) for p in progs], named, a] for progs, named, a in cases])
    return scn, run(scn)


def _docs_per_msg(obs):
    out = [[] for _ in obs.msgs]
    cur = None
    for t in obs.timeline:
        if t[0] == "msg":
            cur = t[1]
        elif t[0] == "doc" and cur is not None:
            out[cur].append(t[1])
    return out


# ----------------------------------------------------------------------------- oracle
def _v(rule, detail, sig_tail):
    return {"rule": rule, "detail": detail, "signature": f"{rule}|{sig_tail}"}


def _shape(case):
    progs, named, a = case
    return f"dets={len(progs)}|{('named', 'two-streams-named')[named - 1] if named else 'inferred'}|{'async' if a else 'sync'}"


def judge(case, entries, docs, docs_of):
    """entries: [(part, k, outcome, value, msg index)] of one case.  Returns (violation|None, facts)."""
    progs, named, a = case
    label = f"indices={[list(p) for p in progs]} {'collect(name)' if named else 'collect()'} {'async' if a else 'sync'}"
    shape = _shape(case)
    facts = {"observed": [], "publishing_collects": 0, "datums": 0}
    run_uid = None
    desc_uid = None
    res_key = {}  # stream_resource uid -> data key
    end = {}  # data key -> stop of the last stream_datum (0 if none)
    want_keys = [f"d{j + 1}-sd{i + 1}" for j in range(len(progs)) for i in range(NKEYS[j])]
    prev_min = 0
    for part, k, outcome, value, mi in entries:
        mydocs = [docs[di] for di in docs_of[mi]]
        names = [n for n, _ in mydocs]
        if outcome != "ok":
            facts["observed"].append((part, "exc", type(value).__name__))
            where = part if part != "collect" else ("collect|first" if k == 0 else "collect|later")
            return _v("rejected", f"{label}: {part}{'' if k is None else ' #' + str(k)} raised {type(value).__name__}: {str(value)[:200]}", f"{where}|{type(value).__name__}|{shape}"), facts
        if part == "open":
            run_uid = next((doc["uid"] for n, doc in mydocs if n == "start"), None)
        elif part == "declare_aux":
            ds = [doc for n, doc in mydocs if n == "descriptor"]
            if len(ds) != 1 or ds[0].get("name") != "aux":
                return _v("declared-descriptor", f"{label}: declare_stream(name='aux') emitted {names}", f"declare|{shape}"), facts
        elif part == "declare":
            ds = [doc for n, doc in mydocs if n == "descriptor"]
            if len(ds) != 1 or ds[0].get("name") != STREAM or set(ds[0].get("data_keys", {})) != set(want_keys):
                return _v("declared-descriptor", f"{label}: declare_stream emitted {names} / data_keys {[sorted(x.get('data_keys', {})) for x in ds]}", f"declare|{shape}"), facts
            desc_uid = ds[0]["uid"]
        elif part == "collect":
            m = min(p[k] for p in progs)
            got = []
            for n, doc in mydocs:
                if n == "stream_resource":
                    if doc.get("run_start") != run_uid:
                        return _v("stream-resource-run", f"{label}: stream_resource run_start={doc.get('run_start')} run={run_uid}", f"collect|{shape}"), facts
                    res_key[doc["uid"]] = doc["data_key"]
                    end.setdefault(doc["data_key"], 0)
                elif n == "stream_datum":
                    key = res_key.get(doc.get("stream_resource"))
                    if key is None:
                        return _v("stream-datum-orphan", f"{label}: stream_datum of unknown stream_resource {doc.get('stream_resource')}", f"collect|{shape}"), facts
                    ix, sn = doc["indices"], doc["seq_nums"]
                    got.append((key, ix["start"], ix["stop"], sn["start"], sn["stop"]))
                    facts["datums"] += 1
                    if doc.get("descriptor") != desc_uid:
                        return _v("stream-datum-descriptor", f"{label}: stream_datum names descriptor {doc.get('descriptor')!r}, the declared stream's is {desc_uid!r}", f"collect|{shape}"), facts
                    if ix["start"] != end[key]:
                        return _v(
                            "indices-not-contiguous",
                            f"{label}: collect #{k}: data key {key} indices {ix} do not continue at {end[key]}",
                            f"collect|{shape}|{'gap' if ix['start'] > end[key] else 'overlap'}",
                        ), facts
                    if ix["stop"] <= ix["start"]:
                        return _v("empty-stream-datum", f"{label}: collect #{k}: data key {key} indices {ix}", f"collect|{shape}"), facts
                    if (sn["start"], sn["stop"]) != (ix["start"] + 1, ix["stop"] + 1):
                        return _v(
                            "seq-nums-not-indices-plus-1",
                            f"{label}: collect #{k}: data key {key} indices {ix} seq_nums {sn}",
                            f"collect|{shape}|{'first-datum' if ix['start'] == 0 else 'later-datum'}|{'width' if sn['stop'] - sn['start'] != ix['stop'] - ix['start'] else 'offset'}",
                        ), facts
                    end[key] = ix["stop"]
                else:
                    return _v("unexpected-documents", f"{label}: collect #{k} emitted {names}", f"collect|{shape}|{n}"), facts
            # every data key has reached the minimum index, none went beyond it
            ends = {key: end.get(key, 0) for key in want_keys}
            if any(e != m for e in ends.values()):
                kind = "beyond-min" if any(e > m for e in ends.values()) else "short-of-min"
                uneven = "uneven" if len(set(ends.values())) > 1 else "even"
                return _v(
                    "not-at-minimum-index",
                    f"{label}: after collect #{k} the data keys end at {ends}; detectors report {[p[k] for p in progs]} so every one must end at {m}",
                    f"collect|{shape}|{kind}|{uneven}",
                ), facts
            if m > prev_min:
                facts["publishing_collects"] += 1
            prev_min = m
            facts["observed"].append((part, tuple(sorted(got))))
        elif part == "close":
            stop = [doc for n, doc in mydocs if n == "stop"]
            if len(stop) != 1:
                return _v("no-stop", f"{label}: close_run emitted {names}", f"close|{shape}"), facts
            ne = stop[0].get("num_events") or {}
            final = min(p[-1] for p in progs)
            facts["observed"].append((part, tuple(sorted(ne.items()))))
            others = {s: n for s, n in ne.items() if s != STREAM and n}
            if ne.get(STREAM, 0) != final or others:
                return _v(
                    "num-events",
                    f"{label}: stop.num_events={ne}; frames declared on {STREAM!r} = {final}",
                    f"close|{shape}|{'more' if ne.get(STREAM, 0) > final else 'fewer' if ne.get(STREAM, 0) < final else 'other-stream'}",
                ), facts
    return None, facts


def _nontrivial(case, facts):
    progs = case[0]
    return len(progs) == 2 and any(x != y for x, y in zip(*progs)) and facts["publishing_collects"] >= 2


def _digest(case, facts):
    return hashlib.sha256(repr((len(case[0]), facts["observed"])).encode()).hexdigest()[:14]


def _run_batch(cases):
    scn, obs = _execute(cases)
    if obs.outcome != "ok" or obs.calls[0]["outcome"] != "return" or obs.calls[0]["state_after"] != "idle" or len(scn.log) != len(obs.msgs):
        c = obs.calls[0] if obs.calls else {}
        return (
            None,
            _v(
                "engine-call-failed",
                f"batch {cases[:2]}...: outcome={obs.outcome} call={c.get('outcome')} exc={c.get('exc')!r} state={c.get('state_after')} msgs={len(obs.msgs)} yields={len(scn.log)}",
                f"RE|{c.get('outcome')}|{type(c.get('exc')).__name__}",
            ),
            obs,
        )
    docs_of = _docs_per_msg(obs)
    per = [[] for _ in cases]
    for mi, (ci, part, k, outcome, value) in enumerate(scn.log):
        per[ci].append((part, k, outcome, value, mi))
    return [judge(case, per[ci], obs.docs, docs_of) for ci, case in enumerate(cases)], None, obs


def _jsonable(case):
    progs, named, a = case
    return [[list(p) for p in progs], named, a]


def _from_json(c):
    return (tuple(tuple(p) for p in c[0]), c[1], c[2])


def run_item(item):
    cases = _cases(item["tier"])[item["lo"] : item["hi"]]
    out = {
        "evaluations": 0,
        "transitions": 0,
        "states": set(),
        "nontrivial": set(),
        "outcomes": {},
        "violations": [],
        "samples": [],
        "extra": {"caps_hit": 0, "nontrivial_cases": 0, "engine_calls": 0, "collects": 0, "stream_datums_checked": 0},
    }
    for b in range(0, len(cases), BATCH):
        batch = cases[b : b + BATCH]
        res, fatal, obs = _run_batch(batch)
        out["extra"]["engine_calls"] += 1
        if fatal is not None:
            found = False
            for c in batch:
                _r1, f1, _o = _run_batch([c])
                if f1 is not None:
                    out["violations"].append(dict(f1, cases=[_jsonable(c)]))
                    found = True
            if not found:
                out["violations"].append(dict(fatal, cases=[_jsonable(c) for c in batch]))
            out["evaluations"] += len(batch)
            continue
        out["transitions"] += len(obs.msgs)
        for case, (viol, facts) in zip(batch, res):
            out["evaluations"] += 1
            out["extra"]["collects"] += len(case[0][0])
            out["extra"]["stream_datums_checked"] += facts["datums"]
            dg = _digest(case, facts)
            out["states"].add(dg)
            if _nontrivial(case, facts):
                out["nontrivial"].add(dg)
                out["extra"]["nontrivial_cases"] += 1
            cls = f"dets={len(case[0])}|collects={len(case[0][0])}|publishing={facts['publishing_collects']}|final={min(p[-1] for p in case[0])}"
            out["outcomes"][cls] = out["outcomes"].get(cls, 0) + 1
            if viol is not None:
                r1, f1, _o = _run_batch([case])
                solo = f1 if f1 is not None else r1[0][0]
                if solo is not None:
                    out["violations"].append(dict(solo, cases=[_jsonable(case)]))
                else:
                    out["violations"].append(dict(viol, signature=viol["signature"] + "|only-in-batch", cases=[_jsonable(c) for c in batch], index=batch.index(case)))
            if len(out["samples"]) < 2 and _nontrivial(case, facts):
                out["samples"].append({"case": _jsonable(case), "observed": [list(map(str, x)) for x in facts["observed"]]})
    return out


def replay(payload):
    cases = [_from_json(c) for c in payload["cases"]]
    res, fatal, _obs = _run_batch(cases)
    if fatal is not None:
        return [fatal]
    return [v for v, _f in res if v is not None]
