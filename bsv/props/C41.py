"""C41 - monitors report only while their run is open and running."""

from bsv.props import _x1
from bsv.props._x1 import spec

ID = "C41"
LEVEL = "model_checking"
RULE = (
    "X1: a run that monitors a signal (monitor_during_wrapper / explicit monitor+unmonitor with in-line updates between messages); "
    "an external update sig.put(v) with a value of its own at every loop position, updates written by a document consumer while a start/descriptor/event/stop document is being dispatched (run closed by the plan with the monitor still installed or after unmonitor), combined (bound 2; thorough 3) with pause / "
    "suspension at every position and every post-pause decision. Oracle per update occurrence, by the engine condition when it "
    "arrives: run open, monitor installed, engine running and no suspension in effect => exactly one event carrying that value in "
    "the monitor's stream; engine paused (between state 'paused' and the caller's next call) or suspended (between the suspension "
    "helper's start and its _resume_from_suspender) => no event; after unmonitor / close_run / idle => no event and no callback of "
    "the engine left in the signal's subscriber list; the transient windows (pausing->paused, resume()->running, request->helper "
    "start) are don't-cares; non-trivial = an update arrived while the engine was paused or suspended, or was recorded"
)
ASSUMPTIONS = _x1.X1_ASSUMPTIONS + ["an update's callbacks run atomically at a loop-callback boundary (device thread not pre-empted)"]

PUT = [("put", "sig", 7), ("@once", "put", "pause", "suspend")]  # each kind at most once per schedule
INT = [("pause",), ("suspend", "none")]
SPECS = {
    "quick": [spec("monitor2", INT, bound=1), spec("monitor1", PUT, bound=1), spec("monitor1short", PUT + INT, bound=2), spec("monitorpp", [("put", "sig", 7), ("suspend", "none")], bound=1), spec("monitorpp", [("put", "sig", 7), ("suspend", "none")], bound=1, late=1)]
    # updates written by a document consumer WHILE a start / descriptor / event / stop document is being dispatched
    + [spec("monitordoc", INT, bound=1, on=on, um=um) for on in ("start", "descriptor", "event", "stop") for um in (0, 1)],
    "thorough": [spec("monitor2", INT, bound=2), spec("monitor2", INT, bound=1, a=1), spec("monitor1", PUT + INT, bound=2), spec("monitor1short", PUT + INT, bound=3), spec("monitor1short", PUT + INT, bound=2, a=1), spec("monitorpp", PUT + INT, bound=2, late=1)]
    + [spec("monitordoc", INT + [("abort",), ("stop",)], bound=2, on=on, um=um, a=a) for on in ("start", "descriptor", "event", "stop") for um in (0, 1) for a in (0, 1)],
}


def _conditions(obs):
    """Walk the timeline; yield (put entry index, value, condition) with condition in
    'record' | 'silent-paused' | 'silent-suspended' | 'silent-unmonitored' | 'dontcare'."""
    out = []
    monitored = False
    monitor_pending = False
    run_open = False
    state = "idle"
    paused_strict = False  # between ('state','paused') and the caller's next call
    susp = 0  # helpers between _start_suspender and _resume_from_suspender
    susp_pending = 0  # requested, helper not yet started
    transient = False
    for i, t in enumerate(obs.timeline):
        k = t[0]
        if k == "state":
            state = t[1]
            if t[1] == "paused":
                paused_strict, transient = True, False
            elif t[1] == "pausing":
                transient = True
            elif t[1] == "running":
                transient = False
            elif t[1] == "suspending":
                pass
            elif t[1] in ("aborting", "stopping", "halting"):
                transient = True
        elif k == "call":
            if paused_strict:
                paused_strict = False
                transient = True  # resume()/abort() issued, monitors not yet restored / torn down
        elif k == "suspend_req":
            susp_pending += 1
        elif k == "msg":
            cmd = t[2]
            if cmd == "monitor":
                monitor_pending = True  # installed once the engine's callback is actually subscribed (see 'dev')
            elif cmd == "unmonitor":
                monitored = False
            elif cmd == "open_run":
                run_open = True
            elif cmd == "close_run":
                run_open = False
                monitored = False
            elif cmd == "_start_suspender":
                susp += 1
                susp_pending = max(0, susp_pending - 1)
            elif cmd == "_resume_from_suspender":
                susp = max(0, susp - 1)
        elif k == "dev":
            if monitor_pending and t[2] == "subscribe" and "emit_event" in str(t[3]):
                monitored, monitor_pending = True, False
        elif k == "doc" and t[2] == "stop":
            run_open = False
            monitored = False
        elif k == "put":
            if not monitored or not run_open:
                # the monitor message may be in flight (hooked but not yet subscribed): only claim silence when no
                # monitor message was hooked at all or the unmonitor/close has completed (a later message was hooked)
                cond = "silent-unmonitored" if _settled(obs, i) else "dontcare"
            elif paused_strict:
                cond = "silent-paused"
            elif susp > 0:
                cond = "silent-suspended"
            elif transient or susp_pending or state != "running":
                cond = "dontcare"
            else:
                cond = "record" if _settled(obs, i) else "dontcare"
            out.append((i, t[2], cond))
    return out


def _settled(obs, i):
    """True unless the last hooked message before timeline index i is a (un)monitor/close_run/open_run still executing."""
    for j in range(i - 1, -1, -1):
        t = obs.timeline[j]
        if t[0] == "msg":
            if t[2] in ("monitor", "unmonitor", "close_run", "open_run"):
                # settled only if something shows it completed: a doc or another message after it, before i
                return any(obs.timeline[x][0] in ("msg",) for x in range(j + 1, i)) or (
                    t[2] in ("open_run", "close_run") and any(obs.timeline[x][0] == "doc" for x in range(j + 1, i))
                )
            return True
    return True


def oracle(scn, obs, ref, schedule):
    out = []
    if obs.outcome != "ok":
        return out
    tl = obs.timeline
    for i, value, cond in _conditions(obs):
        # events emitted by this update: doc entries directly following the put entry
        n = 0
        vals = []
        j = i + 1
        while j < len(tl) and tl[j][0] in ("doc", "dev"):
            if tl[j][0] == "doc" and tl[j][2] == "event" and "sig" in obs.docs[tl[j][1]][1]["data"]:  # the monitor's stream only
                n += 1
                vals.append(list(obs.docs[tl[j][1]][1]["data"].values()))
            j += 1
        if cond == "record":
            if n != 1:
                out.append((f"running-update-recorded-{n}-times", f"sig.put({value}) while running with the run open produced {n} events"))
            elif [value] not in vals:
                out.append(("recorded-wrong-value", f"sig.put({value}) recorded as {vals}"))
        elif cond.startswith("silent"):
            if n:
                out.append((f"update-recorded-while-{cond[7:]}", f"sig.put({value}) produced {n} event(s) although the engine was {cond[7:]}"))
    for c in obs.calls:
        snap = c.get("snap")
        if snap and c.get("state_drained") == "idle":
            for sig, cbs in snap["subs"].items():
                if any("emit_event" in cb for cb in cbs):
                    out.append(("monitor-callback-left-at-idle", f"{sig}: {cbs} after {c['name']}()"))
    obs.extra["c41_conditions"] = [c for _i, _v, c in _conditions(obs)]
    return out


items, run_item, replay, describe = _x1.bind(SPECS, oracle)
