"""C16 - descriptors carry the device configuration current when they were made.

X1 at 0 deviations over exhaustive programs: every sequence up to the bound over configure messages and complete
create/read/save bundles on three streams with overlapping object sets, inside one open run on the real RunEngine.
The harness keeps its own record of what each device's configuration is (it is the only one who changes it) and
checks every descriptor and every event.descriptor against that record.
"""

import hashlib
import itertools

ID = "C16"
LEVEL = "model_checking"

V0 = 1  # gain of a fresh device
OPS = {
    "cA1": ("configure", "A", 2),
    "cA2": ("configure", "A", 3),
    "cB": ("configure", "B", 5),
    "s1": ("bundle", "s1", ("A",)),
    "s2": ("bundle", "s2", ("A", "B")),
    "s3": ("bundle", "s3", ("B",)),
    # bundles that are abandoned: the objects are read (and their configuration cached) but no descriptor/event is made
    "d1": ("dropbundle", "s1", ("A",)),
    "d2": ("dropbundle", "s2", ("A", "B")),
}
ALPHABET = ["cA1", "cA2", "cB", "s1", "s2", "s3"]
ALPHABET_D = ALPHABET + ["d1", "d2"]  # family D: only the sequences that contain a dropped bundle (the others are family A)
MAXLEN_D = {"quick": 4, "thorough": 5}
KEYS = {"A": ("A1", "A2"), "B": ("B1",)}
STREAM_OBJS = {o[1]: o[2] for o in OPS.values() if o[0] == "bundle"}
MAXLEN = {"quick": 5, "thorough": 7}
BATCH = 48
ITEM = 480

RULE = (
    "X1 at 0 deviations: ALL sequences of length 1..5 (quick) / 1..7 (thorough) over {configure(A,gain=2), configure(A,gain=3), configure(B,gain=5), "
    "bundle on stream s1 reading A, bundle on s2 reading A and B, bundle on s3 reading B} inside one open run of the real RunEngine "
    "(devices start at gain=1); oracle = the harness' own record of each device's configuration: EVERY descriptor (made by a save or by a configure) "
    "has configuration[obj]['data'] == the recorded configuration of every object of its stream at that moment and data_keys identical to the stream's "
    "first descriptor; every event names an earlier descriptor of its stream carrying the configuration current at the event, and if an object of the "
    "stream was configured to a different value since, that descriptor was emitted after that configure; the configure yield receives (old, new); "
    "family D: ALL sequences of length 1..4 (quick) / 1..5 (thorough) over those six plus {create/read A/drop on s1, create/read A,B/drop on s2} that contain a dropped bundle "
    "(the object's configuration is read and cached but no descriptor is made; a dropped bundle emits no document); "
    "non-trivial = a value-changing configure(X) hit a stream that already had a descriptor AND a later event was emitted on such a stream, or (family D) a value-changing configure(X) followed a dropped bundle that read X and a later descriptor contains X"
)
ASSUMPTIONS = [
    "devices are harness fakes whose configuration changes only through Msg('configure') of the plan; each sequence starts from gain=1 (reset by the plan, outside the engine)",
    f"{BATCH} sequences share one RE(...) call, each in its own open_run/close_run; a violation is re-run alone before it is reported",
    "don't-care: whether a configure that does not change the reported value (configure(A,2) twice) produces a new descriptor; "
    "whether streams NOT containing the configured object get a fresh descriptor too (counted in the evidence as unrelated_redescribed, "
    "its content is still checked); timestamps/data_keys sub-blocks of the configuration entry",
]


def describe(tier):
    n = MAXLEN[tier]
    return {
        "bounds": {"alphabet": ALPHABET, "length": f"1..{n}", "sequences": _nseq(tier), "deviations": 0, "family_D": {"alphabet": ALPHABET_D, "length": f"1..{MAXLEN_D[tier]}", "sequences": len(_fam_d(tier))}},
        "states_means": "distinct per-sequence observation digests (per operation: outcome, documents, descriptor stream + configuration values, event stream/seq_num/age of its descriptor)",
    }


def _nseq(tier):
    return sum(len(ALPHABET) ** k for k in range(1, MAXLEN[tier] + 1))


def _seq_at(index):
    n = 1
    base = len(ALPHABET)
    while index >= base**n:
        index -= base**n
        n += 1
    out = []
    for _ in range(n):
        out.append(ALPHABET[index % base])
        index //= base
    return tuple(reversed(out))


_FAM_D = {}


def _fam_d(tier):
    if tier not in _FAM_D:
        _FAM_D[tier] = [q for n in range(1, MAXLEN_D[tier] + 1) for q in itertools.product(ALPHABET_D, repeat=n) if "d1" in q or "d2" in q]
    return _FAM_D[tier]


def items(tier, seed):
    total = _nseq(tier)
    nd = len(_fam_d(tier))
    return [{"lo": lo, "hi": min(total, lo + ITEM)} for lo in range(0, total, ITEM)] + [{"fam": "D", "tier": tier, "lo": lo, "hi": min(nd, lo + ITEM)} for lo in range(0, nd, ITEM)]


# ----------------------------------------------------------------------------- scenario
def _scenario_class():
    from bsv.harness.devices import FakeDet
    from bsv.harness.session import Scenario

    class ConfigBundles(Scenario):
        id = "c16-config"
        probe = False
        track = False

        def devices(self, ctx):
            return {n: FakeDet(ctx, n, keys=list(KEYS[n]), offset=100.0 * (i + 1), stageable=False) for i, n in enumerate(KEYS)}

        def plan(self, d):
            from bluesky.utils import Msg

            seqs = self.params["seqs"]
            self.log = log = []  # per yielded message: (seq index, op index|'open'|'close', part, outcome, value)

            def msgs_of(k, code):
                kind, a, b = OPS[code]
                if kind == "configure":
                    yield (k, "configure"), Msg("configure", d[a], gain=b)
                elif kind == "dropbundle":
                    yield (k, "create"), Msg("create", None, name=a)
                    for o in b:
                        yield (k, "read:" + o), Msg("read", d[o])
                    yield (k, "drop"), Msg("drop")
                else:
                    yield (k, "create"), Msg("create", None, name=a)
                    for o in b:
                        yield (k, "read:" + o), Msg("read", d[o])
                    yield (k, "save"), Msg("save")

            def plan():
                for si, seq in enumerate(seqs):
                    for dev in d.values():
                        dev.config = {"gain": V0}
                    stream = itertools.chain(
                        [(("open", "open_run"), Msg("open_run"))],
                        itertools.chain.from_iterable(msgs_of(k, c) for k, c in enumerate(seq)),
                        [(("close", "close_run"), Msg("close_run"))],
                    )
                    for (oi, part), msg in stream:
                        try:
                            r = yield msg
                        except Exception as e:  # noqa: BLE001
                            log.append((si, oi, part, "exc", e))
                        else:
                            log.append((si, oi, part, "ok", r))

            return plan()

    return ConfigBundles


_SCN = None


def worker_init():
    global _SCN
    _SCN = _scenario_class()


def _execute(seqs):
    from bsv.harness.session import run

    if _SCN is None:
        worker_init()
    scn = _SCN(seqs=[list(s) for s in seqs])
    return scn, run(scn)


def _docs_per_msg(obs):
    out = [[] for _ in obs.msgs]
    cur = None
    for t in obs.timeline:
        if t[0] == "msg":
            cur = t[1]
        elif t[0] == "doc" and cur is not None:
            out[cur].append(t[1])
    return out


# ----------------------------------------------------------------------------- oracle
def _v(rule, detail, sig_tail, **kw):
    return dict({"rule": rule, "detail": detail, "signature": f"{rule}|{sig_tail}"}, **kw)


def _cfg_of(desc):
    """{object: data dict} of a descriptor's configuration block."""
    return {o: (blk or {}).get("data") for o, blk in (desc.get("configuration") or {}).items()}


def judge(seq, entries, docs, docs_of):
    """entries: [(op index, part, outcome, value, msg index)].  Returns (violation|None, facts)."""
    facts = {"observed": [], "events": 0, "redescribed": 0, "unrelated_redescribed": 0, "renewals_used": 0, "descriptors": 0}
    cfg = {o: V0 for o in KEYS}  # the harness' record
    first = {}  # stream -> first descriptor doc
    descs = {}  # uid -> (doc index, doc)
    barrier = {s: -1 for s in STREAM_OBJS}  # stream -> doc index after which its events' descriptor must have been made
    run_uid = None
    hit_existing = False
    cached_only = set()  # objects read by a dropped bundle and not yet in any descriptor
    stale_risk = set()  # ... and then configured to a different value
    d_nontrivial = False

    def check_descriptor(di, doc, where):
        name = doc.get("name")
        if doc.get("run_start") != run_uid:
            return _v("descriptor-of-other-run", f"{seq}: descriptor #{di} run_start={doc.get('run_start')}", where)
        if name not in STREAM_OBJS:
            return _v("descriptor-of-unknown-stream", f"{seq}: descriptor named {name!r}", where)
        objs = STREAM_OBJS[name]
        got = _cfg_of(doc)
        if set(got) != set(objs):
            return _v("configuration-objects", f"{seq}: descriptor of {name!r} ({where}) has configuration for {sorted(got)}, stream reads {sorted(objs)}", f"{where}|{name}")
        for o in objs:
            want = {f"{o}_gain": cfg[o]}
            if got[o] != want:
                return _v(
                    "stale-configuration",
                    f"{seq}: descriptor of stream {name!r} made by {where}: configuration[{o!r}]['data']={got[o]} but the object reports {want} at that moment",
                    f"{where}|{name}|obj={o}|{'older' if got[o] and list(got[o].values())[0] != cfg[o] else 'other'}",
                )
        want_keys = set()
        for o in objs:
            want_keys |= set(KEYS[o])
        if set(doc.get("data_keys", {})) != want_keys or set(doc.get("object_keys", {})) != set(objs):
            return _v("descriptor-data-keys", f"{seq}: descriptor of {name!r} data_keys={sorted(doc.get('data_keys', {}))} object_keys={doc.get('object_keys')}", f"{where}|{name}")
        if name in first and doc.get("data_keys") != first[name].get("data_keys"):
            return _v("data-keys-changed", f"{seq}: new descriptor of {name!r} ({where}) data_keys {doc.get('data_keys')} != first descriptor's {first[name].get('data_keys')}", f"{where}|{name}")
        nonlocal d_nontrivial
        if stale_risk & set(objs):
            d_nontrivial = True
        cached_only.difference_update(objs)
        stale_risk.difference_update(objs)
        first.setdefault(name, doc)
        descs[doc["uid"]] = (di, doc)
        facts["descriptors"] += 1
        return None

    for oi, part, outcome, value, mi in entries:
        mydocs = [(di, docs[di][0], docs[di][1]) for di in docs_of[mi]]
        names = tuple(n for _di, n, _d in mydocs)
        obs_docs = []
        if outcome != "ok":
            return _v("unexpected-rejection", f"{seq}: {part} of op#{oi} raised {type(value).__name__}: {value}", f"{part.split(':')[0]}|{type(value).__name__}"), facts
        if oi == "open":
            for _di, n, doc in mydocs:
                if n == "start":
                    run_uid = doc["uid"]
            continue
        if oi == "close":
            continue
        code = seq[oi]
        kind, a, b = OPS[code]
        if part == "configure":
            old_v = cfg[a]
            if not (isinstance(value, tuple) and len(value) == 2 and value[0] == {"gain": old_v} and value[1] == {"gain": b}):
                return _v("configure-response", f"{seq} op#{oi}: configure({a}, gain={b}) with recorded gain {old_v} returned {value!r}", "configure"), facts
            cfg[a] = b
            changed = b != old_v
            if changed and a in cached_only:
                stale_risk.add(a)
            if any(n != "descriptor" for n in names):
                return _v("unexpected-documents", f"{seq} op#{oi} {code} emitted {list(names)}", f"configure|{'+'.join(sorted(set(names)))}"), facts
            got_streams = []
            for di, _n, doc in mydocs:
                bad = check_descriptor(di, doc, "configure")
                if bad is not None:
                    return bad, facts
                got_streams.append(doc["name"])
                obs_docs.append(("descriptor", doc["name"], tuple(sorted((o, tuple(v.values())) for o, v in _cfg_of(doc).items()))))
                if a in STREAM_OBJS[doc["name"]]:
                    facts["redescribed"] += 1
                else:
                    facts["unrelated_redescribed"] += 1
            if changed:
                # documents with a larger index than this one are 'new' with respect to this configure
                last_before = (mydocs[0][0] - 1) if mydocs else _last_doc_before(docs_of, mi)
                for s, objs in STREAM_OBJS.items():
                    if a in objs:
                        barrier[s] = last_before
                        if s in first:
                            hit_existing = True
        elif part == "save":
            stream = a
            if names.count("event") != 1 or names[-1] != "event" or any(n not in ("descriptor", "event") for n in names):
                return _v("save-documents", f"{seq} op#{oi}: save on {stream!r} emitted {list(names)}", f"save|{stream}|{'+'.join(names) or 'nothing'}"), facts
            for di, n, doc in mydocs[:-1]:
                bad = check_descriptor(di, doc, "save")
                if bad is not None:
                    return bad, facts
                obs_docs.append(("descriptor", doc["name"], tuple(sorted((o, tuple(v.values())) for o, v in _cfg_of(doc).items()))))
            edi, _n, ev = mydocs[-1]
            ent = descs.get(ev.get("descriptor"))
            if ent is None:
                return _v("descriptor-not-before-event", f"{seq} op#{oi}: event on {stream!r} names descriptor {ev.get('descriptor')} not emitted before it in this run", f"save|{stream}"), facts
            ddi, dd = ent
            if dd.get("name") != stream:
                return _v("descriptor-of-other-stream", f"{seq} op#{oi}: event of a bundle on {stream!r} names a descriptor of {dd.get('name')!r}", f"save|{stream}"), facts
            got = _cfg_of(dd)
            for o in STREAM_OBJS[stream]:
                if got.get(o) != {f"{o}_gain": cfg[o]}:
                    return _v(
                        "event-under-old-configuration",
                        f"{seq} op#{oi}: event on {stream!r} names descriptor #{ddi} with configuration[{o!r}]['data']={got.get(o)}; {o} was configured to gain={cfg[o]} before this event",
                        f"save|{stream}|obj={o}",
                    ), facts
            if ddi <= barrier[stream]:
                return _v(
                    "descriptor-not-renewed",
                    f"{seq} op#{oi}: event on {stream!r} names descriptor #{ddi}, made before the last value-changing configure of one of its objects (documents up to #{barrier[stream]})",
                    f"save|{stream}",
                ), facts
            if set(ev.get("data", {})) != set(dd.get("data_keys", {})):
                return _v("event-keys", f"{seq} op#{oi}: event data keys {sorted(ev.get('data', {}))} != descriptor data_keys {sorted(dd.get('data_keys', {}))}", f"save|{stream}"), facts
            facts["events"] += 1
            if barrier[stream] >= 0 and dd is not first.get(stream):
                facts["renewals_used"] += 1
            age = sum(1 for _u, (i, d) in descs.items() if d.get("name") == stream and i > ddi)
            obs_docs.append(("event", stream, ev.get("seq_num"), age))
        else:
            if names:
                return _v("unexpected-documents", f"{seq} op#{oi} {part} emitted {list(names)}", f"{part.split(':')[0]}|{'+'.join(sorted(set(names)))}"), facts
            if part == "drop":
                in_desc = set()
                for s_ in first:
                    in_desc |= set(STREAM_OBJS[s_])
                cached_only.update(set(b) - in_desc)
        facts["observed"].append((part, tuple(obs_docs)))
    facts["nontrivial"] = bool((hit_existing and facts["renewals_used"]) or d_nontrivial)
    return None, facts


def _last_doc_before(docs_of, mi):
    for j in range(mi, -1, -1):
        if docs_of[j]:
            return docs_of[j][-1]
    return -1


def _digest(facts):
    return hashlib.sha256(repr(facts["observed"]).encode()).hexdigest()[:14]


def _run_batch(seqs):
    scn, obs = _execute(seqs)
    if obs.outcome != "ok" or obs.calls[0]["outcome"] != "return" or obs.calls[0]["state_after"] != "idle" or len(scn.log) != len(obs.msgs):
        c = obs.calls[0] if obs.calls else {}
        return (
            None,
            _v(
                "engine-call-failed",
                f"batch {seqs[:2]}...: outcome={obs.outcome} call={c.get('outcome')} exc={c.get('exc')!r} state={c.get('state_after')} msgs={len(obs.msgs)} yields={len(scn.log)}",
                f"RE|{c.get('outcome')}|{type(c.get('exc')).__name__}",
            ),
            obs,
        )
    docs_of = _docs_per_msg(obs)
    per = [[] for _ in seqs]
    for mi, (si, oi, part, outcome, value) in enumerate(scn.log):
        per[si].append((oi, part, outcome, value, mi))
    return [judge(tuple(seq), per[si], obs.docs, docs_of) for si, seq in enumerate(seqs)], None, obs


def run_item(item):
    if item.get("fam") == "D":
        seqs = _fam_d(item["tier"])[item["lo"] : item["hi"]]
    else:
        seqs = [_seq_at(i) for i in range(item["lo"], item["hi"])]
    out = {
        "evaluations": 0,
        "transitions": 0,
        "states": set(),
        "nontrivial": set(),
        "outcomes": {},
        "violations": [],
        "samples": [],
        "extra": {"caps_hit": 0, "nontrivial_cases": 0, "engine_calls": 0, "descriptors_checked": 0, "events_checked": 0, "redescribed_by_configure": 0, "unrelated_redescribed": 0},
    }
    for b in range(0, len(seqs), BATCH):
        batch = seqs[b : b + BATCH]
        res, fatal, obs = _run_batch(batch)
        out["extra"]["engine_calls"] += 1
        if fatal is not None:
            found = False
            for s in batch:
                _r1, f1, _o = _run_batch([s])
                if f1 is not None:
                    out["violations"].append(dict(f1, seqs=[list(s)]))
                    found = True
            if not found:
                out["violations"].append(dict(fatal, seqs=[list(s) for s in batch]))
            out["evaluations"] += len(batch)
            continue
        out["transitions"] += len(obs.msgs)
        for seq, (viol, facts) in zip(batch, res):
            out["evaluations"] += 1
            dg = _digest(facts)
            out["states"].add(dg)
            out["extra"]["descriptors_checked"] += facts["descriptors"]
            out["extra"]["events_checked"] += facts["events"]
            out["extra"]["redescribed_by_configure"] += facts["redescribed"]
            out["extra"]["unrelated_redescribed"] += facts["unrelated_redescribed"]
            if facts.get("nontrivial"):
                out["nontrivial"].add(dg)
                out["extra"]["nontrivial_cases"] += 1
            cls = f"events={min(facts['events'], 4)}|redescribed={min(facts['redescribed'], 4)}|renewed-used={min(facts['renewals_used'], 3)}"
            out["outcomes"][cls] = out["outcomes"].get(cls, 0) + 1
            if viol is not None:
                r1, f1, _o = _run_batch([seq])
                solo = f1 if f1 is not None else r1[0][0]
                if solo is not None:
                    out["violations"].append(dict(solo, seqs=[list(seq)]))
                else:
                    out["violations"].append(dict(viol, signature=viol["signature"] + "|only-in-batch", seqs=[list(s) for s in batch], index=batch.index(seq)))
            if len(out["samples"]) < 2 and facts.get("nontrivial"):
                out["samples"].append({"sequence": list(seq), "observed": [[p, [list(map(str, x)) for x in dd]] for p, dd in facts["observed"]]})
    return out


def replay(payload):
    seqs = [tuple(s) for s in payload["seqs"]]
    res, fatal, _obs = _run_batch(seqs)
    if fatal is not None:
        return [fatal]
    return [v for v, _f in res if v is not None]
