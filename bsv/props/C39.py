"""C39 - a LiveDispatcher's re-emitted stream is a valid run.

S engine: every run with 1-2 streams x 0-3 events each, every interleaving of the events, descriptors eager or lazy,
one or two such runs through ONE dispatcher instance, through the pass-through class and two subclasses (re-label per
original stream; re-label + derived data key).  Oracle on the re-emitted documents: DOCSTREAM, per re-emitted stream
(= name of the re-emitted descriptor) seq_nums 1..N in order, stop.num_events[stream] == N.
"""

import hashlib
import itertools

from bsv.oracles.docstream import check_docstream, runs_of

ID = "C39"
LEVEL = "model_checking"
RULE = (
    "S: all runs with 1 stream ('primary' or 'baseline', 0-3 events) or 2 streams (0-3 events each, EVERY interleaving), "
    "descriptors eager/lazy, plus 13 shapes with a second descriptor issued for a stream in mid-run (159 run shapes) x 3 dispatcher classes (LiveDispatcher, re-label per original stream, re-label + "
    "derived key); single runs and two consecutive runs through one instance (quick: first run from the 14 shapes with <= 1 "
    "event per stream; thorough: all 159 x 159); oracle: DOCSTREAM on the re-emitted list, per re-emitted stream seq_nums "
    "== 1..N in emission order, stop.num_events[stream] == N (absent/0 allowed only for N == 0, no counts for streams without "
    "events); non-trivial = some re-emitted run with >= 2 events in one stream or events in 2 streams"
)
ASSUMPTIONS = [
    "the stream of a re-emitted event is the `name` of the re-emitted descriptor it points to (event-model semantics)",
    "wall-clock `time` fields and random uids are not part of any verdict or digest",
    "a second descriptor for the same stream inside one run (configuration update) is generated for 13 shapes only (single stream: after every k of n <= 3 events; four two-stream shapes)",
]
NAMES = ("primary", "baseline")
CLASSES = ("pass", "relabel", "transform")
MAXV = 2


def describe(tier):
    return {"bounds": {"streams": "1-2", "events_per_stream": "0-3", "runs_per_dispatcher": "1-2", "classes": list(CLASSES)}}


# ---------------------------------------------------------------- run shapes and input documents


def run_shapes():
    """(names, order, eager): order = tuple of stream indices, one entry per event."""
    shapes = []
    seen = set()
    for nm in NAMES:
        for n in range(4):
            shapes.append(((nm,), (0,) * n, True))
    # a second descriptor for the same stream in mid-run (what `configure` causes): entry 10+i = "re-describe stream i"
    for n in range(1, 4):
        for k in range(n + 1):
            shapes.append((("primary",), (0,) * k + (10,) + (0,) * (n - k), True))
    for order in ((0, 1, 10, 0, 1), (0, 10, 1, 0), (1, 0, 11, 1, 0), (0, 1, 10, 11, 0, 1)):
        shapes.append((NAMES, order, True))
    for a in range(4):
        for b in range(4):
            for pos in itertools.combinations(range(a + b), a):
                order = tuple(0 if i in pos else 1 for i in range(a + b))
                for eager in (True, False):
                    key = tuple(doc_plan(NAMES, order, eager))
                    if key in seen:
                        continue
                    seen.add(key)
                    shapes.append((NAMES, order, eager))
    return shapes


def doc_plan(names, order, eager):
    """Abstract document order: ('d', i) descriptor of stream i, ('e', i) an event of stream i."""
    plan = []
    declared = set()
    if eager:
        for i in range(len(names)):
            plan.append(("d", i))
            declared.add(i)
    for i in order:
        if i >= 10:
            plan.append(("r", i - 10))
            continue
        if i not in declared:
            plan.append(("d", i))
            declared.add(i)
        plan.append(("e", i))
    for i in range(len(names)):
        if i not in declared:
            plan.append(("d", i))
    return plan


def make_run(tag, names, order, eager):
    """Valid input documents of one run; uids are deterministic."""
    start = {"uid": f"{tag}-start", "time": 1.0, "scan_id": 1, "plan_name": "p"}
    docs = [("start", start)]
    keys = {0: "x", 1: "y"}
    seq = {}
    cur = {}
    for kind, i in doc_plan(names, order, eager):
        if kind in ("d", "r"):
            k = keys[i]
            cur[i] = f"{tag}-desc{i}" + ("" if kind == "d" else f"r{len(docs)}")
            docs.append(
                (
                    "descriptor",
                    {
                        "uid": cur[i],
                        "run_start": start["uid"],
                        "time": 1.5,
                        "name": names[i],
                        "data_keys": {k: {"source": "sim", "dtype": "number", "shape": []}},
                        "configuration": {},
                        "object_keys": {"det": [k]},
                        "hints": {},
                    },
                )
            )
        else:
            seq[i] = seq.get(i, 0) + 1
            k = keys[i]
            docs.append(
                (
                    "event",
                    {
                        "uid": f"{tag}-ev{i}-{seq[i]}",
                        "descriptor": cur[i],
                        "time": 2.0 + seq[i],
                        "seq_num": seq[i],
                        "data": {k: float(10 * i + seq[i])},
                        "timestamps": {k: 2.0 + seq[i]},
                        "filled": {},
                    },
                )
            )
    docs.append(
        (
            "stop",
            {
                "uid": f"{tag}-stop",
                "run_start": start["uid"],
                "time": 9.0,
                "exit_status": "success",
                "reason": "",
                "num_events": {names[i]: n for i, n in sorted(seq.items())},
            },
        )
    )
    return docs


# ---------------------------------------------------------------- dispatcher classes

_CLS = {}


def get_class(kind):
    if not _CLS:
        from bluesky.callbacks.core import CallbackBase
        from bluesky.callbacks.stream import LiveDispatcher

        class Relabel(LiveDispatcher):
            """Re-emits every event under a stream labelled after the original stream."""

            def event(self, doc):
                name = self.raw_descriptors[doc["descriptor"]]["name"]
                self.process_event(doc, stream_name=name)
                return CallbackBase.event(self, doc)

        class Transform(LiveDispatcher):
            """As Relabel, and adds a derived data key that the raw descriptor does not describe."""

            def event(self, doc):
                name = self.raw_descriptors[doc["descriptor"]]["name"]
                new = dict(doc)
                new["data"] = dict(doc["data"], total=sum(doc["data"].values()))
                self.process_event(new, stream_name=name)
                return CallbackBase.event(self, doc)

        _CLS.update({"pass": LiveDispatcher, "relabel": Relabel, "transform": Transform})
    return _CLS[kind]


def label_of(kind, raw_name):
    return "primary" if kind == "pass" else raw_name


# ---------------------------------------------------------------- one case


def _h(x):
    return hashlib.sha256(repr(x).encode()).hexdigest()[:12]


def run_case(kind, shapes):
    """shapes: list of (names, order, eager), fed consecutively through one dispatcher.  Returns (violations, info)."""
    ld = get_class(kind)()
    out = []
    ld.subscribe(lambda name, doc: out.append((name, doc)))
    fed = 0
    crashed = None
    for r, (names, order, eager) in enumerate(shapes):
        for name, doc in make_run(f"r{r}", tuple(names), tuple(order), eager):
            fed += 1
            try:
                ld(name, doc)
            except Exception as e:  # noqa: BLE001
                crashed = f"{type(e).__name__}: {str(e).splitlines()[0][:120]}"
                break
        if crashed:
            break
    vs = []
    case = {"kind": kind, "shapes": [[list(n), list(o), e] for n, o, e in shapes]}

    def add(rule, sig, detail):
        vs.append({"rule": rule, "signature": sig, "detail": f"{kind} runs={case['shapes']}: {detail}", "case": case})

    if crashed:
        add("dispatcher-raised", f"dispatcher-raised|{kind}|{crashed.split(':')[0]}", crashed)
    for rule, detail in check_docstream(out, idle_points=[] if crashed else [len(out)]):
        add("docstream", f"docstream|{kind}|{rule}", detail)
    runs = runs_of(out)
    if not crashed and len(runs) != len(shapes):
        add("run-count", f"run-count|{kind}", f"{len(shapes)} runs in, {len(runs)} re-emitted")
    digest = []
    nontrivial = False
    for r, run in enumerate(runs):
        names = shapes[r][0] if r < len(shapes) else ()
        per = {}
        for ev in run["events"]:
            d = run["descriptors"].get(ev["descriptor"])
            stream = d.get("name") if d else None
            per.setdefault(stream, []).append(ev["seq_num"])
        allseq = sorted(s for v in per.values() for s in v)
        total = len(allseq)
        with_events = sum(1 for v in per.values() if v)
        if with_events >= 2 or any(len(v) >= 2 for v in per.values()):
            nontrivial = True
        for stream, seqs in sorted(per.items(), key=lambda kv: str(kv[0])):
            if seqs != list(range(1, len(seqs) + 1)):
                if with_events >= 2 and allseq == list(range(1, total + 1)):
                    why = "one-counter-shared-by-streams"
                else:
                    why = "other"
                add(
                    "seq_nums",
                    f"seq_nums|{kind}|{why}|streams_with_events={with_events}",
                    f"re-emitted run #{r} stream {stream!r}: seq_nums {seqs}, required 1..{len(seqs)}",
                )
                break
        stop = run["stop"]
        if stop is not None:
            ne = stop.get("num_events", {}) or {}
            want = {s: len(v) for s, v in per.items()}
            bad = [s for s, n in want.items() if ne.get(s, 0) != n] + [s for s, n in ne.items() if n and s not in want]
            if bad:
                # what the defect recorded as known would produce: number of descriptors emitted under each stream_name label
                nd = {}
                for d in run["descriptors"].values():
                    lab = label_of(kind, d.get("name"))
                    nd[lab] = nd.get(lab, 0) + 1
                why = "counts-descriptors-per-stream_name" if dict(ne) == nd else "other"
                add(
                    "num_events",
                    f"num_events|{kind}|{why}",
                    f"re-emitted run #{r}: stop.num_events={dict(ne)}, events actually emitted per stream={want}",
                )
        digest.append((tuple(sorted((str(s), tuple(v)) for s, v in per.items())), tuple(sorted((stop or {}).get("num_events", {}).items())), len(run["descriptors"])))
    info = {"fed": fed, "emitted": len(out), "digest": tuple(digest), "nontrivial": nontrivial, "crashed": bool(crashed)}
    return vs, info


# ---------------------------------------------------------------- work items


def items(tier, seed):
    shapes = run_shapes()
    small = [i for i, (names, order, eager) in enumerate(shapes) if eager and all(order.count(k) <= 1 for k in range(len(names)))]
    firsts = small if tier == "quick" else list(range(len(shapes)))
    out = []
    for kind in CLASSES:
        out.append({"kind": kind, "first": None})
        for f in firsts:
            out.append({"kind": kind, "first": f})
    return out


def run_item(item):
    shapes = run_shapes()
    kind = item["kind"]
    res = {"evaluations": 0, "transitions": 0, "states": set(), "nontrivial": set(), "outcomes": {}, "violations": [], "samples": [], "extra": {"caps_hit": 0}}
    oc = res["outcomes"]
    persig = {}
    if item["first"] is None:
        cases = [[s] for s in shapes]
    else:
        cases = [[shapes[item["first"]], s] for s in shapes]
    for case in cases:
        vs, info = run_case(kind, case)
        res["evaluations"] += 1
        res["transitions"] += info["fed"]
        res["states"].add(_h((kind, info["digest"])))
        if info["nontrivial"]:
            res["nontrivial"].add(_h((kind, case)))
        if not vs:
            oc["ok"] = oc.get("ok", 0) + 1
        seen = set()
        for v in vs:
            sig = v["signature"]
            if sig in seen:
                continue
            seen.add(sig)
            oc[f"violation:{sig}"] = oc.get(f"violation:{sig}", 0) + 1
            persig[sig] = persig.get(sig, 0) + 1
            if persig[sig] <= MAXV:
                res["violations"].append(v)
        if not res["samples"] and info["nontrivial"]:
            res["samples"].append({"class": kind, "runs": [[list(n), list(o), e] for n, o, e in case], "re-emitted(per-stream seq_nums, num_events, descriptors)": repr(info["digest"])})
    res["extra"]["suppressed_duplicate_violations"] = sum(max(0, n - MAXV) for n in persig.values())
    return res


def replay(payload):
    c = payload["case"]
    shapes = [(tuple(n), tuple(o), e) for n, o, e in c["shapes"]]
    vs, _ = run_case(c["kind"], shapes)
    return [v for v in vs if v["signature"] == payload.get("signature", v["signature"])]
