"""C46 - TiledWriter stores exactly the run it was given.

S engine against an in-process Tiled catalog (tiled.catalog.in_memory + tiled.server.app.build_app +
tiled.client.Context.from_app, one per worker, built once in worker_init): every generated run of the bounded grammar
below is written through the REAL TiledWriter and read back from the catalog.
"""

import atexit
import hashlib
import os
import shutil
import tempfile

ID = "C46"
LEVEL = "model_checking"
RULE = (
    "S: every run of the grammar {primary stream: 0-3 events as event documents or one event_page; internal keys x (float), "
    "s (string) and - with the normaliser - the reserved name `time`; 0-1 external key `img` (stream_resource + stream_datum) "
    "whose n frames arrive in every composition of n into 1-3 consecutive stream datums, at the end or interleaved with the "
    "events; optional second stream `baseline` with 0-2 events around the primary ones; the primary descriptor issued a second time after k of n <= 3 events} x batch_size in {0,1,2,10000} x "
    "normaliser on/off (thorough: 804 runs - baseline in {none, 0, 2 events}, the reserved name without external key; quick: the 128-run sub-grammar n in {0, 2 events, 3 paged}, external none / "
    "one datum / one datum per frame at the end, baseline none / 1 event, normaliser off+{x,s} / on+{x,s,time}); oracle after "
    "the stop: container metadata has the start and stop documents, per stream the `internal` table has one row per event in "
    "seq_num order with the event's time and values, the external array node exists and its leading length == total indices "
    "received; non-trivial = >= 2 events in a stream with batch_size >= 2 (batching effective) or an external key"
)
ASSUMPTIONS = [
    "in-process catalog: tiled 0.2.18 transient sqlite catalog (tiled.catalog.from_uri('sqlite:///:memory:'), i.e. in_memory() without its no-op init subprocess) with writable_storage={filesystem, duckdb file} in a scratch directory per worker",
    "external files are never read (only the registered array structure is inspected)",
    "a stream with 0 events may have no `internal` table (the statement speaks of rows per event)",
    "the reserved data key `time` is only generated with the normaliser (the bare _RunWriter documents that it expects normalised documents)",
]
MAXV = 2
CHUNKSIZE = 1
BATCHES = (0, 1, 2, 10000)

_ROOT = None  # scratch root created by the parent in items(); removed by the parent at exit
_W = {}  # per-process catalog / client


def describe(tier):
    return {"bounds": {"primary_events": "0-3", "baseline_events": "none/1 (quick), none/0/2 (thorough)", "stream_datums": "1-3", "batch_sizes": list(BATCHES), "normaliser": ["on", "off"]}}


def _h(x):
    return hashlib.sha256(repr(x).encode()).hexdigest()[:12]


# ---------------------------------------------------------------- catalog


def _preimport():
    import bluesky.callbacks.tiled_writer  # noqa: F401
    import tiled.catalog  # noqa: F401
    import tiled.client  # noqa: F401
    import tiled.server.app  # noqa: F401


def _cleanup_root(path):
    shutil.rmtree(path, ignore_errors=True)


def worker_init():
    """Build the catalog once per process."""
    global _ROOT
    if _W:
        return
    _preimport()
    from tiled.catalog import from_uri, in_memory
    from tiled.client import Context, from_context
    from tiled.server.app import build_app

    if _ROOT is None or not os.path.isdir(_ROOT):
        _ROOT = tempfile.mkdtemp(dir="/var/tmp", prefix="bsv-c46-")
        atexit.register(_cleanup_root, _ROOT)
    d = tempfile.mkdtemp(dir=_ROOT, prefix=f"w{os.getpid()}-")
    storage = {"filesystem": d, "sql": f"duckdb:///{d}/tables.db"}
    try:
        # what in_memory() does, minus its `python -m tiled catalog init sqlite:///:memory:` subprocess, which initialises a
        # database private to that subprocess (the transient database is initialised by the adapter's startup anyway)
        catalog = from_uri("sqlite:///:memory:", writable_storage=storage, readable_storage=[d], init_if_not_exists=False)
    except Exception:  # noqa: BLE001 - other tiled versions
        catalog = in_memory(writable_storage=storage, readable_storage=[d])
    app = build_app(catalog)
    ctx = Context.from_app(app)
    ctx.__enter__()
    _W.update({"dir": d, "ctx": ctx, "client": from_context(ctx), "n": 0})


# ---------------------------------------------------------------- grammar


def _compositions(n):
    if n == 0:
        return [()]
    out = []
    for first in range(1, n + 1):
        for rest in _compositions(n - first):
            out.append((first,) + rest)
    return [c for c in out if len(c) <= 3]


def cases(tier):
    out = []
    if tier == "quick":
        forms = [(0, False), (2, False), (3, True)]
        for n, paged in forms:
            exts = [None]
            if n:
                exts += [{"parts": [n], "place": "end"}]
                if n > 1:
                    exts += [{"parts": [1] * n, "place": "end"}]
            for ext in exts:
                for base in (None, 1):
                    for batch in BATCHES:
                        for norm, reserved in ((False, False), (True, True)):
                            out.append({"n": n, "paged": paged, "ext": ext, "baseline": base, "batch": batch, "norm": norm, "reserved": reserved})
        out.extend(_redesc_cases((3,)))
        return out
    for n in range(4):
        for paged in (False, True):
            if paged and n == 0:
                continue
            exts = [None]
            for comp in _compositions(n) if n else []:
                exts.append({"parts": list(comp), "place": "end"})
                if len(comp) > 1:
                    exts.append({"parts": list(comp), "place": "interleaved"})
            for ext in exts:
                for base in (None, 0, 2):
                    for batch in BATCHES:
                        for norm, reserved in ((False, False), (True, False), (True, True)):
                            if reserved and ext is not None:
                                continue  # the reserved name is combined with every event form / baseline / batch, not with every datum split
                            out.append({"n": n, "paged": paged, "ext": ext, "baseline": base, "batch": batch, "norm": norm, "reserved": reserved})
    out.extend(_redesc_cases((2, 3)))
    return out


def _redesc_cases(ns):
    """The primary descriptor is issued again (new uid, same stream) after k of the n events - what `configure` causes."""
    out = []
    for n in ns:
        for k in range(1, n):
            for batch in BATCHES:
                for norm in (False, True):
                    out.append({"n": n, "paged": False, "ext": None, "baseline": None, "batch": batch, "norm": norm, "reserved": False, "redesc": k})
    return out


def make_run(c, uid, root):
    n, ext = c["n"], c["ext"]
    keys = ["x", "s"] + (["time"] if c["reserved"] else [])
    dk = {
        "x": {"source": "sim", "dtype": "number", "shape": [], "dtype_numpy": "<f8"},
        "s": {"source": "sim", "dtype": "string", "shape": [], "dtype_numpy": "<U8"},
        "time": {"source": "sim", "dtype": "number", "shape": [], "dtype_numpy": "<f8"},
    }
    data_keys = {k: dict(dk[k], object_name="det") for k in keys}
    if ext:
        data_keys["img"] = {"source": "file", "dtype": "array", "shape": [1, 2, 2], "dtype_numpy": "<i8", "external": "STREAM:", "object_name": "det"}
    start = {"uid": uid, "time": 100.5, "scan_id": 3, "plan_name": "generated", "sample": {"name": "s1", "tags": ["a", "b"]}}
    docs = [("start", start)]
    docs.append(
        (
            "descriptor",
            {
                "uid": f"{uid}-dp",
                "run_start": uid,
                "time": 101.0,
                "name": "primary",
                "data_keys": data_keys,
                "configuration": {"det": {"data": {}, "timestamps": {}, "data_keys": {}}},
                "object_keys": {"det": list(data_keys)},
                "hints": {},
            },
        )
    )
    base = c["baseline"]
    bevents = []
    if base is not None:
        docs.append(
            (
                "descriptor",
                {
                    "uid": f"{uid}-db",
                    "run_start": uid,
                    "time": 101.5,
                    "name": "baseline",
                    "data_keys": {"y": {"source": "sim", "dtype": "number", "shape": [], "dtype_numpy": "<f8", "object_name": "mot"}},
                    "configuration": {"mot": {"data": {}, "timestamps": {}, "data_keys": {}}},
                    "object_keys": {"mot": ["y"]},
                    "hints": {},
                },
            )
        )
        for s in range(1, base + 1):
            bevents.append(("event", {"uid": f"{uid}-eb{s}", "descriptor": f"{uid}-db", "time": 300.0 + s, "seq_num": s, "data": {"y": -1.5 * s}, "timestamps": {"y": 300.0 + s}, "filled": {}}))
    if ext:
        docs.append(
            (
                "stream_resource",
                {
                    "uid": f"{uid}-sr",
                    "run_start": uid,
                    "data_key": "img",
                    "mimetype": "application/x-hdf5",
                    "uri": "file://localhost" + os.path.join(root, "never_read.h5"),
                    "parameters": {"dataset": "/entry/data", "chunk_shape": [100, 2, 2]},
                },
            )
        )
    if bevents:
        docs.append(bevents[0])
    events = []
    for s in range(1, n + 1):
        vals = {"x": 0.25 * s, "s": f"v{s}", "time": 7000.0 + s}
        events.append({"uid": f"{uid}-ep{s}", "descriptor": f"{uid}-dp", "time": 200.0 + s, "seq_num": s, "data": {k: vals[k] for k in keys}, "timestamps": {k: 200.0 + s for k in keys}, "filled": {}})
    sdatums = []
    if ext:
        lo = 0
        for j, size in enumerate(ext["parts"]):
            sdatums.append({"uid": f"{uid}-sd{j}", "stream_resource": f"{uid}-sr", "descriptor": f"{uid}-dp", "indices": {"start": lo, "stop": lo + size}, "seq_nums": {"start": lo + 1, "stop": lo + size + 1}})
            lo += size
    if c["paged"]:
        page = {
            "uid": [e["uid"] for e in events],
            "descriptor": f"{uid}-dp",
            "time": [e["time"] for e in events],
            "seq_num": [e["seq_num"] for e in events],
            "data": {k: [e["data"][k] for e in events] for k in keys},
            "timestamps": {k: [e["timestamps"][k] for e in events] for k in keys},
            "filled": {},
        }
        docs.append(("event_page", page))
        docs.extend(("stream_datum", d) for d in sdatums)
    elif ext and ext["place"] == "interleaved":
        pending = list(sdatums)
        for e in events:
            docs.append(("event", e))
            while pending and pending[0]["indices"]["stop"] <= e["seq_num"]:
                docs.append(("stream_datum", pending.pop(0)))
    elif c.get("redesc"):
        k = c["redesc"]
        d2 = dict(docs[1][1], uid=f"{uid}-dp2", time=201.5)
        for e in events[k:]:
            e["descriptor"] = d2["uid"]
        docs.extend(("event", e) for e in events[:k])
        docs.append(("descriptor", d2))
        docs.extend(("event", e) for e in events[k:])
    else:
        docs.extend(("event", e) for e in events)
        docs.extend(("stream_datum", d) for d in sdatums)
    docs.extend(bevents[1:])
    num = {"primary": n}
    if base is not None:
        num["baseline"] = base
    stop = {"uid": f"{uid}-stop", "run_start": uid, "time": 900.0, "exit_status": "success", "reason": "", "num_events": num}
    docs.append(("stop", stop))
    expect = {
        "start": start,
        "stop": stop,
        "streams": {"primary": {"events": events, "keys": keys}},
        "ext_total": sum(ext["parts"]) if ext else None,
    }
    if base is not None:
        expect["streams"]["baseline"] = {"events": [e for _n, e in bevents], "keys": ["y"]}
    return docs, expect


# ---------------------------------------------------------------- one run


def _subset(want, got):
    """First key of `want` whose value is not found (JSON-equal) in `got`."""
    for k, v in want.items():
        if k not in got:
            return k
        g = got[k]
        if isinstance(v, dict) and hasattr(g, "items"):
            if _subset(v, dict(g)) is not None:
                return k
        elif isinstance(v, (list, tuple)):
            if list(g) != list(v):
                return k
        elif g != v:
            return k
    return None


def run_case(c):
    from bluesky.callbacks.tiled_writer import TiledWriter

    worker_init()
    client = _W["client"]
    uid = "c46-" + _h(sorted(c.items(), key=lambda kv: kv[0]))
    _W["n"] += 1
    if uid in client:  # replay inside a process that already wrote this case
        uid = f"{uid}-{_W['n']}"
    docs, exp = make_run(c, uid, _W["dir"])
    vs = []
    bclass = {0: "immediate", 1: "immediate", 2: "small", 10000: "never-full"}[c["batch"]]
    shape = f"normalizer={'on' if c['norm'] else 'off'}|batch={bclass}|paged={c['paged']}"

    def add(rule, extra, detail):
        vs.append({"rule": rule, "signature": f"{rule}|{shape}|{extra}", "detail": f"case={c}: {detail}", "case": c})

    def slug(e):
        return "-".join(str(e).split()[:4]).replace("|", "/")[:60]

    tw = TiledWriter(client, batch_size=c["batch"]) if c["norm"] else TiledWriter(client, batch_size=c["batch"], normalizer=None)
    fed = 0
    for name, doc in docs:
        fed += 1
        try:
            tw(name, doc)
        except Exception as e:  # noqa: BLE001
            add("writer-raised", f"{name}|{type(e).__name__}|reserved_key={c['reserved']}|msg={slug(e)}", f"on {name} #{fed - 1}: {type(e).__name__}: {str(e).splitlines()[0][:200]}")
            return vs, {"fed": fed, "digest": ("raised", name)}
    digest = []
    try:
        run = client[uid]
        md = dict(run.metadata)
        for part in ("start", "stop"):
            if part not in md:
                add(f"{part}-metadata", "absent", f"container metadata has no '{part}' (keys {sorted(md)})")
            else:
                k = _subset(exp[part], dict(md[part]))
                if k is not None:
                    add(f"{part}-metadata", f"key={k}", f"{part}[{k!r}] stored as {dict(md[part]).get(k)!r}, given {exp[part][k]!r}")
        for sname, info in exp["streams"].items():
            evs = info["events"]
            if sname not in run:
                add("stream-missing", sname, f"no node for stream {sname}")
                continue
            node = run[sname].base
            if "internal" not in node:
                digest.append((sname, None))
                if evs:
                    add("table-missing", f"events_mod_batch={'0' if c['batch'] and len(evs) % c['batch'] == 0 else 'rest'}", f"stream {sname}: {len(evs)} events but no internal table")
                continue
            df = node["internal"].read()
            rows = len(df)
            digest.append((sname, rows, tuple(sorted(df.columns))))
            if rows != len(evs):
                rel = "fewer" if rows < len(evs) else "more"
                add("row-count", f"{rel}|stream={sname}", f"stream {sname}: {rows} rows for {len(evs)} events")
                continue
            if list(df["seq_num"]) != [e["seq_num"] for e in evs]:
                add("seq-order", f"stream={sname}", f"stream {sname}: seq_num column {list(df['seq_num'])}")
                continue
            if list(df["time"]) != [e["time"] for e in evs]:
                add("time-column", f"stream={sname}|reserved={c['reserved']}", f"stream {sname}: time column {list(df['time'])}, event times {[e['time'] for e in evs]}")
            for k in info["keys"]:
                col = f"_{k}" if (k in ("time", "seq_num") and c["norm"]) else k
                if col not in df.columns:
                    add("values", f"column-missing|key={k}", f"stream {sname}: no column {col!r} (have {sorted(df.columns)})")
                elif list(df[col]) != [e["data"][k] for e in evs]:
                    add("values", f"differ|key={k}", f"stream {sname}: column {col} = {list(df[col])}, events {[e['data'][k] for e in evs]}")
        if exp["ext_total"] is not None:
            node = run["primary"].base
            if "img" not in node:
                add("ext-missing", "img", "no array node for the external key")
            else:
                shp = tuple(node["img"].shape)
                digest.append(("img", shp))
                if not shp or shp[0] != exp["ext_total"]:
                    add("ext-length", f"datums={len(c['ext']['parts'])}|place={c['ext']['place']}", f"external array shape {shp}, indices received {exp['ext_total']}")
    except Exception as e:  # noqa: BLE001 - reading back failed
        add("readback-raised", type(e).__name__, f"{type(e).__name__}: {str(e).splitlines()[0][:200]}")
    return vs, {"fed": fed, "digest": tuple(digest)}


def _nontrivial(c):
    return c["ext"] is not None or (c["batch"] >= 2 and (c["n"] >= 2 or (c["baseline"] or 0) >= 2))


# ---------------------------------------------------------------- plumbing


def items(tier, seed):
    global _ROOT
    _preimport()  # in the parent: forked workers inherit the imports
    if _ROOT is None:
        _ROOT = tempfile.mkdtemp(dir="/var/tmp", prefix="bsv-c46-")
        atexit.register(_cleanup_root, _ROOT)
    cs = cases(tier)
    if tier == "quick":
        return [{"cases": cs[i::16]} for i in range(16)]
    return [{"cases": cs[i : i + 6]} for i in range(0, len(cs), 6)]


def run_item(item):
    res = {"evaluations": 0, "transitions": 0, "states": set(), "nontrivial": set(), "outcomes": {}, "violations": [], "samples": [], "extra": {"caps_hit": 0}}
    oc = res["outcomes"]
    for c in item["cases"]:
        vs, info = run_case(c)
        res["evaluations"] += 1
        res["transitions"] += info["fed"]
        res["states"].add(_h(info["digest"]))
        if _nontrivial(c):
            res["nontrivial"].add(_h(sorted(c.items(), key=lambda kv: kv[0])))
        if not vs:
            k = f"ok:{len(info['digest'])}-nodes"
            oc[k] = oc.get(k, 0) + 1
        for v in vs:
            oc[f"violation:{v['signature']}"] = oc.get(f"violation:{v['signature']}", 0) + 1
            res["violations"].append(v)
        if not res["samples"] and _nontrivial(c):
            res["samples"].append({"case": c, "read_back": repr(info["digest"])})
    return res


def replay(payload):
    vs, _ = run_case(payload["case"])
    return [v for v in vs if v["signature"] == payload.get("signature", v["signature"])]
