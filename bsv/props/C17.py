"""C17 - RunStart metadata merges its four sources with the documented precedence.

S engine on the real RunEngine.  A case = one RE(...) call:
  * for each of the keys 'plan_name', 'plan_type' and the free key 'k17' a 4-bit mask (P, I, O, K):
      P  the persistent RE.md defines the key                      value 'P<n>:<key>'
      I  plan identity variant.  The identity source defines plan_name/plan_type ALWAYS and the free key NEVER, so
         the bit selects the variant: plan_name -> the plan object carries __name__ ('I<n>:plan_name') or not ('' for
         an object without __name__); plan_type -> the plan is a PlanA or a PlanB instance (thorough adds a bare
         generator object); free key -> the plan object carries an ATTRIBUTE k17 (which must not leak) or not
      O  the open_run message defines the key                       value 'O<n>.<run>:<key>'  (differs per run)
      K  the RE(...) keyword arguments define the key               value 'K<n>:<key>'
  * metadata normaliser in {identity, key-renaming (key -> 'norm_'+key for the three keys)}
  * validator in {accept, reject (the (runs//2+1)-th open_run of the call; the plan catches at the yield)}
    thorough adds reject with a plan that does NOT catch
  * 1..3 runs in the call
Cases of one work item are played one after the other on ONE engine (values carry the case serial <n>, so a value
left over from an earlier call is recognisably wrong; scan_id continuity is checked across calls).
"""

import hashlib
import itertools

ID = "C17"
LEVEL = "model_checking"
RULE = (
    "S on the real RunEngine: every (P,I,O,K) source mask for each of 3 keys (plan_name, plan_type, one free key; 16^3 "
    "combinations, source- and call-tagged values, O values differ per run) x normaliser {identity, key-renaming}; "
    "validator {accept, reject the (runs//2+1)-th open_run (plan catches)} x runs per call in {1,2,3}, full cross (49152 "
    "calls) plus every mask combination once more with the persistent dictionary REPLACED before the call (RE.md = a new dict with the same content; 4096 calls, thorough x normaliser x validator); thorough adds a third validator mode (reject, plan does not catch) and a bare-generator plan object as third "
    "plan_type variant (92160 calls).  Oracle per emitted "
    "start: merged = RE.md < identity(type(plan).__name__, getattr(plan,'__name__','')) < open_run kwargs < RE kwargs "
    "compared in full with what validator and normaliser were given; start document == normaliser output + uid/time; "
    "scan_id of consecutive emitted starts differs by 1 (+ at most the rejected attempts in between) and RE.md['scan_id'] "
    "tracks it; rejected open_run -> no start, the validator's exception object arrives at that yield (or leaves RE(...) "
    "when not caught).  non-trivial = some key defined by >= 2 sources in that call"
)
ASSUMPTIONS = [
    "plan identity is what the RunEngine documents: plan_type = type(plan).__name__, plan_name = getattr(plan, '__name__', '') of the object passed to RE(...); "
    "it always defines these two keys and never another one, so the I bit enumerates identity VARIANTS (see module docstring)",
    "don't-care: whether a rejected open_run consumes a scan_id (difference between emitted starts may grow by the number of rejected attempts in between)",
    "runs contain no events (open_run/close_run only); metadata values are strings",
    "cases of one work item share an engine; a replay re-plays the work item's cases up to the failing one",
]

KEYS = ("plan_name", "plan_type", "k17")
MARK = "c17_attempt"  # always given by open_run: '<case serial>.<run index>'
P, I, O, K = 8, 4, 2, 1
CHUNK = 96
MAXV = 3


def describe(tier):
    return {
        "bounds": {
            "keys": list(KEYS),
            "masks_per_key": 16,
            "normalisers": ["identity", "rename"],
            "validators": ["accept", "reject-caught"] + (["reject-uncaught"] if tier == "thorough" else []),
            "runs_per_call": [1, 2, 3],
            "plan_objects": ["PlanA", "PlanB"] + (["generator"] if tier == "thorough" else []),
        },
        "dont_cares": ["scan_id consumption by a rejected open_run"],
    }


# ------------------------------------------------------------------------------------------------ enumeration


def _cases(tier):
    """(masks(3), form, norm, val, runs).  form: 'class' (plan_type I bit picks PlanA/PlanB) or 'gen'."""
    out = []
    all_masks = list(itertools.product(range(16), repeat=3))
    if tier == "quick":
        for masks in all_masks:
            for norm in ("identity", "rename"):
                for val in ("accept", "reject"):
                    for runs in (1, 2, 3):
                        out.append((masks, "class", norm, val, runs))
        # the persistent source REPLACED (RE.md = <new dict with the same content>) just before the call
        for masks in all_masks:
            out.append((masks, "class-newmd", "identity", "accept", 2))
    else:
        for masks in all_masks:
            for norm in ("identity", "rename"):
                for val in ("accept", "reject", "reject-uncaught"):
                    for runs in (1, 2, 3):
                        out.append((masks, "class", norm, val, runs))
        for masks in all_masks:
            for norm in ("identity", "rename"):
                for val in ("accept", "reject"):
                    out.append((masks, "class-newmd", norm, val, 2))
        # bare generator object: cannot carry attributes (free-key I bit fixed 0); plan_type I bit fixed 0
        for masks in all_masks:
            if masks[1] & I or masks[2] & I:
                continue
            for norm in ("identity", "rename"):
                for val in ("accept", "reject", "reject-uncaught"):
                    for runs in (1, 2, 3):
                        out.append((masks, "gen", norm, val, runs))
    return out


def items(tier, seed):
    cases = _cases(tier)
    return [{"cases": cases[i : i + CHUNK]} for i in range(0, len(cases), CHUNK)]


def _hash(x):
    return hashlib.sha256(repr(x).encode()).hexdigest()[:12]


# ------------------------------------------------------------------------------------------------ execution


class Reject(Exception):
    pass


_CLS = None


def _classes():
    global _CLS
    if _CLS is not None:
        return _CLS
    from bsv.harness.session import Scenario, Session

    class Scn(Scenario):
        id = "C17"
        probe = False
        horizon = 1000000

    class PlanA:
        def __init__(self, genfunc):
            self._genfunc = genfunc

        def __iter__(self):
            return self._genfunc()

    class PlanB(PlanA):
        pass

    class Multi(Session):
        def __init__(self, cases):
            super().__init__(Scn())
            self.cases = cases
            self.results = []

        def _script(self, RE, Msg, RunEngineInterrupted):
            for n, case in enumerate(self.cases):
                self.results.append(self._one(RE, Msg, n, case))

        def _one(self, RE, Msg, n, case):
            masks, form, norm, val, runs = case
            masks = tuple(masks)
            res = {"n": n}
            if form.endswith("-newmd"):
                RE.md = dict(RE.md)  # a new persistent dictionary (same content, scan_id included) is installed
            # persistent source
            for key, mk in zip(KEYS, masks):
                if mk & P:
                    RE.md[key] = f"P{n}:{key}"
                else:
                    RE.md.pop(key, None)
            persistent = {k: v for k, v in RE.md.items()}
            # open_run and RE(...) sources
            okw = [{key: f"O{n}.{r}:{key}" for key, mk in zip(KEYS, masks) if mk & O} for r in range(runs)]
            for r in range(runs):
                okw[r][MARK] = f"{n}.{r}"  # names the attempt for validator/normaliser, whatever they are called with
            kkw = {key: f"K{n}:{key}" for key, mk in zip(KEYS, masks) if mk & K}
            reject_at = (runs // 2) if val != "accept" else None  # 0-based attempt index
            catch = val != "reject-uncaught"
            caught, uids = [], []

            def c17_plan():
                for r in range(runs):
                    if catch:
                        try:
                            uid = yield Msg("open_run", **okw[r])
                        except Exception as e:  # noqa: BLE001 - whatever arrives at the yield is the observation
                            caught.append((r, e))
                            continue
                    else:
                        uid = yield Msg("open_run", **okw[r])
                    uids.append((r, uid))
                    yield Msg("close_run")

            # plan identity
            if form == "gen":
                plan = c17_plan()
                if masks[0] & I:
                    plan.__name__ = f"I{n}:plan_name"
            else:
                plan = (PlanB if masks[1] & I else PlanA)(c17_plan)
                if masks[0] & I:
                    plan.__name__ = f"I{n}:plan_name"
                if masks[2] & I:
                    plan.k17 = f"I{n}:k17"
            identity = {"plan_type": type(plan).__name__, "plan_name": getattr(plan, "__name__", "")}
            # validator / normaliser
            vlog, nlog, raised = [], [], []

            def validator(md):
                vlog.append(dict(md))
                if reject_at is not None and md.get(MARK) == f"{n}.{reject_at}":
                    e = Reject(f"case {n} attempt {reject_at}")
                    raised.append(e)
                    raise e

            def normaliser(md):
                d = dict(md)
                if norm == "rename":
                    d = {("norm_" + k if k in KEYS else k): v for k, v in d.items()}
                nlog.append((dict(md), dict(d)))
                return d

            RE.md_validator = validator
            RE.md_normalizer = normaliser
            d0 = len(self.docs)
            rec = self._call(f"case{n}", lambda: RE(plan, **kkw))
            res.update(
                persistent=persistent,
                identity=identity,
                okw=okw,
                kkw=kkw,
                reject_at=reject_at,
                catch=catch,
                caught=caught,
                raised=raised,
                uids=uids,
                vlog=vlog,
                nlog=nlog,
                docs=self.docs[d0:],
                outcome=rec["outcome"],
                exc=rec["exc"],
                state_after=rec["state_after"],
                ret=rec["value"],
                scan_after=RE.md.get("scan_id"),
                md_after={k: RE.md.get(k) for k in KEYS if k in RE.md},
            )
            return res

    _CLS = Multi
    return Multi


def _sig_masks(masks):
    # shape of the input independent of incidental numbering: per key which sources define it
    def one(mk):
        return "".join(ch for ch, b in (("P", P), ("I", I), ("O", O), ("K", K)) if mk & b) or "-"

    return ",".join(one(mk) for mk in masks)


def judge(case, res, track):
    """track: dict(last=scan_id of the last emitted start or None, rejected=rejected attempts since)."""
    masks, form, norm, val, runs = case
    out = []

    def v(rule, shape, detail):
        out.append((rule, shape, detail))

    starts = [d for n_, d in res["docs"] if n_ == "start"]
    kinds = [n_ for n_, d in res["docs"]]
    reject_at, catch = res["reject_at"], res["catch"]
    if reject_at is None:
        attempts, emitted_runs = runs, list(range(runs))
    elif catch:
        attempts, emitted_runs = runs, [r for r in range(runs) if r != reject_at]
    else:
        attempts, emitted_runs = reject_at + 1, list(range(reject_at))
    # ---- outcome of the call and of the rejected attempt
    if reject_at is None or catch:
        if (res["outcome"], res["state_after"]) != ("return", "idle"):
            v("call-failed", f"val={val}", f"RE(...) {res['outcome']} {type(res['exc']).__name__}: {res['exc']} state {res['state_after']}")
    else:
        if res["outcome"] != "raise" or not any(res["exc"] is e for e in res["raised"]):
            v("uncaught-rejection-not-raised", f"val={val}", f"RE(...) {res['outcome']} {type(res['exc']).__name__}: {res['exc']}; validator raised {res['raised']}")
        if res["state_after"] != "idle":
            v("not-idle-after-rejection", f"val={val}", f"state {res['state_after']}")
    if reject_at is not None:
        if len(res["raised"]) < 1:
            v("validator-not-consulted", f"val={val}", f"validator never saw attempt {reject_at}")
        elif catch:
            if len(res["caught"]) != 1 or res["caught"][0][0] != reject_at or not any(res["caught"][0][1] is e for e in res["raised"]):
                v("rejection-not-at-yield", f"val={val}", f"plan caught {[(r, repr(e)) for r, e in res['caught']]}, validator raised {res['raised']} at attempt {reject_at}")
    elif res["caught"]:
        v("spurious-exception-at-open_run", f"val={val}", f"plan caught {[(r, repr(e)) for r, e in res['caught']]}")
    if len(starts) != len(emitted_runs):
        rule = "start-emitted-despite-rejection" if len(starts) > len(emitted_runs) else "start-missing"
        v(rule, f"val={val},runs={runs}", f"{len(starts)} start documents, expected {len(emitted_runs)} (kinds {kinds})")
        return out
    if kinds != ["start", "stop"] * len(emitted_runs):
        v("stream-shape", f"val={val},runs={runs}", f"kinds {kinds}")
        return out
    if [r for r, _ in res["uids"]] != emitted_runs or [u for _, u in res["uids"]] != [d["uid"] for d in starts]:
        v("open_run-return", f"val={val}", f"open_run returned {res['uids']}, starts {[d['uid'] for d in starts]}")
    # ---- precedence, per attempt (validator input) and per emitted start
    n = res["n"]
    expected_merged = []
    for r in range(attempts):
        m = dict(res["persistent"])
        m.pop("scan_id", None)
        m.update(res["identity"])
        m.update(res["okw"][r])
        m.update(res["kkw"])
        expected_merged.append(m)

    def renamed(d):
        return {("norm_" + k if k in KEYS else k): x for k, x in d.items()}

    for r in range(attempts):
        calls = [md for md in res["vlog"] if md.get(MARK) == f"{n}.{r}"]
        if not calls:
            v("validator-not-consulted", f"val={val},runs={runs}", f"validator never saw attempt {r} ({len(res['vlog'])} calls in all)")
        for got in calls:
            got = dict(got)
            got.pop("scan_id", None)
            # the statement does not say whether the validator sees the metadata before or after normalisation
            if got != expected_merged[r] and not (norm == "rename" and got == renamed(expected_merged[r])):
                diff = sorted(k for k in set(got) | set(expected_merged[r]) if got.get(k, "<absent>") != expected_merged[r].get(k, "<absent>"))
                for k in diff:
                    v("precedence", f"key={k if k in KEYS else 'other'},mask={_key_mask(masks, k)},at=validator", f"attempt {r}: validator saw {k}={got.get(k, '<absent>')!r}, merged sources give {expected_merged[r].get(k, '<absent>')!r}")
    stray = [md.get(MARK) for md in res["vlog"] if md.get(MARK) not in {f"{n}.{r}" for r in range(attempts)}]
    if stray:
        v("validator-foreign-attempt", f"val={val}", f"validator saw attempts {stray[:3]} which this call did not make")
    for r, doc in zip(emitted_runs, starts):
        exp = dict(expected_merged[r])
        nl = [x for x in res["nlog"] if x[0].get(MARK) == f"{n}.{r}"]
        if not nl:
            v("normaliser-not-called", f"norm={norm}", f"run {r}: the normaliser never saw this open_run")
            continue
        for nin, _nout in nl:
            nin2 = dict(nin)
            nin2.pop("scan_id", None)
            if nin2 != exp:
                for k in sorted(k for k in set(nin2) | set(exp) if nin2.get(k, "<absent>") != exp.get(k, "<absent>")):
                    v("precedence", f"key={k if k in KEYS else 'other'},mask={_key_mask(masks, k)},at=normaliser", f"run {r}: normaliser was given {k}={nin2.get(k, '<absent>')!r}, merged sources give {exp.get(k, '<absent>')!r}")
        nout = nl[-1][1]
        body = {k: x for k, x in doc.items() if k not in ("uid", "time")}
        if not any(body == x[1] for x in nl):
            for k in sorted(k for k in set(body) | set(nout) if body.get(k, "<absent>") != nout.get(k, "<absent>")):
                v("start-differs-from-normaliser-output", f"key={k if k in KEYS or k.startswith('norm_') else 'other'},norm={norm}", f"run {r}: start has {k}={body.get(k, '<absent>')!r}, normaliser returned {nout.get(k, '<absent>')!r}")
        # the statement itself, directly on the document
        for key in KEYS:
            want = exp.get(key, "<absent>")
            dk = "norm_" + key if norm == "rename" else key
            have = doc.get(dk, "<absent>")
            if have != want:
                v("precedence", f"key={key},mask={_key_mask(masks, key)},at=start", f"run {r}: start[{dk!r}]={have!r}, expected {want!r} ({_sig_masks(masks)} form={form})")
            if norm == "rename" and key in doc:
                v("normaliser-not-applied", f"key={key}", f"run {r}: start still has {key}={doc[key]!r} next to the renamed key")
    # ---- scan_id (attempts in order; a rejected attempt may or may not have consumed a number: don't-care)
    it = iter(starts)
    for r in range(attempts):
        if reject_at is not None and r == reject_at:
            track["rejected"] += 1
            continue
        doc = next(it)
        s = doc.get("scan_id")
        if not isinstance(s, int) or isinstance(s, bool):
            v("scan_id-missing", "start", f"run {r}: scan_id {s!r}")
            continue
        if track["last"] is not None:
            d = s - track["last"]
            if not (1 <= d <= 1 + track["rejected"]):
                v("scan_id-step", f"step={'<1' if d < 1 else '>1'},rejected_between={min(track['rejected'], 1)}", f"run {r}: scan_id {s} after {track['last']} with {track['rejected']} rejected attempts in between")
        track["last"], track["rejected"] = s, 0
    sa = res["scan_after"]
    if track["last"] is not None:
        if not isinstance(sa, int) or not (0 <= sa - track["last"] <= track["rejected"]):
            v("scan_id-not-persisted", f"rejected_after={min(track['rejected'], 1)}", f"RE.md['scan_id']={sa!r}, last emitted start had {track['last']}, {track['rejected']} rejected since")
    # ---- the persistent source itself is not written by the other sources
    for key, mk in zip(KEYS, masks):
        want = f"P{res['n']}:{key}" if mk & P else "<absent>"
        have = res["md_after"].get(key, "<absent>")
        if have != want:
            v("persistent-md-modified", f"key={key},mask={_key_mask(masks, key)}", f"RE.md[{key!r}] is {have!r} after the call, was {want!r}")
    return out


def _key_mask(masks, k):
    if k not in KEYS:
        return "?"
    mk = masks[KEYS.index(k)]
    return "".join(ch for ch, b in (("P", P), ("I", I), ("O", O), ("K", K)) if mk & b) or "-"


def _winner_letters(case):
    masks = case[0]
    out = []
    for key, mk in zip(KEYS, masks):
        if mk & K:
            out.append("K")
        elif mk & O:
            out.append("O")
        elif key != "k17":
            out.append("I")
        elif mk & P:
            out.append("P")
        else:
            out.append("-")
    return "".join(out)


def _ndef(key, mk):
    n = sum(1 for b in (P, O, K) if mk & b)
    return n + (1 if key != "k17" else 0)


def run_cases(cases):
    """Play the cases on one engine; returns list of (case, result-or-None, violations)."""
    Multi = _classes()
    sess = Multi([tuple(c) for c in cases])
    obs = sess.run()
    track = {"last": None, "rejected": 0}
    out = []
    for case, res in zip(sess.cases, sess.results):
        out.append((case, res, judge(case, res, track)))
    herr = None
    if obs.outcome != "ok" or len(sess.results) != len(cases):
        herr = f"session outcome {obs.outcome}: {obs.harness_error}; {len(sess.results)}/{len(cases)} cases played"
    return out, herr


def run_item(item):
    cases = [(tuple(c[0]), c[1], c[2], c[3], c[4]) for c in item["cases"]]
    played, herr = run_cases(cases)
    res = {
        "evaluations": 0,
        "transitions": 0,
        "states": set(),
        "nontrivial": set(),
        "outcomes": {},
        "violations": [],
        "harness_errors": [],
        "samples": [],
        "extra": {"caps_hit": 0, "starts_judged": 0, "rejections": 0},
    }
    if herr:
        res["harness_errors"].append({"error": herr, "first_case": repr(cases[0])})
    per_sig = {}
    for idx, (case, r, vs) in enumerate(played):
        masks, form, norm, val, runs = case
        res["evaluations"] += 1
        res["transitions"] += len(r["vlog"])  # open_run attempts applied to the engine
        nstarts = sum(1 for n_, _ in r["docs"] if n_ == "start")
        res["extra"]["starts_judged"] += nstarts
        res["extra"]["rejections"] += len(r["raised"])
        res["states"].add(_hash((case, nstarts, r["outcome"], len(r["caught"]))))
        if any(_ndef(k, mk) >= 2 for k, mk in zip(KEYS, masks)):
            res["nontrivial"].add(_hash(case))
        oc = f"{_winner_letters(case)}/{norm}/{val}/starts={nstarts}/{r['outcome']}" + ("/V" if vs else "")
        res["outcomes"][oc] = res["outcomes"].get(oc, 0) + 1
        for rule, shape, detail in vs:
            sig = f"{rule}|{shape}"
            n = per_sig.get(sig, 0)
            per_sig[sig] = n + 1
            if n < MAXV:
                res["violations"].append(
                    {
                        "rule": rule,
                        "detail": f"case masks={_sig_masks(masks)} form={form} norm={norm} val={val} runs={runs}: {detail}",
                        "signature": sig,
                        "cases": [[list(c[0]), c[1], c[2], c[3], c[4]] for c in cases[: idx + 1]],
                    }
                )
        if idx == 5 and not res["samples"]:
            res["samples"].append(
                {
                    "case": {"masks": _sig_masks(masks), "form": form, "norm": norm, "val": val, "runs": runs},
                    "starts": [{k: x for k, x in d.items() if k not in ("time", "versions")} for n_, d in r["docs"] if n_ == "start"],
                }
            )
    return res


def replay(payload):
    cases = [(tuple(c[0]), c[1], c[2], c[3], c[4]) for c in payload["cases"]]
    played, herr = run_cases(cases)
    if herr:
        return [{"rule": "harness-error", "detail": herr, "signature": "harness-error"}]
    case, r, vs = played[-1]
    return [{"rule": rule, "detail": detail, "signature": f"{rule}|{shape}"} for rule, shape, detail in vs if f"{rule}|{shape}" == payload.get("signature", f"{rule}|{shape}")]
