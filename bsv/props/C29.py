"""C29 - adaptive_scan / tune_centroid terminate and stay within [start, stop].

S engine with a message-level responder (no RunEngine): the plan generator is iterated directly, every
``set`` is recorded, every ``read`` of the detector is answered by a response function of
(motor position, call index).  Message horizon 50 000 => non-termination is reported.
"""

import hashlib
import itertools
import math

ID = "C29"
LEVEL = "model_checking"
TOL = 1e-9
HORIZON = 50_000

# response families: name -> (f(x, k, lo, hi) -> value, non_negative)
def _gauss(x, c, s):
    return math.exp(-0.5 * ((x - c) / s) ** 2)


def _mid(lo, hi):
    return 0.5 * (lo + hi)


def _w(lo, hi):
    return (hi - lo) or 1.0


FAMILIES = {
    "const0": (lambda x, k, lo, hi: 0.0, True),
    "const1": (lambda x, k, lo, hi: 1.0, True),
    "step": (lambda x, k, lo, hi: 1.0 if x >= _mid(lo, hi) else 0.0, True),
    "ramp": (lambda x, k, lo, hi: (x - lo) / _w(lo, hi), True),
    "steep": (lambda x, k, lo, hi: 1000.0 * (x - lo), True),
    "gauss_narrow": (lambda x, k, lo, hi: _gauss(x, lo + 0.37 * _w(lo, hi), 0.02 * _w(lo, hi)), True),
    "gauss_wide": (lambda x, k, lo, hi: _gauss(x, _mid(lo, hi), 0.5 * _w(lo, hi)), True),
    "edge_hi": (lambda x, k, lo, hi: _gauss(x, hi, 0.1 * _w(lo, hi)), True),
    "edge_lo": (lambda x, k, lo, hi: _gauss(x, lo, 0.1 * _w(lo, hi)), True),
    "spike_hi": (lambda x, k, lo, hi: 1.0 if x >= hi else 0.0, True),
    "alt01": (lambda x, k, lo, hi: float(k % 2), True),
    "alt_big": (lambda x, k, lo, hi: 1e6 if k % 3 == 0 else 1e-6, True),
    # sign-changing: adaptive_scan (any response) and termination of tune_centroid only
    "alt_pm": (lambda x, k, lo, hi: 1.0 if k % 2 else -1.0, False),
    "cosine": (lambda x, k, lo, hi: math.cos(7.0 * x), False),
    "neg_ramp": (lambda x, k, lo, hi: -(x - lo) - 0.5, False),
}

RANGES = {
    "quick": ((0.0, 1.0), (1.0, 0.0), (-2.0, 3.0), (3.0, -2.0), (0.5, 0.5)),
    "thorough": ((0.0, 1.0), (1.0, 0.0), (-2.0, 3.0), (3.0, -2.0), (0.5, 0.5), (-1.0, -0.25), (10.0, 10.5), (0.0, 0.3)),
}
ADAPTIVE = {
    "quick": {
        "steps": ((0.05, 0.5), (0.05, 2.0), (0.3, 0.5), (0.3, 2.0)),
        "target_delta": (0.01, 0.5, 5.0),
        "threshold": (0.5, 0.8, 1.0),
    },
    "thorough": {
        "steps": ((0.01, 0.02), (0.01, 0.5), (0.05, 0.5), (0.05, 2.0), (0.3, 0.5), (0.3, 0.31), (0.3, 2.0), (1.0, 8.0)),
        "target_delta": (0.0, 0.01, 0.1, 0.5, 5.0, 1e3),
        "threshold": (0.05, 0.5, 0.8, 0.999, 1.0),
    },
}
TUNE = {
    "quick": {"min_step": (0.01, 0.1, 1.0), "num": (2, 3, 5, 10), "step_factor": (1.5, 3.0, 10.0)},
    "thorough": {"min_step": (0.001, 0.01, 0.1, 0.5, 1.0, 6.0), "num": (2, 3, 4, 5, 10, 17), "step_factor": (1.1, 1.5, 2.0, 3.0, 10.0)},
}

RULE = (
    "S: adaptive_scan over every (start,stop) pair (both directions, one degenerate), (min_step,max_step) with 0<min<max, "
    "target_delta, backstep on/off, threshold in (0,1], x 15 response families (constant 0/1, step, ramp, steep ramp, narrow/wide/"
    "edge gaussians, spike at the upper limit, alternating by call index, sign-changing); tune_centroid over the same ranges, "
    "min_step, num>=2, step_factor>1, snake on/off x the same families. Plans are iterated by a message-level responder (ideal "
    "motor: readback = last set). Oracle: the plan finishes within 50 000 messages; every set target t of adaptive_scan satisfies "
    "min(start,stop)-1e-9 <= t <= max(start,stop)+1e-9 and is not past stop; for non-negative families every set target of "
    "tune_centroid, the final park included, lies in the same interval (sign-changing families: termination only). "
    "Non-trivial = adaptive: >=3 points with at least two different step sizes; tune: at least one re-centred pass and a final park."
)
ASSUMPTIONS = [
    "numeric property decided on the finite grids listed under 'bounds'; nothing is claimed between grid points",
    "parameters stay inside the documented ranges (0 < min_step < max_step, 0 < threshold <= 1, step_factor > 1, num >= 2)",
    "the motor is ideal (readback equals the last commanded position); responses are finite floats (no NaN/inf)",
    "1e-9 absolute tolerance on the interval test (tune_centroid's centroid is a float quotient)",
    "an exception raised by the plan counts as termination (recorded as an outcome class)",
    "grids are chosen so that a converging tune_centroid needs < 10 000 messages (step_factor >= 1.1, min_step >= 0.001): the "
    "50 000 message horizon separates slow convergence from non-termination",
]


def describe(tier):
    return {
        "bounds": {
            "ranges(start,stop)": [list(r) for r in RANGES[tier]],
            "adaptive": {k: [list(x) if isinstance(x, tuple) else x for x in v] for k, v in ADAPTIVE[tier].items()},
            "tune": {k: list(v) for k, v in TUNE[tier].items()},
            "families": sorted(FAMILIES),
            "backstep": [False, True],
            "snake": [False, True],
            "message_horizon": HORIZON,
        }
    }


def _cases(tier):
    out = []
    a = ADAPTIVE[tier]
    for (start, stop), (mn, mx), td, back, thr, fam in itertools.product(
        RANGES[tier], a["steps"], a["target_delta"], (False, True), a["threshold"], sorted(FAMILIES)
    ):
        if not back and thr != a["threshold"][0]:
            continue  # threshold is only read when backstep is on
        out.append(("adaptive", start, stop, mn, mx, td, back, thr, fam))
    t = TUNE[tier]
    for (start, stop), ms, num, sf, snake, fam in itertools.product(
        RANGES[tier], t["min_step"], t["num"], t["step_factor"], (False, True), sorted(FAMILIES)
    ):
        out.append(("tune", start, stop, ms, num, sf, snake, fam))
    return out


def items(tier, seed):
    cases = _cases(tier)
    size = 150 if tier == "quick" else 600
    return [{"cases": cases[i : i + size]} for i in range(0, len(cases), size)]


def worker_init():
    from bsv.explore import responder

    responder.fast_plans()


def run_case(case):
    import bluesky.plans as bp
    from bsv.explore.responder import Dev, Responder, drive

    kind, start, stop = case[0], case[1], case[2]
    fam = case[-1]
    f, nonneg = FAMILIES[fam]
    lo, hi = min(start, stop), max(start, stop)
    motor = Dev("motor", locatable=False, has_position=False)
    det = Dev("det", kind="det")
    calls = [0]

    def reading(dev, r):
        k = calls[0]
        calls[0] += 1
        return f(r.pos[motor], k, lo, hi)

    r = Responder(positions={motor: 123.0}, reading=reading, horizon=HORIZON)
    if kind == "adaptive":
        _, _, _, mn, mx, td, back, thr, _ = case
        plan = bp.adaptive_scan([det], "det", motor, start, stop, mn, mx, td, back, thr)
        tag = f"adaptive_scan|{fam}|dir={'up' if stop >= start else 'down'}|backstep={int(back)}"
        call = f"adaptive_scan([det],'det',motor,start={start},stop={stop},min_step={mn},max_step={mx},target_delta={td},backstep={back},threshold={thr}) response={fam}"
    else:
        _, _, _, ms, num, sf, snake, _ = case
        plan = bp.tune_centroid([det], "det", motor, start, stop, ms, num, sf, snake)
        tag = f"tune_centroid|{fam}|dir={'up' if stop >= start else 'down'}|snake={int(snake)}"
        call = f"tune_centroid([det],'det',motor,start={start},stop={stop},min_step={ms},num={num},step_factor={sf},snake={snake}) response={fam}"
    out = drive(plan, r)
    targets = [float(v) for (_, d, v) in r.sets if d is motor]
    vs = []

    def viol(rule, detail):
        vs.append({"rule": rule, "detail": f"{call}: {detail}", "signature": f"{rule}|{tag}", "case": list(case)})

    if out["outcome"] == "horizon":
        viol("non-termination", f"still yielding after {HORIZON} messages; {len(targets)} moves, last targets {targets[-4:]}")
    check_range = kind == "adaptive" or nonneg
    ds = 1.0 if stop >= start else -1.0
    if check_range:
        for n, t in enumerate(targets):
            is_park = kind == "tune" and out["outcome"] == "return" and n == len(targets) - 1 and _is_park(out["trace"], motor)
            if not (t == t) or t < lo - TOL or t > hi + TOL:
                if (t - stop) * ds > TOL:
                    rule = "park-beyond-stop" if is_park else "beyond-stop"
                elif is_park:
                    rule = "park-out-of-range"
                else:
                    rule = "before-start" if (start - t) * ds > TOL else "out-of-range"
                viol(rule, f"move #{n} of {len(targets)} to {t!r} is outside [{lo}, {hi}]")
                break
    # measured non-triviality and outcome class
    if kind == "adaptive":
        steps = sorted({round(abs(b - a), 9) for a, b in zip(targets, targets[1:])})
        back_moves = sum(1 for a, b in zip(targets, targets[1:]) if (b - a) * ds < 0)
        nontrivial = len(targets) >= 3 and len(steps) >= 2
        klass = f"adaptive:{fam}:{'backstepped' if back_moves else 'monotone'}:n={_bucket(len(targets))}"
    else:
        num = case[4]
        parked = out["outcome"] == "return" and _is_park(out["trace"], motor)
        passes = (len(targets) - (1 if parked else 0) + num - 1) // num if targets else 0
        nontrivial = passes >= 2 and parked
        klass = f"tune:{fam}:passes={min(passes, 9)}:{'parked' if parked else 'nopark'}"
    if out["outcome"] == "raise":
        klass += f":raised-{type(out['exc']).__name__}"
    if out["outcome"] == "horizon":
        klass += ":HORIZON"
    return vs, {"nontrivial": nontrivial, "outcome": klass, "msgs": len(out["trace"]), "targets": targets}


def _is_park(trace, motor):
    """tune_centroid's final park: the last set is not followed by a reading (no 'create' after it)."""
    last_set = max((i for i, m in enumerate(trace) if m.command == "set" and m.obj is motor), default=None)
    if last_set is None:
        return False
    return not any(m.command == "create" for m in trace[last_set:])


def _bucket(n):
    return "0" if n == 0 else ("1-2" if n < 3 else ("3-9" if n < 10 else ("10-99" if n < 100 else "100+")))


def run_item(item):
    violations, states, nontrivial, outcomes = [], set(), set(), {}
    n = msgs = 0
    sample = None
    for case in item["cases"]:
        case = tuple(case)
        n += 1
        key = hashlib.sha256(repr(case).encode()).hexdigest()[:12]
        states.add(key)
        vs, info = run_case(case)
        msgs += info["msgs"]
        if info["nontrivial"]:
            nontrivial.add(key)
        outcomes[info["outcome"]] = outcomes.get(info["outcome"], 0) + 1
        violations.extend(vs)
        if sample is None and info["nontrivial"]:
            sample = {"case": list(case), "outcome": info["outcome"], "first_targets": info["targets"][:8], "messages": info["msgs"]}
    return {
        "evaluations": n,
        "transitions": msgs,
        "states": states,
        "nontrivial": nontrivial,
        "outcomes": outcomes,
        "violations": violations,
        "samples": [sample] if sample else [],
        "extra": {"caps_hit": 0},
    }


def replay(payload):
    worker_init()
    return run_case(tuple(payload["case"]))[0]
