"""C07 - RunEngine lifecycle never takes an illegal transition or gets stuck (X1 part; X2 graph in thorough)."""

from bsv.oracles import engine
from bsv.props import _x1
from bsv.props._x1 import spec

ID = "C07"
LEVEL = "model_checking"
RULE = (
    "X1: lifecycle/tiny/clearcp scenarios with every sequence of <= 2 requests (quick) / <= 3 on 'lifecycle' (thorough) "
    "from {pause, deferred pause, abort, stop, halt, suspend, release} at every loop position, plus the whole corpus at <= 1, "
    "x every post-pause decision vector; oracle: every state_hook edge is in RunEngineStateMachine.Meta.transitions (read at run "
    "time), state after every blocking call of the caller in {idle, paused}, never panicked, no deadlock/livelock/blocked request, "
    "a legal call (resume/abort/stop/halt when paused, RE(...) when idle) is never refused; "
    "non-trivial = behaviour digest differs from the reference run"
)
ASSUMPTIONS = _x1.X1_ASSUMPTIONS + [
    "'blocking call has returned' is read as a call made by the caller's thread; abort()/stop()/halt() issued from a second "
    "thread while RE(...) blocks return before the engine settles by design and are only required to return",
]

REQ = [("pause",), ("dpause",), ("abort",), ("stop",), ("halt",), ("suspend", "none"), ("release", 0)]
_corpus = ["count2", "scan2", "nested", "monitor1", "fly1", "cleanup", "subs", "bare", "tworuns"]
SPECS = {
    "quick": [spec("lifecycle", REQ, bound=2), spec("tiny", REQ, bound=1), spec("clearcp", REQ, bound=1)]
    + [spec(k, REQ, bound=1) for k in _corpus],
    "thorough": [spec("lifecycle", REQ, bound=3), spec("tiny", REQ, bound=2), spec("tiny", REQ, bound=2, a=1), spec("clearcp", REQ, bound=2)]
    + [spec(k, REQ, bound=1) for k in _corpus]
    + [spec(k, REQ, bound=1, a=1) for k in _corpus]
    + [spec(k, REQ, bound=2) for k in ("count2", "bare")],
}


def oracle(scn, obs, ref, schedule):
    from bluesky._vendor.super_state_machine.errors import TransitionError

    out = []
    table = engine.transitions_table()
    for new, old in obs.states:
        if new not in table.get(old, ()):
            out.append(("illegal-transition", f"{old} -> {new}"))
        if new == "panicked":
            out.append(("panicked", f"{old} -> panicked"))
    if obs.outcome in ("deadlock", "livelock"):
        last = obs.calls[-1] if obs.calls else {}
        out.append((obs.outcome, f"caller stuck in {last.get('name')}() with engine state {last.get('state_after')}"))
    for c in obs.calls:
        if c["outcome"] == "stuck":
            continue
        if c["state_after"] not in ("idle", "paused"):
            out.append(("transient-state-after-call", f"{c['name']}() ended ({c['outcome']}, {type(c['exc']).__name__}) with state {c['state_after']}"))
        e = c["exc"]
        if isinstance(e, TransitionError) or (isinstance(e, RuntimeError) and "The RunEngine is in a" in str(e)):
            out.append(("legal-call-refused", f"{c['name']}() raised {type(e).__name__}: {str(e)[:120]}"))
        if c["name"] == "probe" and c["outcome"] != "return":
            out.append(("probe-failed", f"RE([null]) after idle raised {type(e).__name__}: {str(e)[:120]}"))
    for n, j, label, state, exc in obs.helpers:
        if state != "done" and obs.outcome == "ok":
            out.append(("request-never-returned", f"{label} injected at {(n, j)} still blocked at the end"))
    return out


items, run_item, replay, describe = _x1.bind(SPECS, oracle, chunk=16)
