"""C07 - RunEngine lifecycle never takes an illegal transition or gets stuck (X1 part; X2 graph in thorough)."""

from bsv.oracles import engine
from bsv.props import _x1
from bsv.props._x1 import spec

ID = "C07"
LEVEL = "model_checking"
RULE = (
    "X1: lifecycle/tiny/clearcp scenarios with every sequence of <= 2 requests (quick) / <= 3 on 'lifecycle' (thorough) "
    "from {pause, deferred pause, abort, stop, halt, suspend, release} at every loop position, plus the whole corpus at <= 1, "
    "x every post-pause decision vector; oracle: every state_hook edge is in RunEngineStateMachine.Meta.transitions (read at run "
    "time), state after every blocking call of the caller in {idle, paused}, never panicked, no deadlock/livelock/blocked request, "
    "a legal call (resume/abort/stop/halt when paused, RE(...) when idle) is never refused; "
    "non-trivial = behaviour digest differs from the reference run. "
    "X2: explicit-state BFS over the real engine for the lifecycle scenario (thorough: also tiny, clearcp, async tiny) with an unbounded "
    "number of serially issued requests; the same invariants on every edge plus AG EF idle on the graph (see coverage.x2)"
)
ASSUMPTIONS = _x1.X1_ASSUMPTIONS + [
    "'blocking call has returned' is read as a call made by the caller's thread; abort()/stop()/halt() issued from a second "
    "thread while RE(...) blocks return before the engine settles by design and are only required to return",
]

REQ = [("pause",), ("dpause",), ("abort",), ("stop",), ("halt",), ("suspend", "none"), ("release", 0)]
_corpus = ["count2", "scan2", "nested", "monitor1", "fly1", "cleanup", "subs", "bare", "tworuns"]
SPECS = {
    "quick": [spec("lifecycle", REQ, bound=2), spec("tiny", REQ, bound=1), spec("clearcp", REQ, bound=1)]
    + [spec(k, REQ, bound=1) for k in _corpus],
    "thorough": [spec("lifecycle", REQ, bound=3), spec("tiny", REQ, bound=2), spec("tiny", REQ, bound=2, a=1), spec("clearcp", REQ, bound=2)]
    + [spec(k, REQ, bound=1) for k in _corpus]
    + [spec(k, REQ, bound=1, a=1) for k in _corpus]
    + [spec(k, REQ, bound=2) for k in ("count2", "bare")],
}


def oracle(scn, obs, ref, schedule):
    from bluesky._vendor.super_state_machine.errors import TransitionError

    out = []
    table = engine.transitions_table()
    for new, old in obs.states:
        if new not in table.get(old, ()):
            out.append(("illegal-transition", f"{old} -> {new}"))
        if new == "panicked":
            out.append(("panicked", f"{old} -> panicked"))
    if obs.outcome in ("deadlock", "livelock"):
        last = obs.calls[-1] if obs.calls else {}
        out.append((obs.outcome, f"caller stuck in {last.get('name')}() with engine state {last.get('state_after')}"))
    for c in obs.calls:
        if c["outcome"] == "stuck":
            continue
        if c["state_after"] not in ("idle", "paused"):
            out.append(("transient-state-after-call", f"{c['name']}() ended ({c['outcome']}, {type(c['exc']).__name__}) with state {c['state_after']}"))
        elif c.get("state_drained") not in (None, "idle", "paused"):
            # the loop has nothing left to run and no request is in flight, yet the state is transient: stuck for good
            out.append(("stuck-in-transient-state", f"after {c['name']}() returned with state {c['state_after']} the engine settled in state {c['state_drained']} with an empty event loop"))
        e = c["exc"]
        if isinstance(e, TransitionError) or (isinstance(e, RuntimeError) and "The RunEngine is in a" in str(e)):
            out.append(("legal-call-refused", f"{c['name']}() raised {type(e).__name__}: {str(e)[:120]}"))
        if c["name"] == "probe" and c["outcome"] != "return":
            out.append(("probe-failed", f"RE([null]) after idle raised {type(e).__name__}: {str(e)[:120]}"))
    for n, j, label, state, exc in obs.helpers:
        if state != "done" and obs.outcome == "ok":
            out.append(("request-never-returned", f"{label} injected at {(n, j)} still blocked at the end"))
    return out


_items, _run_item, _replay, _describe = _x1.bind(SPECS, oracle, chunk=16)

# X2: explicit-state search of the lifecycle quotient graph (unbounded number of serially issued requests)
X2_SCENARIOS = {"quick": [("lifecycle", {})], "thorough": [("lifecycle", {}), ("tiny", {}), ("clearcp", {}), ("tiny", {"a": 1})]}


def items(tier, seed):
    from bsv.explore import statespace

    out = _items(tier, seed)
    for key, params in X2_SCENARIOS[tier]:
        rep = statespace.search(key, params, max_states=150000)
        out.append({"x2": rep, "scn": key, "params": params})
    return out


def run_item(item):
    if "x2" not in item:
        return _run_item(item)
    rep = item["x2"]
    if "error" in rep:
        return {"evaluations": 0, "harness_errors": [{"x2": rep["error"], "scn": item["scn"]}]}
    vs = [dict(v, scenario=item["scn"], params=item["params"], x2=True) for v in rep["violations"]]
    tag = f"x2_{item['scn']}{'_a' if item['params'].get('a') else ''}"
    return {
        "evaluations": rep["builds"],
        "transitions": rep["transitions"],
        "states": {f"{tag}:{i}" for i in range(rep["states"])},
        "nontrivial": set(),
        "outcomes": {f"x2:{k}": v for k, v in rep["states_by_engine_state"].items()},
        "violations": vs,
        "samples": [{"x2_history": rep["sample_histories"][-1]}] if rep["sample_histories"] else [],
        "extra": {
            f"{tag}_graph_states": rep["states"],
            f"{tag}_graph_transitions": rep["transitions"],
            f"{tag}_terminal_states": rep["terminal_states"],
            f"{tag}_states_with_no_way_back_to_idle": rep["stuck_states"] or 0,
            f"{tag}_max_history_length": rep["depth"],
            "caps_hit": rep["caps_hit"],
        },
    }


def replay(payload):
    if not payload.get("x2"):
        return _replay(payload)
    from bsv.explore import statespace
    from bsv.oracles.engine import transitions_table

    hist = [tuple(a) if isinstance(a, list) else a for a in payload["hist"]]
    hist = [(a[0], tuple(a[1])) if isinstance(a, tuple) and a[0] == "inj" else a for a in hist]
    _scn, obs = statespace.build(payload["scenario"], payload.get("params") or {}, hist)
    return [{"rule": r, "detail": d} for r, d in statespace.check_build(obs, transitions_table())]


def describe(tier):
    d = _describe(tier)
    d["x2"] = {
        "scenarios": [k for k, _p in X2_SCENARIOS[tier]],
        "what": "explicit-state BFS over the real RunEngine: state = action history replayed on a fresh engine, merged by a canonical hash of the live "
        "engine (state machine, flags, message cache, plan-stack positions, _run await chain, ready queue, timers, bundler counters); actions: one loop "
        "callback, one request from {pause, deferred pause, abort, stop, halt, suspend}, release of the oldest suspension, caller decision when paused",
        "discipline": "serial-request fragment: a request only when no earlier request is in flight; after an accepted abort/stop/halt only loop steps; "
        "no pause/suspension when more than 3 generators are stacked on the plan stack, at most 1 replay generator and 1 suspension helper",
        "invariants": "every edge's state changes are in the declared table; no panicked; every completed caller call ends idle|paused; no legal call refused; "
        "no deadlock/livelock; from every state an idle engine is reachable by loop steps, releases and caller decisions alone (AG EF idle)",
    }
    return d
