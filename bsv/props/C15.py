"""C15 - events contain exactly the readings bundled between create and save.

X1 at 0 deviations over exhaustive programs: every sequence of bundle operations up to the bound is executed
inside one open run on the real RunEngine; the plan catches whatever is thrown at each yield and goes on, so a
single sequence exercises several rejections.  A reference bundler (a dict per bundle, a dict per stream) predicts
for every operation whether it is rejected, with which exception type, and which documents it emits.
"""

import hashlib
import itertools

ID = "C15"
LEVEL = "model_checking"

# operation codes -> (command, argument)
OPS = {
    "ca": ("create", "a"),
    "cb": ("create", "b"),
    "rA": ("read", "A"),
    "rB": ("read", "B"),
    "rO": ("read", "O"),
    "sv": ("save", None),
    "dr": ("drop", None),
    "cp": ("checkpoint", None),
    "cf": ("configure", "A"),
    "nu": ("null", None),
}
ALPHABET = list(OPS)
# data keys of the three detectors: O shares the key 'A2' with A and nothing with B
KEYS = {"A": ("A1", "A2"), "B": ("B1",), "O": ("A2", "O1")}
MAXLEN = {"quick": 5, "thorough": 6}
BATCH = 64  # sequences per RE(...) call, each inside its own open_run/close_run
ITEM = 2048  # sequences per work item

RULE = (
    "X1 at 0 deviations: ALL operation sequences of length 1..5 (quick) / 1..6 (thorough) over the 10 operations "
    "{create(a), create(b), read(A), read(B), read(O: shares data key A2 with A), save, drop, checkpoint, configure(A), null}, "
    "PLUS the structured longer programs: quick 2 bundles x [create(a|b), <=2 reads over A,B,O, save|drop]; thorough 2 bundles with <=3 reads and 3 bundles with <=1 read "
    "(two complete bundles need 6 operations); "
    "each executed inside one open run of the real RunEngine by a plan that catches the exception thrown at every yield and continues; "
    "oracle = reference bundler stepped alongside (rejection yes/no and exception type at THAT yield, documents emitted by that message, "
    "event data/timestamps keys and values == the readings returned at the read yields of that bundle, event.descriptor = an earlier descriptor "
    "of that stream name with the same data keys, seq_num = the reference's per-stream counter, stop.num_events); "
    "non-trivial = sequences in which at least one operation was rejected AND at least one event was emitted (measured on the observation)"
)
ASSUMPTIONS = [
    "devices are harness fakes (FakeDet subclass whose every read() returns fresh values, so a stale reading is visible)",
    f"{BATCH} sequences share one RE(...) call, each in its own open_run/close_run (own RunBundler); a violation is re-run alone before it is reported",
    "don't-care: whether reading the SAME object twice in one bundle is rejected (the statement speaks of two objects); "
    "whether the bundle is still open after a save was rejected for a changed object set; the exception type of that rejection; "
    "whether a rejected configure reached the device; descriptors emitted by an accepted configure (C16)",
    "rejected = no effect: after a rejected create/read/checkpoint/configure the open bundle keeps its name and readings",
]


def describe(tier):
    n = MAXLEN[tier]
    return {
        "bounds": {
            "alphabet": ALPHABET,
            "length": f"1..{n}",
            "sequences": sum(len(ALPHABET) ** k for k in range(1, n + 1)),
            "extension": [f"{nb} bundles x [create(a|b), <= {mr} reads over A,B,O, save|drop]" for nb, mr in EXT[tier]],
            "extension_sequences_not_in_full_space": len(_extension(tier)),
            "deviations": 0,
        },
        "states_means": "distinct per-sequence observation digests (per operation: command, outcome, exception type, names of documents emitted, stream/seq_num/data keys of events)",
    }


# ----------------------------------------------------------------------------- enumeration
def _nseq(tier):
    return sum(len(ALPHABET) ** k for k in range(1, MAXLEN[tier] + 1))


def _seq_at(index):
    """index -> sequence, ordering: by length, then base-10 digits (no list of a million tuples in the parent)."""
    n = 1
    base = len(ALPHABET)
    while index >= base**n:
        index -= base**n
        n += 1
    out = []
    for _ in range(n):
        out.append(ALPHABET[index % base])
        index //= base
    return tuple(reversed(out))


def _bundle_programs(nbundles, maxreads):
    """Structured programs: nbundles x [create(a|b), 0..maxreads reads over A,B,O, save|drop]."""
    reads = [r for n in range(maxreads + 1) for r in itertools.product(("rA", "rB", "rO"), repeat=n)]
    one = [(c,) + r + (e,) for c in ("ca", "cb") for r in reads for e in ("sv", "dr")]
    for combo in itertools.product(one, repeat=nbundles):
        yield tuple(itertools.chain.from_iterable(combo))


EXT = {"quick": [(2, 2)], "thorough": [(2, 3), (3, 1)]}  # (bundles, reads per bundle <=)
_EXT_CACHE = {}


def _extension(tier):
    """Longer programs than the full space reaches (two complete bundles need 6 operations), without those already in it."""
    if tier not in _EXT_CACHE:
        seen, out = set(), []
        for nb, mr in EXT[tier]:
            for seq in _bundle_programs(nb, mr):
                if len(seq) > MAXLEN[tier] and seq not in seen:
                    seen.add(seq)
                    out.append(seq)
        _EXT_CACHE[tier] = out
    return _EXT_CACHE[tier]


def items(tier, seed):
    total = _nseq(tier)
    out = [{"tier": tier, "lo": lo, "hi": min(total, lo + ITEM)} for lo in range(0, total, ITEM)]
    next_ = len(_extension(tier))
    out += [{"tier": tier, "ext": True, "lo": lo, "hi": min(next_, lo + ITEM)} for lo in range(0, next_, ITEM)]
    return out


# ----------------------------------------------------------------------------- scenario
def _scenario_class():
    from bsv.harness.devices import FakeDet
    from bsv.harness.session import Scenario

    class FreshDet(FakeDet):
        """Every read returns values never returned before (per device)."""

        nreads = 0

        def read(self):
            self.ctx.op(self, "read")
            self.nreads += 1
            t = self.ctx.loop.time()
            return self._ret({k: {"value": self.offset + 10.0 * self.nreads + i, "timestamp": t + 0.001 * self.nreads} for i, k in enumerate(self.keys)})

    class Bundles(Scenario):
        id = "c15-bundles"
        probe = False
        track = False

        def devices(self, ctx):
            return {
                "A": FreshDet(ctx, "A", keys=list(KEYS["A"]), offset=1000.0, stageable=False),
                "B": FreshDet(ctx, "B", keys=list(KEYS["B"]), offset=2000.0, stageable=False),
                "O": FreshDet(ctx, "O", keys=list(KEYS["O"]), offset=3000.0, stageable=False),
            }

        def plan(self, d):
            from bluesky.utils import Msg

            seqs = self.params["seqs"]
            self.log = log = []  # one entry per yielded message: (seq index, op index | 'open' | 'close', outcome, value)
            ncfg = [0]

            def mk(code):
                cmd, arg = OPS[code]
                if cmd == "create":
                    return Msg("create", None, name=arg)
                if cmd == "read":
                    return Msg("read", d[arg])
                if cmd == "configure":
                    ncfg[0] += 1
                    return Msg("configure", d[arg], gain=1 + ncfg[0])
                return Msg(cmd)

            def plan():
                for si, seq in enumerate(seqs):
                    for oi, msg in itertools.chain([("open", Msg("open_run"))], ((k, mk(c)) for k, c in enumerate(seq)), [("close", Msg("close_run"))]):
                        try:
                            r = yield msg
                        except Exception as e:  # noqa: BLE001 - the rejection is the observation
                            log.append((si, oi, "exc", e))
                        else:
                            log.append((si, oi, "ok", r))

            return plan()

    return Bundles


_SCN = None


def worker_init():
    global _SCN
    _SCN = _scenario_class()


def _execute(seqs):
    from bsv.harness.session import run

    if _SCN is None:
        worker_init()
    scn = _SCN(seqs=[list(s) for s in seqs])
    obs = run(scn)
    return scn, obs


def _docs_per_msg(obs):
    """[[doc index, ...] per message index], from the ordered timeline."""
    out = [[] for _ in obs.msgs]
    cur = None
    for t in obs.timeline:
        if t[0] == "msg":
            cur = t[1]
        elif t[0] == "doc":
            if cur is None:
                continue
            out[cur].append(t[1])
    return out


# ----------------------------------------------------------------------------- reference bundler
class Ref:
    """One possible state of the reference.  Don't-cares fork it."""

    __slots__ = ("bundling", "name", "objs", "streams")

    def __init__(self):
        self.bundling = False
        self.name = None
        self.objs = {}  # object name -> [acceptable reading, ...] in read order (a list only after a re-read of the same object)
        self.streams = {}  # name -> {'objs': frozenset, 'next': int}

    def copy(self):
        r = Ref()
        r.bundling, r.name = self.bundling, self.name
        r.objs = {k: list(v) for k, v in self.objs.items()}
        r.streams = {k: dict(v) for k, v in self.streams.items()}
        return r


IMS = "IllegalMessageSequence"


def expectations(s, code):
    """Alternatives [(kind, exc_type|None, emits, why)] the statement allows for operation `code` in state s.

    kind: 'ok' | 'exc'.  exc_type None = any Exception.  emits: 'none' | 'event' | 'descriptors-only'.
    """
    cmd, arg = OPS[code]
    if cmd == "create":
        return [("exc", IMS, "none", "second-create")] if s.bundling else [("ok", None, "none", "create")]
    if cmd == "read":
        if not s.bundling:
            return [("ok", None, "none", "read-outside-bundle")]
        if arg in s.objs:
            return [("exc", None, "none", "reread-rejected"), ("ok", None, "none", "reread-accepted")]
        for other in s.objs:
            if set(KEYS[other]) & set(KEYS[arg]):
                return [("exc", "ValueError", "none", "colliding-keys")]
        return [("ok", None, "none", "read-in-bundle")]
    if cmd == "save":
        if not s.bundling:
            return [("exc", IMS, "none", "save-without-create")]
        if not s.objs:
            return [("ok", None, "none", "empty-save")]
        st = s.streams.get(s.name)
        if st is not None and st["objs"] != frozenset(s.objs):
            return [("exc", None, "none", "stream-object-set-changed")]
        return [("ok", None, "event", "save")]
    if cmd == "drop":
        return [("ok", None, "none", "drop")] if s.bundling else [("exc", IMS, "none", "drop-without-create")]
    if cmd == "checkpoint":
        return [("exc", IMS, "none", "checkpoint-in-bundle")] if s.bundling else [("ok", None, "none", "checkpoint")]
    if cmd == "configure":
        return [("exc", IMS, "none", "configure-in-bundle")] if s.bundling else [("ok", None, "descriptors-only", "configure")]
    return [("ok", None, "none", "null")]


def successors(s, code, why, value):
    """States after the alternative `why` was observed (several where the statement leaves the post-state open)."""
    cmd, arg = OPS[code]
    n = s.copy()
    if why == "create":
        n.bundling, n.name, n.objs = True, arg, {}
    elif why == "read-in-bundle":
        n.objs[arg] = [value]
    elif why == "reread-accepted":
        n.objs[arg].append(value)
    elif why in ("empty-save", "drop"):
        n.bundling, n.name, n.objs = False, None, {}
    elif why == "save":
        st = n.streams.setdefault(n.name, {"objs": frozenset(n.objs), "next": 1})
        st["next"] += 1
        n.bundling, n.name, n.objs = False, None, {}
    elif why == "stream-object-set-changed":
        closed = s.copy()
        closed.bundling, closed.name, closed.objs = False, None, {}
        return [n, closed]
    return [n]


# ----------------------------------------------------------------------------- oracle for one sequence
def _v(rule, detail, sig_tail):
    return {"rule": rule, "detail": detail, "signature": f"{rule}|{sig_tail}"}


def judge(seq, entries, docs, docs_of):
    """entries: [(op index|'open'|'close', outcome, value, msg index)] of one sequence.  Returns (violation|None, facts)."""
    facts = {"rejections": [], "events": 0, "per_op": [], "whys": [], "observed": []}
    byop = {e[0]: e for e in entries}
    descs = {}  # uid -> doc, of this run
    run_uid = None
    e = byop.get("open")
    if e is None or e[1] != "ok":
        return _v("open-run-failed", f"{seq}: open_run -> {e and e[2]!r}", "open_run"), facts
    for di in docs_of[e[3]]:
        name, doc = docs[di]
        if name == "start":
            run_uid = doc["uid"]
    states = [Ref()]
    for k, code in enumerate(seq):
        _oi, outcome, value, mi = byop[k]
        mydocs = [docs[di] for di in docs_of[mi]]
        names = [n for n, _ in mydocs]
        exc_name = type(value).__name__ if outcome == "exc" else None
        facts["per_op"].append((code, outcome, exc_name, tuple(names)))
        if outcome == "exc":
            facts["rejections"].append(f"{OPS[code][0]}:{exc_name}")
        for n, doc in mydocs:
            if n == "descriptor":
                descs[doc["uid"]] = doc
        evs = tuple((descs_name(descs, doc), doc.get("seq_num"), tuple(sorted(doc.get("data", {})))) for n, doc in mydocs if n == "event")
        facts["observed"].append((OPS[code][0], outcome, exc_name, tuple(names), evs))
        nxt = []
        reasons = []
        for s in states:
            for kind, etype, emits, why in expectations(s, code):
                ctx = f"{OPS[code][0]}|{why}"
                if kind != outcome:
                    got = f"raised {exc_name}: {value}" if outcome == "exc" else "accepted"
                    want = f"rejected with {etype or 'an exception'}" if kind == "exc" else "accepted"
                    reasons.append(_v("wrong-outcome", f"{seq} op#{k} {code} ({why}): {want} expected, {got}", f"{ctx}|want={kind}:{etype}|got={outcome}:{exc_name}"))
                    continue
                if kind == "exc" and etype is not None and exc_name != etype:
                    reasons.append(_v("wrong-exception-type", f"{seq} op#{k} {code} ({why}): {etype} expected at this yield, got {exc_name}: {value}", f"{ctx}|want={etype}|got={exc_name}"))
                    continue
                # documents emitted by this very message
                if emits == "none" and names:
                    reasons.append(_v("unexpected-documents", f"{seq} op#{k} {code} ({why}) emitted {names}", f"{ctx}|{'+'.join(sorted(set(names)))}"))
                    continue
                if emits == "descriptors-only" and any(n != "descriptor" for n in names):
                    reasons.append(_v("unexpected-documents", f"{seq} op#{k} {code} ({why}) emitted {names}", f"{ctx}|{'+'.join(sorted(set(names)))}"))
                    continue
                if emits == "event":
                    bad = _check_event(seq, k, s, mydocs, descs, run_uid, ctx)
                    if bad is not None:
                        reasons.append(bad)
                        continue
                if why in ("read-in-bundle", "read-outside-bundle", "reread-accepted"):
                    arg = OPS[code][1]
                    if not isinstance(value, dict) or set(value) != set(KEYS[arg]):
                        reasons.append(_v("read-response", f"{seq} op#{k} {code}: the yield received {value!r}", f"{ctx}|response"))
                        continue
                facts["whys"].append(why)
                nxt.extend(successors(s, code, why, value))
        if not nxt:
            return reasons[0], facts
        if "event" in names:
            facts["events"] += names.count("event")
        states = nxt
    # close_run: num_events
    e = byop.get("close")
    if e is None or e[1] != "ok":
        return _v("close-run-failed", f"{seq}: close_run -> {e and e[2]!r}", "close_run"), facts
    stop = [doc for n, doc in (docs[di] for di in docs_of[e[3]]) if n == "stop"]
    if len(stop) != 1:
        return _v("no-stop", f"{seq}: close_run emitted {len(stop)} stop documents", "close_run"), facts
    ne = {k: v for k, v in (stop[0].get("num_events") or {}).items() if v}
    ok = False
    for s in states:
        want = {name: st["next"] - 1 for name, st in s.streams.items() if st["next"] > 1}
        if want == ne:
            ok = True
    if not ok:
        want = {name: st["next"] - 1 for name, st in states[0].streams.items()}
        return _v("num-events", f"{seq}: stop.num_events={stop[0].get('num_events')} reference={want}", "close_run|num_events"), facts
    return None, facts


def _check_event(seq, k, s, mydocs, descs, run_uid, ctx):
    names = [n for n, _ in mydocs]
    if names.count("event") != 1 or any(n not in ("descriptor", "event") for n in names) or names[-1] != "event":
        return _v("save-documents", f"{seq} op#{k}: a save of {sorted(s.objs)} on stream {s.name!r} emitted {names}; [descriptor...] event expected", f"{ctx}|{'+'.join(names) or 'nothing'}")
    ev = mydocs[-1][1]
    want_keys = set()
    for o in s.objs:
        want_keys |= set(KEYS[o])
    data = ev.get("data", {})
    if set(data) != want_keys:
        extra, missing = sorted(set(data) - want_keys), sorted(want_keys - set(data))
        return _v(
            "event-keys",
            f"{seq} op#{k}: bundle read {sorted(s.objs)} (keys {sorted(want_keys)}), event data has {sorted(data)}",
            f"{ctx}|extra={'y' if extra else 'n'}|missing={'y' if missing else 'n'}",
        )
    if set(ev.get("timestamps", {})) != want_keys:
        return _v("event-timestamp-keys", f"{seq} op#{k}: timestamps keys {sorted(ev.get('timestamps', {}))} != {sorted(want_keys)}", ctx)
    for o, readings in s.objs.items():
        if not any(all(data[key] == r[key]["value"] and ev["timestamps"][key] == r[key]["timestamp"] for key in KEYS[o]) for r in readings):
            return _v(
                "event-values",
                f"{seq} op#{k}: object {o} was read as {readings} in this bundle, event carries { {key: data[key] for key in KEYS[o]} }",
                f"{ctx}|stale-or-foreign-reading",
            )
    d = descs.get(ev.get("descriptor"))
    if d is None:
        return _v("descriptor-not-before-event", f"{seq} op#{k}: event names descriptor {ev.get('descriptor')} which was not emitted before it in this run", ctx)
    if d.get("run_start") != run_uid:
        return _v("descriptor-of-other-run", f"{seq} op#{k}: descriptor.run_start={d.get('run_start')} run={run_uid}", ctx)
    if d.get("name") != s.name:
        return _v("descriptor-of-other-stream", f"{seq} op#{k}: bundle on stream {s.name!r}, descriptor is named {d.get('name')!r}", ctx)
    if set(d.get("data_keys", {})) != want_keys:
        return _v("descriptor-data-keys", f"{seq} op#{k}: descriptor data_keys {sorted(d.get('data_keys', {}))} != event keys {sorted(want_keys)}", ctx)
    st = s.streams.get(s.name)
    want_seq = st["next"] if st else 1
    if ev.get("seq_num") != want_seq:
        return _v(
            "seq-num",
            f"{seq} op#{k}: event seq_num={ev.get('seq_num')} on stream {s.name!r}, reference counter says {want_seq} (drops / empty saves / rejections consume nothing)",
            f"{ctx}|{'ahead' if ev.get('seq_num', 0) > want_seq else 'behind'}",
        )
    return None


def descs_name(descs, ev):
    d = descs.get(ev.get("descriptor"))
    return d.get("name") if d else None


def _digest(facts):
    """What was observed (commands, outcomes, documents), not which devices/stream names were asked for."""
    return hashlib.sha256(repr(facts["observed"]).encode()).hexdigest()[:14]


def _run_batch(seqs):
    """Execute the sequences in one RE call; [(violation|None, facts)] per sequence."""
    scn, obs = _execute(seqs)
    res = []
    if obs.outcome != "ok" or obs.calls[0]["outcome"] != "return" or obs.calls[0]["state_after"] != "idle" or len(scn.log) != len(obs.msgs):
        c = obs.calls[0] if obs.calls else {}
        v = _v(
            "engine-call-failed",
            f"batch {seqs[:2]}...: outcome={obs.outcome} call={c.get('outcome')} exc={c.get('exc')!r} state={c.get('state_after')} msgs={len(obs.msgs)} yields={len(scn.log)}",
            f"RE|{c.get('outcome')}|{type(c.get('exc')).__name__}",
        )
        return None, v, obs
    docs_of = _docs_per_msg(obs)
    per = [[] for _ in seqs]
    for mi, (si, oi, outcome, value) in enumerate(scn.log):
        per[si].append((oi, outcome, value, mi))
    for si, seq in enumerate(seqs):
        res.append(judge(tuple(seq), per[si], obs.docs, docs_of))
    return res, None, obs


def run_item(item):
    if item.get("ext"):
        seqs = _extension(item["tier"])[item["lo"] : item["hi"]]
    else:
        seqs = [_seq_at(i) for i in range(item["lo"], item["hi"])]
    out = {"evaluations": 0, "transitions": 0, "states": set(), "nontrivial": set(), "outcomes": {}, "violations": [], "samples": [], "extra": {"caps_hit": 0, "nontrivial_cases": 0, "engine_calls": 0, "rejections_observed": 0, "events_observed": 0}}
    for b in range(0, len(seqs), BATCH):
        batch = seqs[b : b + BATCH]
        res, fatal, obs = _run_batch(batch)
        out["extra"]["engine_calls"] += 1
        if fatal is not None:
            # find the culprit alone
            found = False
            for s in batch:
                r1, f1, _o = _run_batch([s])
                if f1 is not None:
                    out["violations"].append(dict(f1, seqs=[list(s)]))
                    found = True
            if not found:
                out["violations"].append(dict(fatal, seqs=[list(s) for s in batch]))
            out["evaluations"] += len(batch)
            continue
        out["transitions"] += len(obs.msgs)
        for seq, (viol, facts) in zip(batch, res):
            out["evaluations"] += 1
            dg = _digest(facts)
            out["states"].add(dg)
            nrej, nev = len(facts["rejections"]), facts["events"]
            out["extra"]["rejections_observed"] += nrej
            out["extra"]["events_observed"] += nev
            if nrej and nev:
                out["nontrivial"].add(dg)
                out["extra"]["nontrivial_cases"] += 1
            cls = f"events={min(nev, 3)}|rej={'+'.join(sorted(set(facts['rejections']))) or '-'}"
            out["outcomes"][cls] = out["outcomes"].get(cls, 0) + 1
            if viol is not None:
                # confirm alone: the reported input is the single sequence whenever that reproduces it
                r1, f1, _o = _run_batch([seq])
                solo = f1 if f1 is not None else r1[0][0]
                if solo is not None:
                    out["violations"].append(dict(solo, seqs=[list(seq)]))
                else:
                    out["violations"].append(dict(viol, rule=viol["rule"], signature=viol["signature"] + "|only-in-batch", seqs=[list(s) for s in batch], index=batch.index(seq)))
            if len(out["samples"]) < 2 and nrej and nev:
                out["samples"].append({"sequence": list(seq), "per_operation": [list(map(str, p)) for p in facts["per_op"]]})
    return out


def replay(payload):
    seqs = [tuple(s) for s in payload["seqs"]]
    res, fatal, _obs = _run_batch(seqs)
    if fatal is not None:
        return [fatal]
    return [v for v, _f in res if v is not None]
