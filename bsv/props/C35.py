"""C35 - document normalisation never alters its inputs and loses nothing; the conditional backup replays the run.

S engine.  Part N: every generated legacy (resource + datum/datum_page) and current (stream_resource + stream_datum)
document stream of the bounded grammar below through a fresh REAL RunNormalizer; part B: every fault set of the
primary writer (all subsets of document positions) through the REAL _ConditionalBackup.
"""

import copy
import hashlib
import itertools

from bsv.oracles.docstream import validate

ID = "C35"
LEVEL = "model_checking"
RULE = (
    "S: part N - all streams from the grammar {primary data keys in (x | x,time | x,img | x,time,img | img); 0-3 primary "
    "events as events or one event_page; optional second descriptor 'baseline' with 0-2 events before/after; external key as "
    "legacy resource+datum|datum_page (spec hdf5 with path / dataset / neither, or tiff; datum_kwargs with/without frame; "
    "datums all-before / each-before-its-event / all-after the events) or current stream_resource+stream_datum (hdf5 path / "
    "hdf5 dataset / tiff; one stream_datum per event or one for all)}; quick restricts the second descriptor to {none, 1 event "
    "after}; oracle: no exception, deep snapshot of every input == after, every emitted doc validates, every internal value "
    "present once (reserved keys renamed), every referenced datum -> exactly one stream_datum (uid = datum_id, indices "
    "(seq-1,seq), seq_nums (seq,seq+1), descriptor of the event, stream_resource emitted before), current stream_datums pass "
    "through unchanged.  Part B - runs of 2..6 (quick) / 2..8 (thorough) documents x EVERY subset of positions at which the "
    "primary raises x 1-2 backups (+ a backup that raises), and RunNormalizer-as-primary with a consumer raising at emitted doc "
    "j: from the first failure on, after every document each backup log == the documents so far, same objects, once, in order. "
    "non-trivial = (N) external key with >= 1 event, or reserved key with >= 1 event; (B) a failure after >= 1 buffered document"
)
ASSUMPTIONS = [
    "generated streams are schema-valid event-model documents; one datum per event, frame = seq_num-1 in the frame case "
    "(so the documented (seq-1, seq) ranges apply to both cases)",
    "patches are not used",
    "what the backup receives when the primary never fails is a don't-care",
]
MAXV = 2
HDF5 = "AD_HDF5_SWMR_STREAM"
TIFF = "AD_TIFF"


def describe(tier):
    return {"bounds": {"primary_events": "0-3", "second_descriptor_events": "0-2", "backup_run_length": "2..6" if tier == "quick" else "2..8", "fault_sets": "all subsets"}}


def _h(x):
    return hashlib.sha256(repr(x).encode()).hexdigest()[:12]


# ---------------------------------------------------------------- part N: grammar

KEYSETS = (("x",), ("x", "time"), ("x", "img"), ("x", "time", "img"), ("img",))
LEGACY_SPECS = (("hdf5", "path"), ("hdf5", "dataset"), ("hdf5", None), ("tiff", None))
CURRENT_SPECS = (("hdf5", "path"), ("hdf5", "dataset"), ("tiff", None))


def cases_n(tier):
    seconds = [None, (1, "after")] if tier == "quick" else [None, (0, "after"), (1, "before"), (1, "after"), (2, "before"), (2, "after")]
    out = []
    for keys in KEYSETS:
        for n in range(4):
            for paged in (False, True):
                if paged and n == 0:
                    continue
                for second in seconds:
                    base = {"keys": list(keys), "n": n, "paged": paged, "second": list(second) if second else None}
                    if "img" not in keys:
                        out.append(dict(base, ext=None))
                        continue
                    for page in (False, True):
                        for spec in LEGACY_SPECS:
                            for frame in (False, True):
                                for place in ("before", "each", "after"):
                                    out.append(dict(base, ext={"flavour": "legacy", "datum_page": page, "spec": list(spec), "frame": frame, "place": place}))
                    for spec in CURRENT_SPECS:
                        for single in (False, True):
                            out.append(dict(base, ext={"flavour": "current", "spec": list(spec), "single": single}))
    return out


def _datakey(k, external="FILESTORE:"):
    if k == "img":
        return {"source": "file", "dtype": "array", "shape": [2, 2], "external": external}
    return {"source": "sim", "dtype": "number", "shape": []}


def make_stream(c):
    """Input documents for one case (a list of (name, doc))."""
    keys, n, ext = c["keys"], c["n"], c["ext"]
    run = "run-1"
    docs = [("start", {"uid": run, "time": 1.0, "scan_id": 7, "md": {"nested": {"a": [1, 2]}}})]
    desc = {
        "uid": "desc-p",
        "run_start": run,
        "time": 1.1,
        "name": "primary",
        "data_keys": {k: _datakey(k, "STREAM:" if (ext and ext["flavour"] == "current") else "FILESTORE:") for k in keys},
        "configuration": {"det": {"data": {"c": 1}, "timestamps": {"c": 1.0}, "data_keys": {"c": {"source": "cfg", "dtype": "integer", "shape": []}}}},
        "object_keys": {"det": list(keys)},
        "hints": {"det": {"fields": [keys[0]]}},
    }
    docs.append(("descriptor", desc))
    second = c["second"]
    sec_docs = []
    if second is not None:
        sec_docs.append(
            (
                "descriptor",
                {
                    "uid": "desc-b",
                    "run_start": run,
                    "time": 1.2,
                    "name": "baseline",
                    "data_keys": {"y": _datakey("y")},
                    "configuration": {},
                    "object_keys": {"mot": ["y"]},
                    "hints": {},
                },
            )
        )
        for s in range(1, second[0] + 1):
            sec_docs.append(("event", {"uid": f"ev-b-{s}", "descriptor": "desc-b", "time": 5.0 + s, "seq_num": s, "data": {"y": 100.0 + s}, "timestamps": {"y": 5.0 + s}, "filled": {}}))
        if second[1] == "before":
            docs.extend(sec_docs)

    def value(k, s):
        if k == "img":
            if ext["flavour"] == "legacy":
                return f"res-1/{s - 1}"
            return f"sres-1/{s}"  # current flavour: a placeholder string, never dereferenced
        return {"x": 10.0 + s, "time": 20.0 + s}[k]

    events = []
    for s in range(1, n + 1):
        ev = {
            "uid": f"ev-p-{s}",
            "descriptor": "desc-p",
            "time": 2.0 + s,
            "seq_num": s,
            "data": {k: value(k, s) for k in keys},
            "timestamps": {k: 2.0 + s for k in keys},
            "filled": {"img": False} if "img" in keys else {},
        }
        events.append(ev)

    def emit_events(upto=None):
        if c["paged"]:
            ekeys = list(events[0]["data"])
            page = {
                "uid": [e["uid"] for e in events],
                "descriptor": "desc-p",
                "time": [e["time"] for e in events],
                "seq_num": [e["seq_num"] for e in events],
                "data": {k: [e["data"][k] for e in events] for k in ekeys},
                "timestamps": {k: [e["timestamps"][k] for e in events] for k in ekeys},
                "filled": {k: [False] * len(events) for k in events[0]["filled"]},
            }
            return [("event_page", page)]
        return [("event", e) for e in events]

    if ext is None:
        docs.extend(emit_events())
    elif ext["flavour"] == "legacy":
        kind, param = ext["spec"]
        rk = {"chunk_shape": [1, 2, 2]}
        if param:
            rk[param] = "/entry/data"
        docs.append(
            (
                "resource",
                {
                    "uid": "res-1",
                    "run_start": run,
                    "spec": HDF5 if kind == "hdf5" else TIFF,
                    "root": "/data",
                    "resource_path": "sub/file.h5" if kind == "hdf5" else "sub/img",
                    "resource_kwargs": rk,
                    "path_semantics": "posix",
                },
            )
        )
        datums = []
        for s in range(1, n + 1):
            kw = {"point": s}
            if ext["frame"]:
                kw["frame"] = s - 1
            datums.append({"datum_id": f"res-1/{s - 1}", "resource": "res-1", "datum_kwargs": kw})
        if ext["frame"]:
            for d in datums:
                del d["datum_kwargs"]["point"]  # 'point' would be copied into the stream_resource parameters; keep frame alone

        def datum_docs(ds):
            if not ds:
                return []
            if ext["datum_page"]:
                kws = {}
                for key in ds[0]["datum_kwargs"]:
                    kws[key] = [d["datum_kwargs"][key] for d in ds]
                return [("datum_page", {"resource": "res-1", "datum_id": [d["datum_id"] for d in ds], "datum_kwargs": kws})]
            return [("datum", d) for d in ds]

        place = ext["place"]
        if place == "before":
            docs.extend(datum_docs(datums))
            docs.extend(emit_events())
        elif place == "after":
            docs.extend(emit_events())
            docs.extend(datum_docs(datums))
        else:
            if c["paged"]:
                docs.extend(datum_docs(datums))
                docs.extend(emit_events())
            else:
                for d, e in zip(datums, events):
                    docs.extend(datum_docs([d]))
                    docs.append(("event", e))
    else:
        kind, param = ext["spec"]
        params = {"chunk_shape": [1, 2, 2]}
        if param:
            params[param] = "/entry/data"
        docs.append(
            (
                "stream_resource",
                {
                    "uid": "sres-1",
                    "run_start": run,
                    "data_key": "img",
                    "mimetype": "application/x-hdf5" if kind == "hdf5" else "multipart/related;type=image/tiff",
                    "uri": "file://localhost/data/sub/file.h5" if kind == "hdf5" else "file://localhost/data/sub/",
                    "parameters": params,
                },
            )
        )
        # current-style events carry no reference for the external key
        for e in events:
            e["data"].pop("img")
            e["timestamps"].pop("img")
            e["filled"] = {}
        docs.extend(emit_events())
        if n:
            if ext["single"]:
                docs.append(("stream_datum", {"uid": "sres-1/0", "stream_resource": "sres-1", "descriptor": "desc-p", "indices": {"start": 0, "stop": n}, "seq_nums": {"start": 1, "stop": n + 1}}))
            else:
                for s in range(1, n + 1):
                    docs.append(("stream_datum", {"uid": f"sres-1/{s - 1}", "stream_resource": "sres-1", "descriptor": "desc-p", "indices": {"start": s - 1, "stop": s}, "seq_nums": {"start": s, "stop": s + 1}}))
    if second is not None and second[1] == "after":
        docs.extend(sec_docs)
    num = {"primary": n}
    if second is not None:
        num["baseline"] = second[0]
    docs.append(("stop", {"uid": "stop-1", "run_start": run, "time": 9.0, "exit_status": "success", "reason": "", "num_events": num}))
    return docs


def _first_diff(a, b, path=""):
    """Path of the first nested difference between two documents."""
    if isinstance(a, dict) and isinstance(b, dict):
        for k in sorted(set(a) | set(b), key=str):
            if k not in a or k not in b:
                return f"{path}.{k}" if path else str(k)
            d = _first_diff(a[k], b[k], f"{path}.{k}" if path else str(k))
            if d:
                return d
        return None
    if a != b:
        return path or "<value>"
    return None


def run_case_n(c):
    from bluesky.callbacks.tiled_writer import RESERVED_DATA_KEYS, RunNormalizer

    docs = make_stream(c)
    snap = copy.deepcopy(docs)
    rn = RunNormalizer()
    out = []

    def sink(name, doc):
        out.append((name, doc))

    rn.subscribe(sink)
    vs = []

    def add(rule, sig, detail):
        vs.append({"rule": rule, "signature": f"{rule}|{sig}", "detail": f"case={c}: {detail}", "case": {"part": "N", "c": c}})

    invalid = [validate(n, d) for n, d in docs]
    if any(invalid):
        return [{"rule": "harness-invalid-input", "signature": "harness|invalid-input", "detail": f"case={c}: {[e for e in invalid if e]}", "case": {"part": "N", "c": c}}], {"fed": 0, "out": 0, "digest": None}
    fed = 0
    for name, doc in docs:
        fed += 1
        try:
            rn(name, doc)
        except Exception as e:  # noqa: BLE001
            add("normalizer-raised", f"{name}|{type(e).__name__}", f"on {name} #{fed - 1}: {type(e).__name__}: {str(e).splitlines()[0][:160]}")
            break
    # 1. inputs untouched (nested dictionaries included)
    seen = set()
    for i, ((name, doc), (_n, before)) in enumerate(zip(docs, snap)):
        if doc != before:
            path = _first_diff(before, doc)
            top = path.split(".")[0]
            sig = f"{name}|{top}"
            if sig not in seen:
                seen.add(sig)
                add("input-mutated", sig, f"input {name} #{i} changed at {path}: before {before!r} after {doc!r}")
    # 2. emitted documents validate
    for i, (name, doc) in enumerate(out):
        err = validate(name, doc)
        if err:
            add("emitted-invalid", name, f"emitted #{i}: {err}")
            break
    if not any(v["rule"] == "normalizer-raised" for v in vs):
        # 3. internal values
        in_events = []
        ext_keys = {"desc-p": {k for k in c["keys"] if k == "img"}, "desc-b": set()}
        for name, doc in snap:
            if name == "event":
                in_events.append(doc)
            elif name == "event_page":
                for j in range(len(doc["seq_num"])):
                    in_events.append({"uid": doc["uid"][j], "descriptor": doc["descriptor"], "seq_num": doc["seq_num"][j], "data": {k: v[j] for k, v in doc["data"].items()}})
        out_events = {}
        dup = False
        for name, doc in out:
            if name == "event":
                if doc["uid"] in out_events:
                    dup = True
                out_events[doc["uid"]] = doc
            elif name == "event_page":
                for j in range(len(doc["seq_num"])):
                    if doc["uid"][j] in out_events:
                        dup = True
                    out_events[doc["uid"][j]] = {"uid": doc["uid"][j], "descriptor": doc["descriptor"], "seq_num": doc["seq_num"][j], "data": {k: v[j] for k, v in doc["data"].items()}}
        if dup or len(out_events) != len(in_events):
            add("event-count", "events", f"{len(in_events)} events in, {len(out_events)} distinct out (duplicate={dup})")
        for ev in in_events:
            oe = out_events.get(ev["uid"])
            if oe is None:
                add("event-lost", "event", f"event {ev['uid']} not re-emitted")
                break
            bad = None
            for k, v in ev["data"].items():
                if k in ext_keys[ev["descriptor"]]:
                    continue
                k2 = f"_{k}" if k in RESERVED_DATA_KEYS else k
                if k2 not in oe["data"] or oe["data"][k2] != v:
                    bad = (k, k2)
                    break
            if bad or oe["seq_num"] != ev["seq_num"] or oe["descriptor"] != ev["descriptor"]:
                add("internal-value-lost", f"reserved={bad is not None and bad[0] in RESERVED_DATA_KEYS}", f"event {ev['uid']}: in {ev['data']} out {oe['data']}")
                break
        # 4. datum -> stream_datum accounting
        emitted_sres = {}
        sdat = {}
        order_ok = True
        for i, (name, doc) in enumerate(out):
            if name == "stream_resource":
                emitted_sres.setdefault(doc["uid"], i)
            elif name == "stream_datum":
                sdat.setdefault(doc["uid"], []).append(doc)
                if doc["stream_resource"] not in emitted_sres:
                    order_ok = False
        if not order_ok:
            add("stream_resource-not-first", "order", "a stream_datum was emitted before its stream_resource")
        ext = c["ext"]
        if ext and ext["flavour"] == "legacy":
            want = {}
            for ev in in_events:
                if ev["descriptor"] == "desc-p" and "img" in ev["data"]:
                    want[ev["data"]["img"]] = ev
            for did, ev in sorted(want.items()):
                got = sdat.get(did, [])
                s = ev["seq_num"]
                if len(got) != 1:
                    add("datum-accounting", f"count={min(len(got), 2)}", f"datum {did} (event seq {s}) -> {len(got)} stream_datums")
                    break
                g = got[0]
                if dict(g["indices"]) != {"start": s - 1, "stop": s} or dict(g["seq_nums"]) != {"start": s, "stop": s + 1} or g["descriptor"] != ev["descriptor"]:
                    add("datum-accounting", f"ranges|frame={ext['frame']}", f"datum {did} (event seq {s}) -> {g}")
                    break
            extra = sorted(set(sdat) - set(want))
            if extra:
                add("datum-accounting", "unreferenced-emitted", f"stream_datums for unreferenced datums: {extra}")
        elif ext:
            in_sd = [d for n_, d in snap if n_ == "stream_datum"]
            out_sd = [d for n_, d in out if n_ == "stream_datum"]
            if in_sd != out_sd:
                add("datum-accounting", "current-passthrough", f"stream_datums in {in_sd} out {out_sd}")
    digest = tuple((n, tuple(sorted(d.get("data", {}))) if n == "event" else (d.get("uid") if n in ("stream_datum", "stream_resource") else None)) for n, d in out)
    return vs, {"fed": fed, "out": len(out), "digest": digest}


def _nontrivial_n(c):
    return c["n"] >= 1 and ("img" in c["keys"] or "time" in c["keys"])


# ---------------------------------------------------------------- part B: conditional backup


class _Boom(Exception):
    pass


def backup_runs(tier):
    """Document lists of length 2..max: start, k middle documents, stop (the SAME objects are compared by identity)."""
    top = 6 if tier == "quick" else 8
    runs = {}
    for n in range(2, top + 1):
        docs = [("start", {"uid": "r", "time": 0.0})]
        docs.append(("descriptor", {"uid": "d", "run_start": "r", "time": 0.0, "name": "primary", "data_keys": {"x": _datakey("x")}, "configuration": {}, "object_keys": {"o": ["x"]}, "hints": {}}))
        for s in range(1, n - 2):
            docs.append(("event", {"uid": f"e{s}", "descriptor": "d", "time": float(s), "seq_num": s, "data": {"x": float(s)}, "timestamps": {"x": float(s)}, "filled": {}}))
        docs = docs[: n - 1]
        docs.append(("stop", {"uid": "s", "run_start": "r", "time": 9.0, "exit_status": "success", "reason": "", "num_events": {"primary": max(0, n - 3)}}))
        runs[n] = docs
    return runs


def run_case_b(c):
    """c: {'n', 'faults': [positions], 'backups': 1|2|'raising-first'} or {'n', 'emit_fault': j} (RunNormalizer primary)."""
    from bluesky.callbacks.tiled_writer import RunNormalizer, _ConditionalBackup

    docs = backup_runs("thorough")[c["n"]]
    logs = []
    vs = []

    def add(rule, sig, detail):
        vs.append({"rule": rule, "signature": f"{rule}|{sig}", "detail": f"case={c}: {detail}", "case": {"part": "B", "c": c}})

    def recorder():
        log = []
        logs.append(log)
        return lambda name, doc: log.append((name, doc))

    backups = []
    mode = c.get("backups", 1)
    if mode == "raising-first":

        def bad_backup(name, doc):
            raise _Boom("backup down")

        backups = [bad_backup, recorder()]
    else:
        backups = [recorder() for _ in range(mode)]
    primary_calls = []
    keep = []
    if "emit_fault" in c:
        rn = RunNormalizer()
        emitted = []

        def consumer(name, doc):
            emitted.append(name)
            if len(emitted) - 1 == c["emit_fault"]:
                raise _Boom("consumer down")

        rn.subscribe(consumer)
        keep.append(consumer)

        def primary(name, doc):
            primary_calls.append(name)
            try:
                rn(name, doc)
            except _Boom:
                primary.failed = True
                raise

        primary.failed = False
    else:
        faults = set(c["faults"])

        def primary(name, doc):
            i = len(primary_calls)
            primary_calls.append(name)
            if i in faults:
                raise _Boom(f"primary down at {i}")

    cb = _ConditionalBackup(primary, backups)
    failed_at = None
    for i, (name, doc) in enumerate(docs):
        n_before = len(primary_calls)
        try:
            cb(name, doc)
        except Exception as e:  # noqa: BLE001
            add("backup-raised", type(e).__name__, f"document #{i}: {type(e).__name__}: {e}")
            break
        if len(primary_calls) != n_before + 1:
            add("primary-not-called", "once", f"document #{i}: primary called {len(primary_calls) - n_before} times")
            break
        if failed_at is None:
            if "emit_fault" in c:
                if primary.failed:
                    failed_at = i
            elif i in faults:
                failed_at = i
        if failed_at is not None:
            want = docs[: i + 1]
            for b, log in enumerate(logs):
                ok = len(log) == len(want) and all(ln == wn and ld is wd for (ln, ld), (wn, wd) in zip(log, want))
                if not ok:
                    names_got = [n_ for n_, _ in log]
                    names_want = [n_ for n_, _ in want]
                    if len(log) < len(want):
                        shape = "first-buffered-missing" if names_got == names_want[1:] else "missing"
                    elif len(log) > len(want):
                        shape = "duplicated"
                    else:
                        shape = "reordered-or-other-object"
                    add("backup-log", f"{shape}|buffered_before_failure={failed_at > 0}", f"after document #{i} (first failure at #{failed_at}) backup {b} got {names_got}, required {names_want}")
                    break
            if vs:
                break
    digest = (failed_at, tuple(len(log) for log in logs))
    return vs, {"fed": len(primary_calls), "out": sum(len(log) for log in logs), "digest": digest, "failed_at": failed_at}


def cases_b(tier):
    top = 6 if tier == "quick" else 8
    out = []
    for n in range(2, top + 1):
        for r in range(0, n + 1):
            for faults in itertools.combinations(range(n), r):
                for backups in (1, 2, "raising-first"):
                    if backups != 1 and r > 2 and tier == "quick":
                        continue
                    out.append({"n": n, "faults": list(faults), "backups": backups})
        for j in range(0, n):
            out.append({"n": n, "emit_fault": j, "backups": 2})
    return out


# ---------------------------------------------------------------- plumbing


def items(tier, seed):
    # imported here, in the parent, so that the forked workers inherit the (slow: tiled, pyarrow) import
    import bluesky.callbacks.tiled_writer  # noqa: F401

    out = []
    cn = cases_n(tier)
    size = 120
    for i in range(0, len(cn), size):
        out.append({"part": "N", "cases": cn[i : i + size]})
    cb = cases_b(tier)
    size = 200
    for i in range(0, len(cb), size):
        out.append({"part": "B", "cases": cb[i : i + size]})
    return out


def run_item(item):
    res = {"evaluations": 0, "transitions": 0, "states": set(), "nontrivial": set(), "outcomes": {}, "violations": [], "samples": [], "extra": {"caps_hit": 0}}
    oc = res["outcomes"]
    persig = {}
    for c in item["cases"]:
        if item["part"] == "N":
            vs, info = run_case_n(c)
            nontriv = _nontrivial_n(c)
            okclass = f"N-ok:out={info['out'] - info['fed']:+d}"
        else:
            vs, info = run_case_b(c)
            nontriv = info["failed_at"] is not None and info["failed_at"] > 0
            okclass = "B-ok:" + ("no-failure" if info["failed_at"] is None else ("failure-at-0" if info["failed_at"] == 0 else "failure-after-buffering"))
        res["evaluations"] += 1
        res["transitions"] += info["fed"]
        res["states"].add(_h((item["part"], info["digest"])))
        if nontriv:
            res["nontrivial"].add(_h((item["part"], c)))
        if not vs:
            oc[okclass] = oc.get(okclass, 0) + 1
        for v in vs:
            sig = v["signature"]
            oc[f"violation:{sig}"] = oc.get(f"violation:{sig}", 0) + 1
            persig[sig] = persig.get(sig, 0) + 1
            if persig[sig] <= MAXV:
                res["violations"].append(v)
        if not res["samples"] and nontriv:
            res["samples"].append({"part": item["part"], "case": c})
    res["extra"]["suppressed_duplicate_violations"] = sum(max(0, n - MAXV) for n in persig.values())
    return res


def replay(payload):
    c = payload["case"]
    vs, _ = run_case_n(c["c"]) if c["part"] == "N" else run_case_b(c["c"])
    return [v for v in vs if v["signature"] == payload.get("signature", v["signature"])]
