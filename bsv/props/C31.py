"""C31 - installed suspenders gate plan start and removal releases waiters."""

import itertools

from bsv.props import _x1
from bsv.props._x1 import spec

ID = "C31"
LEVEL = "model_checking"
RULE = (
    "X1 + histories: a real SuspendBoolHigh(sig, sleep in {0,2}); every history of <= 2 (quick, with injections) / <= 3 (thorough "
    "with injections) / <= 4 (quick and thorough, no injections) operations from {install, remove via RE, remove() again on "
    "the suspender, sig.put(trip), sig.put(ok)} before RE(plan), and inside RE(plan) one (thorough: two) of {sig.put(ok), sig.put(trip), "
    "remove} at every loop position. Reference model: (installed, signal value, tripped) folded over the history. Oracle: tripped at "
    "the start => the first message executed is the engine's wait_for and no plan message executes before a release (sig.put(ok) or "
    "remove) has happened; not tripped => the plan starts at once; after remove no environment release is needed for the plan to "
    "proceed and the call returns; a trip after removal starts no suspension; no remove ever raises. Scenario susp2: TWO real suspenders (signals sa, sb) on one engine, every history of <= 3 (thorough 4) trips/returns/removals before the call x both orders in which the environment brings the signals back x both iteration orders of the engine's suspender set (fixed hashes), plus one release/removal at every loop position: the first plan message executes only after every installed suspender that was tripped at the call has released or been removed; "
    "non-trivial = the plan was gated at start or a suspension was in effect when an operation arrived"
)
ASSUMPTIONS = _x1.X1_ASSUMPTIONS

OPS = "IRXTO"
MENU = [("put", "sig", 0), ("put", "sig", 1), ("call", "R")]


def _hist(n):
    out = [""]
    for k in range(1, n + 1):
        out += ["".join(p) for p in itertools.product(OPS, repeat=k)]
    return out


def _hist2(n, ops="TtOoRr"):
    out = [""]
    for k in range(1, n + 1):
        out += ["".join(p) for p in itertools.product(ops, repeat=k)]
    return out


MENU2 = [("put", "sa", 0), ("put", "sb", 0), ("call", "R"), ("call", "r")]
SPECS = {
    "quick": [spec("suspreal", MENU, bound=1, pre=h, sleep=2) for h in _hist(2)]
    + [spec("suspreal", [], bound=0, pre=h, sleep=0) for h in _hist(4)]
    # two suspenders on one engine: every history of <= 3 trips/returns/removals, both release orders of the environment
    + [spec("susp2", [], bound=0, pre=h, order=o, ho=ho) for h in _hist2(3) for o in ("ab", "ba") for ho in ("ab", "ba")]
    + [spec("susp2", MENU2, bound=1, pre=h, order=o, ho=ho) for h in ("T", "t", "Tt", "tT") for o in ("ab", "ba") for ho in ("ab", "ba")],
    "thorough": [spec("suspreal", MENU, bound=1, pre=h, sleep=s) for h in _hist(3) for s in (0, 2)]
    + [spec("suspreal", [], bound=0, pre=h, sleep=2) for h in _hist(4)]
    + [spec("suspreal", MENU + [("call", "X")], bound=2, pre=h, sleep=2) for h in ("I", "IT", "TI", "ITR")]
    + [spec("suspreal", MENU, bound=1, pre=h, sleep=2, a=1) for h in _hist(2)]
    + [spec("susp2", [], bound=0, pre=h, order=o, ho=ho) for h in _hist2(4) for o in ("ab", "ba") for ho in ("ab", "ba")]
    + [spec("susp2", [], bound=0, pre=h, order=o, sleep=2, ho=ho) for h in _hist2(3) for o in ("ab", "ba") for ho in ("ab", "ba")]
    + [spec("susp2", MENU2, bound=1, pre=h, order=o, sleep=s, ho=ho) for h in _hist2(2) for o in ("ab", "ba") for s in (0, 2) for ho in ("ab", "ba")]
    + [spec("susp2", MENU2, bound=2, pre=h, order=o, ho=ho) for h in ("T", "t", "Tt", "tT", "TtO") for o in ("ab", "ba") for ho in ("ab", "ba")],
}


def _fold(ops, installed=False, sigval=0, tripped=False):
    for op in ops:
        if op == "I":
            installed = True
            tripped = bool(sigval)
        elif op in ("R", "X"):
            installed = False
            tripped = False
        elif op == "T":
            sigval = 1
            if installed:
                tripped = True
        elif op == "O":
            sigval = 0
            if installed:
                tripped = False
    return installed, sigval, tripped


def _oracle2(scn, obs):
    """Two suspenders: the plan starts only when no installed suspender that was tripped at the call is still tripped."""
    out = []
    for op, exc in getattr(scn, "log", []):
        if exc is not None:
            out.append((f"operation-raised:{op}", f"{op} raised {exc}"))
    inst = {k: True for k in scn.params.get("install", "ab")}
    high = {"a": False, "b": False}
    for op in scn.params.get("pre", ""):
        if op in "Tt":
            high["a" if op == "T" else "b"] = True
        elif op in "Oo":
            high["a" if op == "O" else "b"] = False
        elif op in "Rr":
            inst["a" if op == "R" else "b"] = False
    holding = {k for k in "ab" if inst.get(k) and high[k]}  # suspenders gating the start
    gated = bool(holding)
    obs.extra["gated"] = gated
    tl = obs.timeline
    s0 = next(i for i, t in enumerate(tl) if t[0] == "call" and t[1] == "RE")
    r0 = next((i for i, t in enumerate(tl) if t[0] == "ret" and t[1] == "RE"), len(tl))
    plan_cmds = {"open_run", "checkpoint", "trigger", "wait", "create", "read", "save", "close_run"}
    first = True
    started = False
    for t in tl[s0:r0]:
        if t[0] == "put" and t[1] in ("sa", "sb") and not t[2]:
            holding.discard(t[1][1])
        elif t[0] == "op":
            if t[2] is not None:
                out.append((f"operation-raised:{t[1]}", f"{t[1]} raised {t[2]}"))
            if t[1] in "Rr":
                holding.discard("a" if t[1] == "R" else "b")
        elif t[0] == "msg":
            if first:
                first = False
                if gated and t[2] != "wait_for":
                    out.append(("not-gated-at-start", f"suspender(s) {sorted(holding)} tripped before the call, but the first message executed is {t[2]}"))
                if not gated and t[2] == "wait_for":
                    out.append(("gated-without-trip", "the engine waits although no installed suspender is tripped"))
            if t[2] in plan_cmds and not started:
                started = True
                if holding:
                    out.append(("plan-started-while-tripped", f"{t[2]} executed while pre-tripped suspender(s) {sorted(holding)} had not released"))
    c0 = obs.calls[0]
    if c0["exc"] is not None:
        out.append((f"call-raised:{type(c0['exc']).__name__}", f"RE() raised {type(c0['exc']).__name__}: {str(c0['exc'])[:120]}"))
    elif not any(t[0] == "plan_end" and t[1] == "returned" for t in tl[s0:r0]):
        out.append(("plan-did-not-complete", "RE() returned but the plan generator did not finish"))
    return out


def oracle(scn, obs, ref, schedule):
    out = []
    if obs.outcome != "ok":
        out.append((f"harness-outcome:{obs.outcome}", f"session ended {obs.outcome} (caller stuck with engine state {obs.calls[-1]['state_after'] if obs.calls else '?'})"))
        return out
    if scn.id == "susp2":
        return _oracle2(scn, obs)
    pre = scn.params.get("pre") or ("I" if scn.params.get("install", 1) else "")
    for op, exc in getattr(scn, "log", []):
        if exc is not None:
            out.append((f"operation-raised:{op}", f"{op} raised {exc}"))
    installed, sigval, tripped = _fold(pre, sigval=scn.params.get("initial", 0))
    tl = obs.timeline
    s0 = next(i for i, t in enumerate(tl) if t[0] == "call" and t[1] == "RE")
    r0 = next((i for i, t in enumerate(tl) if t[0] == "ret" and t[1] == "RE"), len(tl))
    plan_cmds = {"open_run", "checkpoint", "set", "wait", "trigger", "create", "read", "save", "close_run"}
    gated = tripped
    obs.extra["gated"] = gated
    released = not gated
    removed_since = None  # timeline index of a remove that happened while the plan was held
    holding = gated
    first_msg = True
    for i in range(s0, r0):
        t = tl[i]
        if t[0] == "put" and t[1] == "sig":
            if t[2]:
                sigval = 1
                if installed:
                    tripped = True
            else:
                sigval = 0
                if installed:
                    tripped = False
                    released = True
        elif t[0] == "env_release":
            if removed_since is not None and holding:
                out.append(("remove-did-not-release", "the plan was still held after the suspender had been removed; only the signal going back released it"))
        elif t[0] == "op":
            if t[2] is not None:
                out.append((f"operation-raised:{t[1]}", f"{t[1]} raised {t[2]}"))
            if t[1] in ("R", "X"):
                if holding:
                    removed_since = i
                installed, tripped = False, False
                released = True
        elif t[0] == "msg":
            cmd = t[2]
            if first_msg:
                first_msg = False
                if gated and cmd != "wait_for":
                    out.append(("not-gated-at-start", f"suspender tripped before the call, but the first message executed is {cmd}"))
                if not gated and cmd == "wait_for":
                    out.append(("gated-without-trip", "the engine waits although no installed suspender is tripped"))
            if cmd == "_start_suspender":
                holding = True
                if not _trip_while_installed(tl, s0, i, pre, scn):
                    out.append(("suspension-after-removal", "a suspension started although the trip arrived after the suspender had been removed"))
            elif cmd == "_resume_from_suspender":
                holding = False
                removed_since = None
            elif cmd in plan_cmds:
                if gated and not released and holding:
                    out.append(("plan-started-while-tripped", f"{cmd} executed before the pre-tripped suspender released"))
                if gated and holding and cmd in plan_cmds:
                    holding = False
                    removed_since = None
    c0 = obs.calls[0]
    if c0["exc"] is not None:
        out.append((f"call-raised:{type(c0['exc']).__name__}", f"RE() raised {type(c0['exc']).__name__}: {str(c0['exc'])[:120]}"))
    return out


def _trip_while_installed(tl, s0, i, pre, scn):
    """Was there, before timeline index i, a trip (put truthy) delivered while the suspender was installed?"""
    installed, sigval, tripped = _fold(pre, sigval=scn.params.get("initial", 0))
    for t in tl[s0:i]:
        if t[0] == "op" and t[1] in ("R", "X"):
            installed = False
        elif t[0] == "op" and t[1] == "I":
            installed = True
        elif t[0] == "put" and t[1] == "sig" and t[2] and installed:
            return True
    return False


items, run_item, replay, describe = _x1.bind(SPECS, oracle, chunk=40)
