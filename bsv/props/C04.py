"""C04 - resuming replays exactly the work done since the last checkpoint."""

from bsv.oracles import engine
from bsv.oracles.replaymodel import check_replay, plan_originated_trace
from bsv.props import _x1
from bsv.props._x1 import spec
from bsv.scenarios import generated

ID = "C04"
LEVEL = "model_checking"
RULE = (
    "X1 over generated linear plans: every well-formed sequence of <= 2 (quick) / <= 3 (thorough; <= 4 over a 9-item alphabet) items "
    "from {null, checkpoint, rewindable F/T, stage/unstage, monitor/unmonitor, subscribe/unsubscribe, open_run/close_run, "
    "create-read-save, set+wait, sleep} + hand-picked longer ones + corpus scenarios, x pause->resume and suspend->release (with "
    "and without pre/post plans) at every loop position (thorough: two interruptions on the short plans). Oracle = REPLAY-MODEL "
    "with object identity (bsv/oracles/replaymodel.py): after each rewind exactly the cached Msg objects are executed, in order, "
    "before anything else of the plan, nothing older than the last (implicit) checkpoint is executed again, and the plan-originated "
    "trace equals the uninterrupted one; non-trivial = a rewind replayed at least one message"
)
ASSUMPTIONS = _x1.X1_ASSUMPTIONS + [
    "a 'stage'/'unstage' message for an object without such a method is treated as a no-op, not as an implicit checkpoint",
    "after clear_checkpoint nothing is expected to be replayed (the engine aborts instead of pausing)",
]

MENU = [("pause",), ("suspend", "none"), ("suspend", "both")]
HAND = [
    "or-crs-cr-n-cp-n",
    "or-cp-crs-cr-or-crs-cr",
    "cp-n-st-n-n-us-n",
    "or-mo-cp-crs-um-n-cr",
    "cp-set-rwF-n-set-rwT-n-sl",
    "sub-n-cp-n-uns-n",
    "or-cp-crs-crs-cp-crs-cr-n-n",
    "n-sl-cp-sl-n",
    "rwF-n-cp-n-rwT-n-n",
]
_small = ["n", "cp", "or", "cr", "crs", "st", "rwF", "rwT", "set"]


def _linear(seqs, bound, menu=MENU, **kw):
    return [spec("linear", menu, bound=bound, seq="-".join(s) if not isinstance(s, str) else s, **kw) for s in seqs]


SPECS = {
    "quick": _linear(generated.sequences(2), 1) + _linear(HAND, 1) + [spec(k, MENU, bound=1) for k in ("tworuns", "nested", "scan2")] + [spec("tiny", MENU, bound=2)]
    # devices whose stage()/unstage() return a Status (ophyd-async flavour): still implicit checkpoints
    + _linear([s for s in generated.sequences(2) if "st" in s] + ["cp-n-st-n-n-us-n", "n-n-st-n-cp-n", "cp-set-st-n-sl-us-n"], 1, ss=1)
    + [spec("scan2", MENU, bound=1, ss=1)],
    "thorough": _linear(generated.sequences(3), 1)
    + _linear([s for s in generated.sequences(4, _small) if len(s) == 4], 1, menu=[("pause",), ("suspend", "both")])
    + _linear(HAND, 2)
    + _linear(HAND, 1, a=1)
    + [spec(k, MENU, bound=1, a=a) for k in ("tworuns", "nested", "scan2", "count2", "grid22s", "monitor2", "subs", "cleanup") for a in (0, 1)]
    + [spec(k, MENU, bound=2) for k in ("tworuns", "tiny")],
}


def oracle(scn, obs, ref, schedule):
    if obs.outcome != "ok":
        return []
    lost = _inflight_uncacheable(obs)
    if lost:
        # the interrupted command is neither completed nor replayed (it is not replayable): everything after it is off the
        # rails (e.g. a later 'unmonitor' is rejected), so the replay model has nothing sound to say about this execution
        return [(f"in-flight-uncacheable-command-lost:{lost}", f"an interruption took effect while '{lost}' was executing; the command is never re-executed")]
    out, stats = check_replay(obs)
    obs.extra["replayed"] = stats["replayed"]
    # "... and then continues the plan where it was interrupted"
    if not engine.schedule_has(schedule, engine.TERMINATORS) and not schedule.get("faults"):
        main_ok = all(c["exc"] is None or type(c["exc"]).__name__ == "RunEngineInterrupted" for c in obs.calls if c["name"] != "probe")
        finished = any(t[0] == "plan_end" and t[1] == "returned" for t in obs.timeline)
        ref_finished = any(t[0] == "plan_end" and t[1] == "returned" for t in ref.timeline)
        if main_ok and finished and ref_finished and not any(r == "no" for _k, _i, r in engine.interruptions(obs)):
            n_main = _main_len(obs)
            a = [(m.command, _n(m)) for m in plan_originated_trace(obs, n_main)]
            b = [(m.command, _n(m)) for m in plan_originated_trace(ref, _main_len(ref))]
            if a != b:
                k = next((i for i, (x, y) in enumerate(zip(a, b)) if x != y), min(len(a), len(b)))
                out.append(("plan-did-not-continue-where-interrupted", f"plan-originated trace differs from the uninterrupted run at message {k}: {a[k:k+3]} vs {b[k:k+3]}"))
    return out


def _inflight_uncacheable(obs):
    """Command name if a pause/suspension took effect while a non-replayable command was in flight, else None."""
    from bsv.oracles.replaymodel import NON_REPLAYABLE

    cur = None
    for t in obs.timeline:
        if t[0] == "msg":
            cur = t[2]
        elif t[0] == "state" and t[1] in ("pausing", "suspending") and cur in NON_REPLAYABLE and cur not in ("pause", "_start_suspender"):
            # the state changed between this message's hook and the next message: the engine was inside the command
            # (a pause requested by Msg('pause') itself is that command completing, not an interruption of it)
            if len(t) > 4 and t[3] == "loop" and t[4] not in (None, "", "sleep", "wait", "running"):
                return cur  # _run was awaiting the command's own coroutine, not the sleep(0) between two messages
        elif t[0] in ("doc",):
            pass
    return None


def _n(m):
    return getattr(m.obj, "name", None) if m.obj is not None else None


def _main_len(obs):
    tl = obs.timeline
    ps = next((i for i, t in enumerate(tl) if t[0] == "call" and t[1] == "probe"), len(tl))
    return next((t[1] for t in tl[ps:] if t[0] == "msg"), len(obs.msgs))


items, run_item, replay, describe = _x1.bind(SPECS, oracle, chunk=40)
