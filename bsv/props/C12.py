"""C12 - device errors reach the plan at the message that caused them."""

from bsv.oracles import engine
from bsv.props import _x1
from bsv.props._x1 import spec

ID = "C12"
LEVEL = "model_checking"
RULE = (
    "X1 with the fault plan as the deviation: an instrumented top-level plan logs what each of its yields receives; corpus bodies "
    "(count, scan, grid, nested run keys, fly, cleanup wrapper, bare, two motors) in two policies - propagate (the plan does not "
    "handle the error) and swallow (handle-and-continue) - x every device operation made to raise, or to return a status that fails "
    "immediately or 0.25 s later; one raising operation x one pause->resume at every later loop position (the error must still reach the plan after the rewind); one status that fails 0.25 s later x one pause->resume at every later loop position, judged when its message is not re-executed by the replay (the failure may arrive while the engine is paused and must still reach the plan by the wait on its group); a status that fails only after its call has ended while the next call is running (that call must not see it); thorough: two faults, async devices. Oracle: a raising operation => that very exception object is "
    "logged at the yield of the message that invoked it; a failing status => a FailedStatus whose __cause__ is the status' exception is "
    "logged at a yield k <= j <= (the wait on its group), each error once; propagate => the call raises that object; swallow => the "
    "remaining message trace equals the fault-free one; non-trivial = the fault was delivered to the plan"
)
ASSUMPTIONS = _x1.X1_ASSUMPTIONS + ["pause -> resume is combined only with one raising operation that precedes it (an operation re-executed by a replay is not a yield of the plan; C13 covers responses under rewinds)"]

F = ("raise", "fail", "fail_late")
PAUSE1 = [("pause",), ("@once", "pause")]  # one pause -> resume per schedule, combined with one raising operation
_q = ["count2", "scan2", "grid22s", "nested", "fly1", "cleanup", "bare", "twomotors"]
SPECS = {
    "quick": [spec(k, [], bound=1, faults=F, ly=1, oe=oe) for k in _q + ["watch"] for oe in ("p", "s")]
    + [spec(k, PAUSE1, bound=2, faults=("raise",), ly=1, oe=oe) for k in ("bare", "count2") for oe in ("p", "s")]
    + [spec(k, PAUSE1, bound=2, faults=("fail_late",), ly=1, oe=oe) for k in ("bare", "twomotors") for oe in ("p", "s")]  # the status fails while the engine is paused
    + [spec(k, PAUSE1, bound=2, faults=("fail_if_stopped",), ly=1, oe=oe) for k in ("twomotors", "scan2", "longmove") for oe in ("p", "s")]  # a move whose status fails because the pause stops the motor
    + [spec("latefail", [], bound=1, faults=F, a=a) for a in (0, 1)],  # a status that fails after its call has ended
    "thorough": [spec(k, [], bound=1, faults=F, ly=1, oe=oe, a=a) for k in _q + ["flyonly", "relscan2", "listscan", "tworuns"] for oe in ("p", "s") for a in (0, 1)]
    + [spec(k, [], bound=2, faults=F, ly=1, oe="s") for k in ("scan2", "bare", "count2")]
    + [spec(k, PAUSE1, bound=2, faults=("raise",), ly=1, oe=oe, a=a) for k in ("bare", "count2", "scan2", "nested", "cleanup") for oe in ("p", "s") for a in (0, 1)]
    + [spec(k, PAUSE1, bound=2, faults=("fail", "fail_late"), ly=1, oe=oe, a=a) for k in ("bare", "twomotors", "count2", "scan2") for oe in ("p", "s") for a in (0, 1)]
    + [spec(k, PAUSE1, bound=2, faults=("fail_if_stopped",), ly=1, oe=oe, a=a) for k in ("twomotors", "scan2", "longmove") for oe in ("p", "s") for a in (0, 1)],
}


def _group_of(m):
    if m.command == "wait":
        return m.args[0] if m.args else m.kwargs.get("group")
    return m.kwargs.get("group")


def oracle(scn, obs, ref, schedule):
    from bluesky.utils import FailedStatus

    out = []
    if obs.outcome != "ok" or schedule.get("decisions"):
        return out
    if scn.id == "latefail":
        # a status started by one call that fails after that call has ended is not an error of the NEXT call's plan
        pc = next((c for c in obs.calls if c["name"] == "probe"), None)
        if pc is not None and pc["exc"] is not None:
            out.append((f"late-failure-thrown-into-next-call:{type(pc['exc']).__name__}", f"the call after the one that started the failing status raised {type(pc['exc']).__name__}: {str(pc['exc'])[:120]}"))
        return out
    faults = schedule.get("faults", {})
    paused = bool(schedule.get("injections"))
    if paused:
        # fault + pause -> resume: judged only for a raising operation that happens BEFORE the pause takes effect, in a
        # resumable place (an operation re-executed by a replay belongs to the replay, not to a yield of the plan)
        if any(ev[0] != "pause" for _p, ev in schedule["injections"]) or not (set(faults.values()) <= {"raise", "fail", "fail_late", "fail_if_stopped"}) or len(faults) != 1:
            return out
        if any(r != "yes" for _k, _i, r in engine.interruptions(obs)):
            return out
    else:
        out.extend(_wait_covers_its_group(obs))
    if not faults:
        return out
    ylog = obs.extra.get("ylog", [])
    tl = obs.timeline
    excs_logged = [(k, m, v) for k, m, kind, v in ylog if kind == "exc"]
    # each error object is delivered to the plan at most once
    seen = []
    for k, m, v in excs_logged:
        if any(v is s for s in seen):
            out.append(("error-delivered-twice", f"{type(v).__name__} thrown again at yield {k} ({m.command})"))
        seen.append(v)
    if len(faults) != 1:
        return out
    (fi, kind), = faults.items()
    fi = int(fi)
    idx_dev = next((i for i, t in enumerate(tl) if t[0] == "dev" and t[4] == fi), None)
    if idx_dev is None:
        return out  # the faulted operation never happened in this execution
    if paused and any(t[0] == "state" and t[1] == "pausing" for t in tl[:idx_dev]):
        return out
    dev, op = tl[idx_dev][1], tl[idx_dev][2]
    imsg = next((tl[i][1] for i in range(idx_dev, -1, -1) if tl[i][0] == "msg"), None)
    if imsg is None:
        return out
    m = obs.msgs[imsg]
    # engine-initiated operations (back-stop collect, clean-up) are not caused by a plan message
    in_cleanup = any(t[0] == "plan_end" for t in tl[:idx_dev])
    if in_cleanup or m.command != op or getattr(m.obj, "name", None) != dev and dev not in [getattr(a, "name", None) for a in m.args]:
        return out
    if paused and kind != "raise" and sum(1 for mm in obs.msgs if mm is m) != 1:
        return out  # the message was re-executed by the replay: its first status no longer belongs to a yield of the plan
    k = next((kk for kk, mm, _kind, _v in ylog if mm is m), None)
    if k is None:
        k = next((kk for kk, mm, kd, _v in ylog if mm is m or kd == "closed"), None)
    obs.extra["delivered"] = bool(excs_logged)
    if kind == "raise":
        raised = obs.extra.get("raised", [])
        want = raised[0] if raised else None
        hit = [(kk, mm, v) for kk, mm, v in excs_logged if v is want]
        if not hit:
            out.append(("raised-error-not-delivered", f"{dev}.{op}() raised during message #{imsg} ({m.command}) but the plan never saw that exception (saw {[type(v).__name__ for _k, _m, v in excs_logged]})"))
        elif hit[0][1] is not m:
            out.append(("raised-error-at-wrong-yield", f"{dev}.{op}() raised during {m.command} (yield {k}) but was thrown at yield {hit[0][0]} ({hit[0][1].command})"))
        err = want
    else:
        sex = obs.extra.get("status_excs", [])
        hit = [(kk, mm, v) for kk, mm, v in excs_logged if isinstance(v, FailedStatus) and any(v.__cause__ is s for s in sex)]
        fs_any = [(kk, mm, v) for kk, mm, v in excs_logged if isinstance(v, FailedStatus)]
        if not sex:
            return out  # the status never got to fail (e.g. the motor was stopped first)
        # the wait on its group, if the plan got that far
        grp = _group_of(m)
        w = None
        for kk, mm, _kd, _v in ylog:
            if kk > k and mm.command == "wait" and _group_of(mm) == grp:
                w = kk
                break
        if not hit:
            if fs_any:
                out.append(("failedstatus-not-chained", f"FailedStatus delivered at yield {fs_any[0][0]} without the status' exception as __cause__"))
            elif w is not None and any(kk > w for kk, _m, _kd, _v in ylog):
                out.append(("failed-status-not-delivered", f"status of {dev}.{op}() (yield {k}, group {grp!r}) failed, the plan went past the wait at yield {w} without seeing it"))
            return out
        j = hit[0][0]
        if j < k:
            out.append(("failed-status-delivered-early", f"thrown at yield {j}, before the message that caused it (yield {k})"))
        if w is not None and j > w:
            out.append(("failed-status-delivered-after-wait", f"status of yield {k} ({m.command}, group {grp!r}) failed; thrown at yield {j} ({hit[0][1].command}), after the wait at yield {w}"))
        err = hit[0][2]
    # what the call did
    c0 = [c for c in obs.calls if c["name"] != "probe"][-1]  # RE(), or the resume() that finished the plan
    if scn.on_error == "propagate":
        if excs_logged and err is not None and any(v is err for _k, _m, v in excs_logged):
            if c0["exc"] is not err and not _handled_by_plan(scn):
                diag = f":{type(c0['exc']).__name__}-after-rewind" if paused and type(c0["exc"]).__name__ == "IllegalMessageSequence" else ""
                out.append(("unhandled-error-not-raised" + diag, f"{c0['name']}() ended with {type(c0['exc']).__name__} instead of the undelivered/unhandled {type(err).__name__}"))
    else:
        # handle-and-continue: the rest of the plan runs as in the fault-free execution
        a = [(mm.command, getattr(mm.obj, "name", None)) for _k, mm, _kd, _v in ylog]
        b = [(mm.command, getattr(mm.obj, "name", None)) for _k, mm, _kd, _v in ref.extra.get("ylog", [])]
        if excs_logged and a != b and c0["exc"] is None:
            d = next((i for i, (x, y) in enumerate(zip(a, b)) if x != y), min(len(a), len(b)))
            out.append(("trace-differs-after-handled-error", f"yield {d}: {a[d:d+3]} vs fault-free {b[d:d+3]}"))
    return out


def _handled_by_plan(scn):
    return False


def _wait_covers_its_group(obs):
    """A wait(group=g) that returned normally returned after every status started under g had finished.

    (Otherwise a failure of such a status can only surface later than "the wait on its group", or never.)
    """
    out = []
    tl = obs.timeline
    ylog = {id(m): (kind, v) for _k, m, kind, v in obs.extra.get("ylog", [])}
    started = {}  # group -> [op index of the status-returning device op]
    finished = {t[3]: i for i, t in enumerate(tl) if t[0] == "status" and len(t) > 3}
    msg_at = [i for i, t in enumerate(tl) if t[0] == "msg"]
    cur = None
    for i, t in enumerate(tl):
        if t[0] == "msg":
            cur = obs.msgs[t[1]]
            if cur.command == "wait" and not cur.kwargs.get("timeout") and cur.kwargs.get("error_on_timeout", True):
                g = _group_of(cur)
                kind, v = ylog.get(id(cur), (None, None))
                j = next((x for x in msg_at if x > i), None)
                if kind == "resp" and v is True and j is not None:
                    for op in started.pop(g, []):
                        fin = finished.get(op)
                        if fin is None or fin > j:
                            out.append(("wait-returned-before-group-finished", f"wait(group={g!r}) returned True while the status of device op #{op} of that group was still in progress"))
                else:
                    started.pop(g, None)
        elif t[0] == "dev" and cur is not None and t[2] in ("set", "trigger", "kickoff", "complete") and cur.command == t[2]:
            if t[4] in obs.extra.get("results", {}):  # the operation did return a status (it did not raise)
                started.setdefault(cur.kwargs.get("group"), []).append(t[4])
        elif t[0] == "status" and len(t) > 3:
            finished[t[3]] = i
    return out


items, run_item, replay, describe = _x1.bind(SPECS, oracle)
