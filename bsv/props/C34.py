"""C34 - JSON writers produce files that parse back to the documents.

S engine over document histories: every run  start, <= 3 middle documents, stop  whose payloads come from a
fixed alphabet of JSON-compatible values chosen to break hand-written JSON framing (quotes, backslashes,
newlines, non-ASCII, U+2028, strings that look like array delimiters, nesting, None/bool/number edge
cases) is sent through the real ``JSONWriter`` and ``JSONLinesWriter`` in every file configuration of the
bound (derived or explicit file name, absent / pre-existing file), followed by a second run through the
SAME writer object.  The files are read back with the standard ``json`` module.
"""

import copy
import hashlib
import json
import os
import shutil
import tempfile

ID = "C34"
LEVEL = "model_checking"
RULE = (
    "S: runs = start(payload) + every sequence of 0..3 middle documents over {descriptor,event} x 3 payloads (quick: 259 sequences) / "
    "x 8 payloads (thorough: 4369 sequences) + stop(payload), start/stop payload pairs: 4 (quick) / 8 (thorough); each run through 3 JSONWriter configurations (derived name; "
    "explicit name, absent; explicit name over a longer pre-existing file) and 6 JSONLinesWriter configurations (explicit name x "
    "{absent, empty, 1 line, 2 lines}; derived name x {absent, 1 pre-existing line}), then a second run (new uid, middle reversed) "
    "through the same writer. Oracle: json.load(JSONWriter file) == the records of the latest run in order; the .jsonl file ends "
    "with a newline, every line parses alone, parsed lines == pre-existing + run 1 (+ run 2) records, and the earlier text is an "
    "unchanged prefix. non-trivial = at least one middle document and at least one payload whose JSON text contains an escape "
    "sequence (measured on the produced file)"
)
ASSUMPTIONS = [
    "payloads are JSON-compatible and free of NaN/Infinity (not valid JSON) and of non-string keys",
    "pre-existing .jsonl content is well formed and newline-terminated (a file without trailing newline is outside the statement)",
    "a second run through one JSONWriter re-uses the first run's file name; only 'the writer's file holds the latest run' is demanded (the class documents single-run use)",
    "lines are separated by '\\n' only",
]

PAYLOADS = [
    {"a": 1},
    {"q": 'he said "hi" \\ back\\slash', 'k"ey': "v'"},
    {"nl": "line1\nline2\r\n\tend", "k\ney": "\n"},
    {"u": "\u00e9 \u4e2d \U0001f600 \u2028\u2029 \x00\x1f \x7f"},
    {"j": '"]"', "j2": "]\n[", "j3": ",\n", "j4": "\n]", "j5": "[\n"},
    {"l": [1, [2, {"k": []}], {}], "d": {"x": {"y": None}}, "e": ""},
    {"n": None, "t": True, "f": False, "": 0},
    {"i": -12, "big": 2**63, "f": 1.5e-7, "z": 0.0, "neg": -0.0, "e": 1e300},
]
MIDDLE_NAMES = ("descriptor", "event")
PAIRS_QUICK = [(0, 5), (2, 1), (4, 3), (6, 7)]
PAIRS_THOROUGH = [(i, (i + 3) % 8) for i in range(8)]

JW_CONFIGS = ["derived", "explicit-absent", "explicit-over-existing"]
JL_CONFIGS = ["explicit-absent", "explicit-empty", "explicit-1line", "explicit-2lines", "derived-absent", "derived-1line"]
PRE_LINES = ['{"name": "old", "doc": {"uid": "old-1", "s": "x\\ny"}}\n', '{"name": "old", "doc": {"uid": "old-2"}}\n']


def describe(tier):
    return {
        "bounds": {
            "middle_docs": "0..3 over 6 symbols" if tier == "quick" else "0..3 over 16 symbols",
            "payloads": len(PAYLOADS),
            "start_stop_payload_pairs": len(PAIRS_QUICK if tier == "quick" else PAIRS_THOROUGH),
            "writer_configurations": len(JW_CONFIGS) + len(JL_CONFIGS),
            "runs_per_writer": 2,
        }
    }


MIDDLE_PAYLOADS_QUICK = (1, 2, 4)


def _symbols(tier):
    ps = MIDDLE_PAYLOADS_QUICK if tier == "quick" else range(len(PAYLOADS))
    return [(n, p) for n in MIDDLE_NAMES for p in ps]


def items(tier, seed):
    import bluesky.callbacks.json_writer  # noqa: F401 - before the fork

    pairs = PAIRS_QUICK if tier == "quick" else PAIRS_THOROUGH
    out = []
    nsym = len(_symbols(tier))
    for ps, pe in pairs:
        out.append({"tier": tier, "ps": ps, "pe": pe, "first": None})  # middle length 0, 1
        for first in range(nsym):
            out.append({"tier": tier, "ps": ps, "pe": pe, "first": first})  # middle length 2, 3 starting with `first`
    import gc

    gc.freeze()  # keep the forked workers' collector off the parent's heap (fewer copy-on-write faults)
    return out


def make_run(uid, ps, middle, pe):
    docs = [("start", {"uid": uid, "time": 1.0, "payload": copy.deepcopy(PAYLOADS[ps])})]
    for k, (name, p) in enumerate(middle):
        docs.append((name, {"uid": f"{uid}-m{k}", "run_start": uid, "seq_num": k + 1, "payload": copy.deepcopy(PAYLOADS[p])}))
    docs.append(("stop", {"uid": f"{uid}-stop", "run_start": uid, "exit_status": "success", "payload": copy.deepcopy(PAYLOADS[pe])}))
    return docs


def records(docs):
    return [{"name": n, "doc": d} for n, d in docs]


def _read(path):
    with open(path, encoding="utf-8", newline="") as f:
        return f.read()


def check_json_array(path, docs):
    """-> (None or (rule, detail), file text)"""
    try:
        text = _read(path)
    except FileNotFoundError:
        return ("file-missing", f"{os.path.basename(path)} does not exist"), ""
    try:
        data = json.loads(text)
    except ValueError as e:
        return ("file-not-json", f"{e}; file text {text[:300]!r}"), text
    if data != records(docs):
        return ("records-differ", f"parsed {str(data)[:300]} expected {str(records(docs))[:300]}"), text
    return None, text


def check_json_lines(path, before_text, all_records):
    try:
        text = _read(path)
    except FileNotFoundError:
        return ("file-missing", f"{os.path.basename(path)} does not exist"), ""
    if not text.startswith(before_text):
        return ("earlier-content-changed", f"file no longer starts with the {len(before_text)} characters it held before"), text
    if text and not text.endswith("\n"):
        return ("last-line-unterminated", repr(text[-80:])), text
    lines = text.split("\n")[:-1] if text else []
    parsed = []
    for i, ln in enumerate(lines):
        try:
            parsed.append(json.loads(ln))
        except ValueError as e:
            return ("line-not-json", f"line {i}: {e}; {ln[:200]!r}"), text
    if parsed != all_records:
        return ("records-differ", f"{len(parsed)} lines parsed, expected {len(all_records)} records; first difference at {next((i for i, (a, b) in enumerate(zip(parsed, all_records)) if a != b), min(len(parsed), len(all_records)))}"), text
    return None, text


def run_case(tmp, n, ps, middle, pe):
    """All 9 writer configurations x 2 runs for one document sequence.  -> (violations, lifecycles, ops, escaped?)"""
    from bluesky.callbacks.json_writer import JSONLinesWriter, JSONWriter

    case = {"ps": ps, "middle": [[a, b] for a, b in middle], "pe": pe}
    uid1, uid2 = f"aa{n:06d}-1111-run", f"bb{n:06d}-2222-run"
    run1 = make_run(uid1, ps, middle, pe)
    run2 = make_run(uid2, pe, middle[::-1], ps)
    vs = []
    ops = 0
    escaped = False
    created = []
    shape = f"middle={len(middle)}"

    def viol(writer, config, run, rc):
        rule, detail = rc
        names = [nm for nm, _ in (run1 if run == 1 else run2)]
        vs.append(
            {
                "rule": rule,
                "detail": f"{writer} [{config}] after run {run} ({' '.join(names)}; payload ids start={ps} middle={[p for _, p in middle]} stop={pe}): {detail}",
                "signature": f"{rule}|{writer}|{config}|run={run}|{shape}",
                "case": case,
            }
        )

    # ---- JSONWriter
    for config in JW_CONFIGS:
        fname = None if config == "derived" else f"jw{n}.json"
        if config == "explicit-over-existing":
            with open(os.path.join(tmp, fname), "w") as f:
                f.write('[\n{"name": "start", "doc": {"uid": "stale"}},\n' + '{"name": "event", "doc": {"stale": "' + "x" * 4000 + '"}},\n' * 3 + '{"name": "stop", "doc": {}}\n]')
        w = JSONWriter(tmp, fname)
        for run_no, run in ((1, run1), (2, run2)):
            try:
                for name, doc in run:
                    w(name, copy.deepcopy(doc))
                    ops += 1
            except Exception as e:  # noqa: BLE001
                viol("JSONWriter", config, run_no, (f"exception:{type(e).__name__}", repr(e)))
                break
            path = os.path.join(tmp, str(w.filename))
            if path not in created:
                created.append(path)
            rc, text = check_json_array(path, run)
            if rc:
                viol("JSONWriter", config, run_no, rc)
                break
            if "\\" in text:
                escaped = True
    # ---- JSONLinesWriter
    for config in JL_CONFIGS:
        derived = config.startswith("derived")
        fname = None if derived else f"jl{n}.jsonl"
        target = os.path.join(tmp, f"{uid1.split('-')[0]}.jsonl" if derived else fname)
        pre = {"absent": None, "empty": "", "1line": PRE_LINES[0], "2lines": "".join(PRE_LINES)}[config.split("-")[1]]
        if pre is not None:
            with open(target, "w") as f:
                f.write(pre)
        created.append(target)
        before = pre or ""
        recs = [json.loads(ln) for ln in before.split("\n") if ln]
        w = JSONLinesWriter(tmp, fname)
        for run_no, run in ((1, run1), (2, run2)):
            try:
                for name, doc in run:
                    w(name, copy.deepcopy(doc))
                    ops += 1
            except Exception as e:  # noqa: BLE001
                viol("JSONLinesWriter", config, run_no, (f"exception:{type(e).__name__}", repr(e)))
                break
            path = os.path.join(tmp, str(w.filename))
            if path not in created:
                created.append(path)
            recs = recs + records(run)
            rc, text = check_json_lines(path, before, recs)
            if rc:
                viol("JSONLinesWriter", config, run_no, rc)
                break
            before = text
    for p in created:
        try:
            os.remove(p)
        except FileNotFoundError:
            pass
    return vs, len(JW_CONFIGS) + len(JL_CONFIGS), ops, escaped


def _middles(tier, first):
    S = _symbols(tier)
    if first is None:
        return [()] + [(s,) for s in S]
    f = S[first]
    return [(f, s) for s in S] + [(f, s, t) for s in S for t in S]


def run_item(item):
    tmp = tempfile.mkdtemp(prefix="bsv-c34-", dir="/var/tmp")
    violations, states, nontrivial, outcomes = [], set(), set(), {}
    persig, suppressed = {}, 0
    n = lifecycles = ops = 0
    try:
        for middle in _middles(item["tier"], item["first"]):
            n += 1
            key = hashlib.sha256(repr((item["ps"], middle, item["pe"])).encode()).hexdigest()[:12]
            states.add(key)
            vs, lc, op, escaped = run_case(tmp, n, item["ps"], list(middle), item["pe"])
            lifecycles += lc
            ops += op
            if middle and escaped:
                nontrivial.add(key)
            oc = ("ok" if not vs else "violations") + f"|middle={len(middle)}|names={''.join(nm[0] for nm, _ in middle)}"
            outcomes[oc] = outcomes.get(oc, 0) + 1
            for v in vs:
                persig[v["signature"]] = persig.get(v["signature"], 0) + 1
                if persig[v["signature"]] <= 3:
                    violations.append(v)
                else:
                    suppressed += 1
    finally:
        shutil.rmtree(tmp, ignore_errors=True)
    return {
        "evaluations": lifecycles,
        "transitions": ops,
        "states": states,
        "nontrivial": nontrivial,
        "outcomes": outcomes,
        "violations": violations,
        "samples": [{"start_payload": item["ps"], "stop_payload": item["pe"], "middle": [list(m) for m in _middles(item["tier"], item["first"])[-1]], "payload_4": PAYLOADS[4]}],
        "extra": {"caps_hit": 0, "violating_cases_not_listed_individually": suppressed},
    }


def replay(payload):
    c = payload["case"]
    tmp = tempfile.mkdtemp(prefix="bsv-c34-", dir="/var/tmp")
    try:
        vs, _, _, _ = run_case(tmp, 1, c["ps"], [(a, b) for a, b in c["middle"]], c["pe"])
    finally:
        shutil.rmtree(tmp, ignore_errors=True)
    return vs
