"""C05 - seq_num and num_events account for every event exactly."""

from bsv.oracles.seqnum import check_seqnum
from bsv.props import _x1
from bsv.props._x1 import spec

ID = "C05"
LEVEL = "model_checking"
RULE = (
    "X1: corpus incl. monitor (with a signal update at every loop position), record_interruptions=True, flyer/collect, nested run "
    "keys; pause / deferred pause / suspension at every loop position, x post-pause decisions; quick: <=1 interruption (+1 signal "
    "update on monitor1), thorough: <=2. Oracle per run and stream: emitted seq_nums == 1..num_events[stream]; a seq_num is emitted "
    "twice only by create/read/save events and only with a rewind (resume or suspension) in between; stream-datum seq ranges tile; "
    "non-trivial = behaviour digest differs from the reference run"
)
ASSUMPTIONS = _x1.X1_ASSUMPTIONS

P = [("pause",), ("dpause",), ("suspend", "none")]
PUT = [("put", "sig", 7)]
SPECS = {
    "quick": [spec(k, P, bound=1) for k in ("count2", "scan2", "nested", "fly1", "tworuns", "bare", "grid22s")]
    + [spec(k, P, bound=1, ri=1) for k in ("count2", "nested", "tiny")]
    + [spec("monitor2", P, bound=1), spec("monitor2", P, bound=1, ri=1), spec("monitor1", P + PUT, bound=1), spec("flyonly", P, bound=1)]
    + [spec("linear", P, bound=1, seq=s) for s in ("or-cp-rwF-crs-rwT-n-sl-crs-cr", "or-cp-crs-rwF-crs-crs-rwT-sl-n-crs-cr", "or-rwF-cp-crs-n-rwT-set-crs-cr")]
    + [spec("tiny", P, bound=2, ri=ri) for ri in (0, 1)],  # every pair of interruptions (and every decision) on the smallest run
    "thorough": [spec("monitor2", P, bound=2, ri=ri) for ri in (0, 1)]
    + [spec("flyonly", P, bound=2)]
    + [spec(k, P, bound=1, a=a) for k in ("count2", "scan2", "nested", "fly1", "tworuns", "bare", "grid22s", "cleanup", "baseline") for a in (0, 1)]
    + [spec(k, P, bound=2, ri=1) for k in ("count2", "tiny", "nested")]
    + [spec(k, P, bound=2) for k in ("tiny", "tworuns")]
    + [spec("monitor1", P + PUT, bound=2, ri=1)]
    + [spec("monitor1", P + PUT, bound=2, a=1)],
}


def oracle(scn, obs, ref, schedule):
    if obs.outcome != "ok":
        return []
    return check_seqnum(obs)


items, run_item, replay, describe = _x1.bind(SPECS, oracle)
