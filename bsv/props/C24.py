"""C24 - relative moves are offsets from the start and are undone at the end.

Two parts, one oracle:
 G. message-level responder: each program of the family is iterated directly; an exception (failure,
    RequestStop, RequestAbort) is thrown at EVERY message of the body in turn.
 E. the same programs on the real RunEngine under the harness: 0 deviations, a fault ('raise' / failing
    status) on every device operation of the body in turn, an injected RE.abort() / RE.stop() at every loop
    position before the clean-up begins.  Final device positions are read from the fake motors.
"""

import hashlib
import itertools

ID = "C24"
LEVEL = "model_checking"
TOL = 1e-9
VALS = (-2, 0, 1.5)
KINDS = ("loc", "pos", "read")  # Locatable / has .position / read-only

RULE = (
    "G+E: programs rel_set, mvr (1 and 2 motors), relative_set_wrapper (devices=None and a subset; two successive moves of the "
    "same motor), reset_positions_wrapper (devices=None and a subset; one motor moved only inside a nested wrapped plan), "
    "reset_positions_wrapper(relative_set_wrapper(..)), rel_scan (1 and 2 motors), rel_list_scan, rel_grid_scan, "
    "rel_list_grid_scan, rel_log_scan, x2x_scan; initial positions and offsets from {-2,0,1.5}; motors of three kinds (Locatable, "
    "`.position`, read-only). Part G: responder run plus an exception (RuntimeError, RequestStop, RequestAbort) thrown at every "
    "body message. Part E: real RunEngine, clean run plus a fault (raise / failed status) at every body device operation plus an "
    "injected abort / stop at every event-loop position before clean-up. Oracle: per affected motor the commanded targets are "
    "(a prefix of) initial+requested offset in order (consecutive duplicates merged; unaffected motors get the raw value); for the "
    "resetting programs every motor that received a body move has `initial` as its last commanded target, and in part E ends "
    "physically at its initial position. Part P (pseudo positioners): relative_set_wrapper, reset_positions_wrapper and their composition with a device set that names a whole pseudo positioner P (two coupled axes a, b), one of its axes, or P and an axis; the plan is every sequence of length <= 2 (thorough 3) over {move P, move a, move b, move a again}, clean run plus an exception thrown at every body message: every commanded target is initial + offset (P and its axes are one coupled unit, all relative to the positions before the first move) and after the clean-up both axes are physically back at their initial positions. Non-trivial = a motor with non-zero initial position was moved by a non-zero offset "
    "(so absolute and relative, reset and not reset, are distinguishable)."
)
ASSUMPTIONS = [
    "a failure / stop / abort that lands inside the clean-up itself (after the body has finished) is outside the alphabet: the "
    "statement quantifies over plans failing at arbitrary steps, not over failing clean-ups",
    "GeneratorExit / close() is not a 'plan ends with cleanup' exit (finalize_wrapper documents that it skips cleanup)",
    "for Locatable motors the initial position is the located setpoint, which the fakes keep equal to the readback",
    "float comparisons with 1e-9 tolerance; numeric domain {-2,0,1.5} for initial positions and offsets",
    "X1 assumptions of the harness (requests land at event-loop callback boundaries; fake devices; virtual clock)",
]

GRID = {
    "quick": {
        "inits1": VALS,
        "inits2": ((-2, 1.5), (0, 0), (1.5, -2)),
        "offs": ((-2, 1.5), (1.5, 0), (0, -2), (1.5, 1.5), (0, 0)),
        "kinds2": (("loc", "loc"), ("pos", "pos"), ("read", "read"), ("loc", "read"), ("pos", "loc")),
        "E_all_positions": False,
        "E_inits1": (1.5,),
        "E_inits2": ((1.5, -2),),
        "E_offs": ((-2, 1.5), (1.5, 0)),
        "E_kinds2": (("loc", "loc"), ("pos", "read"), ("read", "pos")),
        "extra_programs": ("rel_list_grid_scan", "rel_log_scan", "x2x_scan"),
    },
    "thorough": {
        "inits1": VALS,
        "inits2": tuple(itertools.product(VALS, VALS)),
        "offs": tuple(itertools.product(VALS, VALS)),
        "kinds2": tuple(itertools.product(KINDS, KINDS)),
        "E_all_positions": True,
        "E_inits1": (1.5, -2),
        "E_inits2": ((1.5, -2),),
        "E_offs": ((-2, 1.5), (1.5, 0), (0, -2), (1.5, 1.5)),
        "E_kinds2": (("loc", "loc"), ("pos", "pos"), ("read", "read"), ("loc", "read"), ("pos", "loc")),
        "extra_programs": ("rel_list_grid_scan", "rel_log_scan", "x2x_scan"),
    },
}

# name -> (number of motors, resets?)
PROGRAMS = {
    "rel_set": (1, False),
    "mvr1": (1, False),
    "mvr2": (2, False),
    "relwrap": (2, False),
    "relwrap_subset": (2, False),
    "resetwrap": (2, True),
    "resetwrap_subset": (2, True),
    "reset_rel": (2, True),
    "rel_scan1": (1, True),
    "rel_scan2": (2, True),
    "rel_list_scan": (1, True),
    "rel_grid_scan": (2, True),
    "rel_list_grid_scan": (2, True),
    "rel_log_scan": (1, True),
    "x2x_scan": (2, True),
}
BASE_PROGRAMS = tuple(p for p in PROGRAMS if p not in ("rel_list_grid_scan", "rel_log_scan", "x2x_scan"))


def describe(tier):
    g = GRID[tier]
    return {"bounds": {"values": list(VALS), "motor_kinds": list(KINDS), "programs": list(BASE_PROGRAMS) + list(g["extra_programs"]),
                       "responder_grid": {k: repr(g[k]) for k in ("inits1", "inits2", "offs", "kinds2")},
                       "engine_grid": {k: repr(g[k]) for k in ("E_inits1", "E_inits2", "E_offs", "E_kinds2", "E_all_positions")},
                       "throw_kinds": ["RuntimeError", "RequestStop", "RequestAbort"], "fault_kinds": ["raise", "fail"], "requests": ["abort", "stop"]}}


# --------------------------------------------------------------------------- programs and their reference


def lin(a, b, n):
    return [float(a)] if n == 1 else [a + i * (b - a) / (n - 1) for i in range(n)]


def expected(prog, a, b):
    """-> per motor: (mode, [requested values in order]); mode 'rel' (offset from initial) or 'abs' (raw), and
    per motor whether the program resets it."""
    if prog in ("rel_set", "mvr1"):
        return [("rel", [a])], [False]
    if prog == "mvr2":
        return [("rel", [a]), ("rel", [b])], [False, False]
    if prog == "relwrap":
        return [("rel", [a, b]), ("rel", [b])], [False, False]
    if prog == "relwrap_subset":
        return [("rel", [a, b]), ("abs", [b])], [False, False]
    if prog == "resetwrap":
        return [("abs", [a, b]), ("abs", [b])], [True, True]
    if prog == "resetwrap_subset":
        return [("abs", [a, b]), ("abs", [b])], [True, False]
    if prog == "reset_rel":
        return [("rel", [a, b]), ("rel", [b])], [True, True]
    if prog == "rel_scan1":
        return [("rel", lin(a, b, 3))], [True]
    if prog == "rel_scan2":
        return [("rel", lin(a, b, 2)), ("rel", lin(b, a, 2))], [True, True]
    if prog == "rel_list_scan":
        return [("rel", [a, b, a])], [True]
    if prog == "rel_grid_scan":
        x, y = lin(a, b, 2), lin(b, a, 2)
        return [("rel", [x[0], x[0], x[1], x[1]]), ("rel", [y[0], y[1], y[0], y[1]])], [True, True]
    if prog == "rel_list_grid_scan":
        x, y = [a, b], [b, a, b]
        return [("rel", [v for v in x for _ in y]), ("rel", y * len(x))], [True, True]
    if prog == "rel_log_scan":
        return [("rel", [10.0**e for e in lin(a, b, 3)])], [True]
    if prog == "x2x_scan":
        return [("rel", lin(a, b, 3)), ("rel", lin(a / 2, b / 2, 3))], [True, True]
    raise ValueError(prog)


def build(prog, ms, det, a, b):
    import bluesky.plan_stubs as bps
    import bluesky.plans as bp
    import bluesky.preprocessors as bpp

    m0 = ms[0]
    m1 = ms[1] if len(ms) > 1 else None

    def body():
        yield from bps.mv(m0, a)
        # the second motor is moved only inside a nested, separately wrapped plan
        yield from bpp.finalize_wrapper(bps.mv(m1, b), bps.null())
        yield from bps.mv(m0, b)

    if prog == "rel_set":
        return bps.rel_set(m0, a, wait=True)
    if prog == "mvr1":
        return bps.mvr(m0, a)
    if prog == "mvr2":
        return bps.mvr(m0, a, m1, b)
    if prog == "relwrap":
        return bpp.relative_set_wrapper(body())
    if prog == "relwrap_subset":
        return bpp.relative_set_wrapper(body(), [m0])
    if prog == "resetwrap":
        return bpp.reset_positions_wrapper(body())
    if prog == "resetwrap_subset":
        return bpp.reset_positions_wrapper(body(), [m0])
    if prog == "reset_rel":
        return bpp.reset_positions_wrapper(bpp.relative_set_wrapper(body()))
    if prog == "rel_scan1":
        return bp.rel_scan([det], m0, a, b, 3)
    if prog == "rel_scan2":
        return bp.rel_scan([det], m0, a, b, m1, b, a, num=2)
    if prog == "rel_list_scan":
        return bp.rel_list_scan([det], m0, [a, b, a])
    if prog == "rel_grid_scan":
        return bp.rel_grid_scan([det], m0, a, b, 2, m1, b, a, 2)
    if prog == "rel_list_grid_scan":
        return bp.rel_list_grid_scan([det], m0, [a, b], m1, [b, a, b])
    if prog == "rel_log_scan":
        return bp.rel_log_scan([det], m0, a, b, 3)
    if prog == "x2x_scan":
        return bp.x2x_scan([det], m0, m1, a, b, 3)
    raise ValueError(prog)


def _dedupe(seq):
    out = []
    for v in seq:
        if not out or abs(out[-1] - v) > TOL:
            out.append(v)
    return out


def _eq(x, y):
    return len(x) == len(y) and all(abs(p - q) <= TOL for p, q in zip(x, y))


def _is_prefix(x, y):
    return len(x) <= len(y) and all(abs(p - q) <= TOL for p, q in zip(x, y))


def judge(prog, inits, a, b, targets, complete, final_pos=None):
    """targets: per motor, the commanded targets in order.  complete: the body ran to its end.

    Required command sequence of a motor (consecutive equal commands merged, because a step that does not change
    a motor's coordinate does not command it):  W = [initial+offset ...] (or the raw values for an unaffected
    motor); resetting programs: W + [initial]; an interrupted run: P + [initial] for some prefix P of W (just P
    for non-resetting programs).  Returns [(rule, motor index, detail)], non-trivial flag.
    """
    exp, resets = expected(prog, a, b)
    vs = []
    nontrivial = False
    for i, ((mode, req), rst) in enumerate(zip(exp, resets)):
        got = [float(t) for t in targets[i]]
        init = inits[i]
        want = [init + r if mode == "rel" else float(r) for r in req]
        G = _dedupe(got)
        if not rst:
            ok = _eq(G, _dedupe(want)) if complete else _is_prefix(G, _dedupe(want))
        elif not got:
            ok = not complete
        else:
            back = abs(got[-1] - init) <= TOL
            if not back:
                vs.append(("not-commanded-back", i, f"m{i} (initial {init}) received {got}; its last command is not its initial position"))
                ok = _eq(G, _dedupe(want)) if complete else _is_prefix(G, _dedupe(want))
            elif complete:
                ok = _eq(G, _dedupe(want + [init]))
            else:
                ok = any(_eq(G, _dedupe(want[:k] + [init])) for k in range(len(want) + 1))
        if not ok:
            what = "initial+offset" if mode == "rel" else "the requested absolute value"
            vs.append(("wrong-target", i, f"m{i} (initial {init}, {mode}) commanded {got}; required {'' if complete else 'a prefix of '}{want} ({what}){', then back to initial' if rst else ''}"))
        if final_pos is not None and rst and got and abs(final_pos[i] - init) > TOL:
            vs.append(("not-at-initial-position", i, f"m{i} ends at {final_pos[i]}, initial position {init}, commands {got}"))
        if got and init != 0 and any(r != 0 for r in req):
            nontrivial = True
    return vs, nontrivial


# --------------------------------------------------------------------------- work items


def _combos(tier, prog, part):
    g = GRID[tier]
    nm = PROGRAMS[prog][0]
    if part == "G":
        inits = [(x,) for x in g["inits1"]] if nm == 1 else list(g["inits2"])
        kinds = [(k,) for k in KINDS] if nm == 1 else list(g["kinds2"])
        offs = g["offs"]
    else:
        inits = [(x,) for x in g["E_inits1"]] if nm == 1 else list(g["E_inits2"])
        kinds = [(k,) for k in KINDS] if nm == 1 else list(g["E_kinds2"])
        offs = g["E_offs"]
    if prog == "rel_log_scan":
        offs = [o for o in offs if max(o) <= 1.5]
    if part == "E":
        return [(part, prog, list(i), list(o), list(k), bool(g["E_all_positions"])) for i in inits for o in offs for k in kinds]
    return [(part, prog, list(i), list(o), list(k)) for i in inits for o in offs for k in kinds]


def items(tier, seed):
    progs = list(BASE_PROGRAMS) + list(GRID[tier]["extra_programs"])
    g_cases = [c for p in progs for c in _combos(tier, p, "G")]
    e_cases = [c for p in progs for c in _combos(tier, p, "E")]
    out = [{"cases": g_cases[i : i + 40]} for i in range(0, len(g_cases), 40)]
    out += [{"cases": [c]} for c in e_cases]
    p_cases = _p_cases(tier)
    out += [{"cases": p_cases[i : i + 30]} for i in range(0, len(p_cases), 30)]
    return out


# --------------------------------------------------------------------------- part G


def _phase_rules(vs, phase, skip_final=()):
    """Violations observed when the exception was delivered while the clean-up itself was yielding get their own
    rule: one root cause (the reset loop is not protected against an exception at one of its own messages)."""
    out = []
    for rule, mi, detail in vs:
        if rule == "not-at-initial-position" and mi in skip_final:
            continue  # the device whose own clean-up command was made to fail
        if phase == "cleanup":
            out.append(("cleanup-abandoned", mi, f"({rule}) {detail}"))
        else:
            out.append((rule, mi, detail))
    return out


def run_G(case):
    from bluesky.utils import RequestAbort, RequestStop
    from bsv.explore.responder import Dev, Responder, drive

    prog, inits, (a, b), kinds = case[1:5]
    nm = len(inits)

    def fresh():
        ms = [Dev(f"m{i}", locatable=(k == "loc"), has_position=(k == "pos")) for i, k in enumerate(kinds)]
        det = Dev("det", kind="det")
        r = Responder(positions={m: float(x) for m, x in zip(ms, inits)}, reading=lambda d, r: 1.0)
        return ms, det, r

    def targets_of(trace, ms):
        # a set message that was yielded counts as commanded, also when the answer to it is the thrown exception
        return [[t.args[0] for t in trace if t.command == "set" and t.obj is m] for m in ms]

    results = []
    ms, det, r = fresh()
    out = drive(build(prog, ms, det, a, b), r)
    clean_trace = out["trace"]
    tg = targets_of(clean_trace, ms)
    if out["outcome"] != "return":
        e = out["exc"]
        return [(("plan-raised", 0, f"clean run ended with {out['outcome']} {type(e).__name__ if e else ''}: {e}"), "clean", None)], {"runs": 1, "steps": len(clean_trace), "nontrivial": False, "classes": {"clean:raised": 1}}
    finits = [float(x) for x in inits]
    vs, nontrivial = judge(prog, finits, a, b, tg, True)
    results += [(v, "clean", None) for v in vs]
    classes = {"clean:ok" if not vs else "clean:VIOL": 1}
    # where does the clean-up begin?  at the last set of every resetting motor that was moved
    _, resets = expected(prog, a, b)
    n_cleanup = sum(1 for i in range(nm) if resets[i] and tg[i])
    set_idx = [i for i, m in enumerate(clean_trace) if m.command == "set"]
    body_end = set_idx[-n_cleanup] if n_cleanup else len(clean_trace)
    runs, steps = 1, len(clean_trace)
    for k in range(len(clean_trace)):
        phase = "body" if k < body_end else "cleanup"
        for exc_name, exc in (("failure", RuntimeError("injected")), ("stop", RequestStop()), ("abort", RequestAbort())):
            ms, det, r = fresh()
            o = drive(build(prog, ms, det, a, b), r, throw_at=(k, exc))
            runs += 1
            steps += len(o["trace"])
            vs, _ = judge(prog, finits, a, b, targets_of(o["trace"], ms), phase == "cleanup")
            vs = _phase_rules(vs, phase)
            cmd = clean_trace[k].command
            results += [(v, exc_name, f"thrown as the response to message #{k} ({cmd}{' of the clean-up' if phase == 'cleanup' else ''})") for v in vs]
            c = f"{exc_name}@{phase}:{cmd}:{'ok' if not vs else 'VIOL'}:{o['outcome']}"
            classes[c] = classes.get(c, 0) + 1
    return results, {"runs": runs, "steps": steps, "nontrivial": nontrivial, "classes": classes}



# --------------------------------------------------------------------------- part P (pseudo positioners)
# A whole pseudo positioner P (two coupled pseudo axes a, b) in the wrappers' device set; the plan moves P as a whole and
# its axes individually, in every order of a small alphabet.  Own tiny driver: 'set' is applied to the fakes at once.

P_INIT = (1.5, -2.0)
P_OPS = {"P": ("P", (2.0, 0.5)), "a": ("a", 1.5), "b": ("b", -2.0), "a2": ("a", 0.5)}
P_WRAPPERS = ("relative", "reset", "reset_rel")
P_DEVSETS = ("parent", "axis", "parent+axis")


def _pseudo_fakes():
    import numpy as np

    class Axis:
        def __init__(self, name, pos):
            self.name, self.position, self.parent = name, float(pos), None

        def __repr__(self):
            return self.name

    class Parent:
        RealPosition = tuple  # duck marker bluesky.utils.merge_axis looks for
        parent = None
        real_positioners = ()

        def __init__(self, axes):
            self.name = "P"
            self.pseudo_positioners = tuple(axes)
            for x in axes:
                x.parent = self

        @property
        def position(self):
            return np.array([x.position for x in self.pseudo_positioners])

        def __repr__(self):
            return self.name

    a, b = Axis("a", P_INIT[0]), Axis("b", P_INIT[1])
    return Parent((a, b)), a, b


def _p_cases(tier):
    L = 2 if tier == "quick" else 3
    out = []
    for w in P_WRAPPERS:
        for ds in P_DEVSETS:
            for n in range(1, L + 1):
                for seq in itertools.product(P_OPS, repeat=n):
                    out.append(("P", f"pseudo:{w}", list(seq), [0, 0], [ds]))
    return out


def run_P(case):
    import numpy as np
    from bluesky import preprocessors as bpp
    from bluesky.utils import Msg, RequestAbort, RequestStop

    w = case[1].split(":")[1]
    seq, ds = case[2], case[4][0]

    def plan_for(P, a, b):
        objs = {"P": P, "a": a, "b": b}
        devs = {"parent": [P], "axis": [a], "parent+axis": [P, b]}[ds]

        def body():
            for op in seq:
                o, v = P_OPS[op]
                yield Msg("set", objs[o], np.array(v) if o == "P" else v, group="g")
                yield Msg("wait", None, group="g")

        if w == "relative":
            return bpp.relative_set_wrapper(body(), devs)
        if w == "reset":
            return bpp.reset_positions_wrapper(body(), devs)
        return bpp.reset_positions_wrapper(bpp.relative_set_wrapper(body(), devs), devs)

    def drive_p(throw_at=None):
        P, a, b = _pseudo_fakes()
        gen = plan_for(P, a, b)
        trace, body_sets = [], 0
        outcome, exc = "return", None
        resp = None
        pending = None
        try:
            while True:
                if pending is not None:
                    m = gen.throw(pending)
                    pending = None
                else:
                    m = gen.send(resp)
                resp = None
                k = len(trace)
                trace.append(m)
                if throw_at is not None and throw_at[0] == k:
                    pending = throw_at[1]
                    continue
                if m.command == "set":
                    v = m.args[0]
                    if m.obj is P:
                        for x, xv in zip(P.pseudo_positioners, v):
                            x.position = float(xv)
                    else:
                        m.obj.position = float(v)
        except StopIteration:
            pass
        except BaseException as e:  # noqa: BLE001
            outcome, exc = "raise", e
        return {"trace": trace, "outcome": outcome, "exc": exc, "final": (a.position, b.position), "objs": (P, a, b)}

    def judge_p(o, complete, n_body):
        """n_body: number of body set messages that were yielded."""
        vs = []
        P, a, b = o["objs"]
        covered_rel = {"parent": {P, a, b}, "axis": {P, a, b}, "parent+axis": {P, a, b}}[ds] if w in ("relative", "reset_rel") else set()
        sets = [t for t in o["trace"] if t.command == "set"]
        for i, (op, t) in enumerate(zip(seq, sets[:n_body])):
            oname, v = P_OPS[op]
            obj = {"P": P, "a": a, "b": b}[oname]
            if t.obj is not obj:
                vs.append(("wrong-device", 0, f"body move #{i} went to {t.obj!r}, plan asked for {obj!r}"))
                continue
            init = np.array(P_INIT) if obj is P else (P_INIT[0] if obj is a else P_INIT[1])
            want = (init + np.array(v)) if obj in covered_rel else np.array(v)
            if not np.allclose(np.array(t.args[0], dtype=float), np.array(want, dtype=float), atol=TOL):
                vs.append(("wrong-relative-target", 0, f"body move #{i} ({op}) commanded {t.obj!r} to {t.args[0]}, initial {init} + offset {v} = {want}"))
        if w in ("reset", "reset_rel") and complete and n_body > 0:
            fa, fb = o["final"]
            if abs(fa - P_INIT[0]) > TOL or abs(fb - P_INIT[1]) > TOL:
                vs.append(("not-at-initial-position", 0, f"after the clean-up the pseudo axes are at {(fa, fb)}, initially {P_INIT}"))
        return vs

    results = []
    clean = drive_p()
    n_sets_body = len(seq)
    if clean["outcome"] != "return":
        e = clean["exc"]
        return [(("plan-raised", 0, f"clean run raised {type(e).__name__}: {e}"), "clean", None)], {"runs": 1, "steps": len(clean["trace"]), "nontrivial": False, "classes": {"clean:raised": 1}}
    vs = judge_p(clean, True, n_sets_body)
    results += [(v, "clean", None) for v in vs]
    classes = {"clean:ok" if not vs else "clean:VIOL": 1}
    # body = up to and including the wait after the last body set
    set_idx = [i for i, m in enumerate(clean["trace"]) if m.command == "set"]
    body_end = set_idx[n_sets_body - 1] + 2
    runs, steps = 1, len(clean["trace"])
    for k in range(body_end):
        for exc_name, exc in (("failure", RuntimeError("injected")), ("stop", RequestStop()), ("abort", RequestAbort())):
            o = drive_p(throw_at=(k, exc))
            runs += 1
            steps += len(o["trace"])
            nb = sum(1 for i in set_idx[:n_sets_body] if i <= k)
            vs = judge_p(o, True, nb)
            cmd = clean["trace"][k].command
            results += [(v, exc_name, f"thrown as the response to message #{k} ({cmd})") for v in vs]
            c = f"{exc_name}@body:{cmd}:{'ok' if not vs else 'VIOL'}:{o['outcome']}"
            classes[c] = classes.get(c, 0) + 1
    objs_moved = {P_OPS[op][0] for op in seq}
    return results, {"runs": runs, "steps": steps, "nontrivial": len(objs_moved) >= 2 and "P" in objs_moved, "classes": classes}

# --------------------------------------------------------------------------- part E


def _scenario(prog, inits, a, b, kinds):
    from bsv.harness.devices import FakeDet, FakeMotor
    from bsv.harness.session import Scenario

    class ReadOnlyMotor(FakeMotor):
        """Neither Locatable nor `.position`: the wrappers must fall back to read()."""

        @property
        def position(self):
            raise AttributeError("position")

    class Scn(Scenario):
        id = "c24"
        probe = False
        horizon = 20000

        def devices(self, ctx):
            d = {}
            for i, k in enumerate(kinds):
                cls = ReadOnlyMotor if k == "read" else FakeMotor
                d[f"m{i}"] = cls(ctx, f"m{i}", initial=float(inits[i]), locatable=(k == "loc"))
            d["det"] = FakeDet(ctx, "det", stageable=False)
            self.devs = d
            return d

        def plan(self, d):
            return build(prog, [d[f"m{i}"] for i in range(len(kinds))], d["det"], a, b)

    return Scn()


def _msg_key(m):
    return (m.command, getattr(m.obj, "name", None), repr(m.args), repr(sorted(m.kwargs.items())))


def run_E(case, all_positions=True):
    from bsv.harness.session import run

    prog, inits, (a, b), kinds = case[1:5]
    nm = len(inits)
    finits = [float(x) for x in inits]
    names = [f"m{i}" for i in range(nm)]

    def observe(schedule):
        scn = _scenario(prog, inits, a, b, kinds)
        obs = run(scn, schedule)
        tg = [[args[0] for (_, dev, op, args, _) in obs.ledger if dev == n and op == "set"] for n in names]
        fin = [scn.devs[n]._pos for n in names]
        return obs, tg, fin

    results, herr = [], []
    ref, tg, fin = observe(None)
    if ref.outcome != "ok":
        return [], {"runs": 1, "steps": 0, "nontrivial": False, "classes": {}, "harness_errors": [f"reference run: {ref.outcome} {ref.harness_error}"]}
    if ref.calls[0]["outcome"] != "return":
        e = ref.calls[0]["exc"]
        return [(("plan-raised", 0, f"clean run raised {type(e).__name__}: {e}"), "clean", None)], {"runs": 1, "steps": ref.nsteps, "nontrivial": False, "classes": {"clean:raised": 1}, "harness_errors": []}
    vs, nontrivial = judge(prog, finits, a, b, tg, True, fin)
    results += [(v, "clean", None) for v in vs]
    classes = {"clean:ok" if not vs else "clean:VIOL": 1}
    _, resets = expected(prog, a, b)
    n_cleanup = sum(1 for i in range(nm) if resets[i] and tg[i])
    ledger = ref.ledger
    set_ops = [j for j, (_, dev, op, _, _) in enumerate(ledger) if op == "set" and dev in names]
    first_cleanup = set_ops[-n_cleanup] if n_cleanup else len(ledger)
    ref_keys = [_msg_key(m) for m in ref.msgs]
    set_msgs = [j for j, m in enumerate(ref.msgs) if m.command == "set"]
    nb = set_msgs[-n_cleanup] if n_cleanup else None  # index of the first clean-up message
    runs, steps = 1, ref.nsteps
    # faults on every fallible device operation
    for j in range(len(ledger)):
        _, dev, op, _, _ = ledger[j]
        if op in ("stop", "unstage"):
            continue
        phase = "body" if j < first_cleanup else "cleanup"
        for kind in ("raise", "fail"):
            if kind == "fail" and op not in ("set", "trigger"):
                continue
            obs, tg, fin = observe({"faults": {ledger[j][0]: kind}})
            runs += 1
            steps += obs.nsteps
            if obs.outcome != "ok":
                herr.append(f"fault {kind}@{j}: {obs.outcome} {obs.harness_error}")
                continue
            vs, _ = judge(prog, finits, a, b, tg, phase == "cleanup", fin)
            vs = _phase_rules(vs, phase, skip_final=(names.index(dev),) if phase == "cleanup" and dev in names else ())
            results += [(v, f"fault-{kind}", f"device operation #{j} ({dev}.{op}{' of the clean-up' if phase == 'cleanup' else ''}) made to {'raise' if kind == 'raise' else 'return a failing status'}") for v in vs]
            c = f"fault-{kind}@{phase}:{dev[:1]}.{op}:{'ok' if not vs else 'VIOL'}:{obs.calls[0]['outcome']}"
            classes[c] = classes.get(c, 0) + 1
    # abort / stop injected at every loop position of the call
    for pos in ref.positions:
        if pos[0] >= ref.nsteps or (pos[1] != 0 and not all_positions):
            continue
        for req in ("abort", "stop"):
            obs, tg, fin = observe({"injections": [(tuple(pos), (req,))]})
            runs += 1
            steps += obs.nsteps
            if obs.outcome != "ok":
                herr.append(f"{req}@{pos}: {obs.outcome} {obs.harness_error}")
                continue
            # did the plan get as far as yielding its first clean-up message before the request was delivered?
            keys = [_msg_key(m) for m in obs.msgs[: (nb + 1 if nb is not None else 0)]]
            in_cleanup = nb is not None and keys == ref_keys[: nb + 1]
            phase = "cleanup" if in_cleanup else "body"
            vs, _ = judge(prog, finits, a, b, tg, in_cleanup, fin)
            vs = _phase_rules(vs, phase)
            results += [(v, req, f"RE.{req}() injected at loop position {tuple(pos)}" + (", delivered to the plan at a clean-up message" if in_cleanup else "")) for v in vs]
            st = next((d.get("exit_status") for n, d in obs.docs if n == "stop"), "norun")
            c = f"{req}@{phase}:{'ok' if not vs else 'VIOL'}:{obs.calls[0]['outcome']}:{st}"
            classes[c] = classes.get(c, 0) + 1
    return results, {"runs": runs, "steps": steps, "nontrivial": nontrivial, "classes": classes, "harness_errors": herr}


# --------------------------------------------------------------------------- glue


def _show(case):
    if case[0] == "P":
        return f"[pseudo] {case[1]} devices={case[4][0]} plan moves {case[2]} (P=(a,b) initially {P_INIT}; P by {P_OPS['P'][1]}, a by 1.5, b by -2.0, a2: a by 0.5)"
    part, prog, inits, (a, b), kinds = case[:5]
    return f"[{'engine' if part == 'E' else 'responder'}] {prog}(a={a}, b={b}) motors " + ", ".join(f"m{i}:{k}@{x}" for i, (k, x) in enumerate(zip(kinds, inits)))


def run_case(case, only=None):
    part = case[0]
    if part == "P":
        results, info = run_P(case)
    elif part == "G":
        results, info = run_G(case)
    else:
        results, info = run_E(case, all_positions=case[5] if len(case) > 5 else True)
    out = []
    seen = set()
    for (rule, mi, detail), how, where in results:
        kind = case[4][mi] if mi < len(case[4]) else "?"
        sig = f"{rule}|{case[1]}|{'engine' if part == 'E' else ('pseudo' if part == 'P' else 'responder')}|exit={how}|motor={mi}:{kind}"
        if sig in seen:
            continue  # one representative per signature and case
        seen.add(sig)
        out.append({"rule": rule, "detail": f"{_show(case)}: {detail}" + (f" [{where}]" if where else ""), "signature": sig, "case": case})
    return out, info


def worker_init():
    from bsv.explore import responder

    responder.fast_plans()


def run_item(item):
    violations, states, nontrivial, outcomes, herr = [], set(), set(), {}, []
    n = steps = 0
    sample = None
    for case in item["cases"]:
        key = hashlib.sha256(repr(case).encode()).hexdigest()[:12]
        vs, info = run_case(case)
        for e in info.get("harness_errors", ()):
            herr.append({"case": case, "error": e})
        n += info["runs"]
        steps += info["steps"]
        states.add(key)
        if info["nontrivial"]:
            nontrivial.add(key)
        for c, k in info["classes"].items():
            o = f"{case[0]}:{case[1]}:{c}"
            outcomes[o] = outcomes.get(o, 0) + k
        violations.extend(vs)
        if sample is None and info["nontrivial"]:
            sample = {"case": _show(case), "executions": info["runs"], "classes": dict(sorted(info["classes"].items())[:6])}
    return {
        "evaluations": n,
        "transitions": max(steps, n),
        "states": states,
        "nontrivial": nontrivial,
        "outcomes": outcomes,
        "violations": violations,
        "harness_errors": herr,
        "samples": [sample] if sample else [],
        "extra": {"caps_hit": 0, "cases": len(item["cases"])},
    }


def replay(payload):
    worker_init()
    vs, _ = run_case(payload["case"])
    return [v for v in vs if v["signature"] == payload.get("signature", v["signature"])] or vs
