"""C03 - pause/resume and suspend/release do not change the recorded data."""

from bsv.oracles import engine
from bsv.oracles.docstream import runs_of
from bsv.oracles.replaymodel import plan_originated_trace
from bsv.props import _x1
from bsv.props._x1 import spec

ID = "C03"
LEVEL = "model_checking"
RULE = (
    "X1: count, scan, rel_scan, grid_scan (snaked 2x2), list_scan, adaptive_scan, tune_centroid, nested runs with run keys, two runs under run keys with interleaved bodies (scenario keys), two "
    "consecutive runs, monitor, generated checkpointed plans x {pause->resume, deferred pause->resume, suspend->release (with/without "
    "pre/post plans)} at every loop position; quick: one interruption, thorough: two (repeated interruptions) on the small scenarios "
    "and async device flavours. Differential oracle against the uninterrupted run of the same scenario: per run index and stream the "
    "same seq_num set, the same num_events, the data of the LAST event emitted for each seq_num equal to the reference, resume() "
    "raised nothing (other than RunEngineInterrupted for a further pause), and the plan-originated message trace equals the reference; "
    "non-trivial = an interruption took effect (state paused or suspended reached)"
)
ASSUMPTIONS = _x1.X1_ASSUMPTIONS + [
    "devices are deterministic: a detector reading is a pure function of the motor positions",
    "monitor streams are excluded from the data comparison (updates during a pause are legitimately not recorded: C41)",
]

MENU = [("pause",), ("dpause",), ("suspend", "none"), ("suspend", "both")]
_q = ["count2", "scan2", "relscan2", "grid22s", "listscan", "nested", "tworuns", "adaptive", "tunec"]
SPECS = {
    "quick": [spec(k, MENU, bound=1) for k in _q] + [spec("linear", MENU, bound=1, seq=s) for s in ("or-cp-crs-cp-crs-cr", "or-cp-crs-cr-or-cp-crs-cr", "or-cp-set-crs-cp-set-crs-cr")]
    + [spec("tiny", MENU, bound=2)]  # every pair of interruptions on the smallest run
    + [spec("keys", [("pause",)], bound=1, il=i) for i in range(70)],  # two runs open at once, every interleaving of their bodies
    "thorough": [spec(k, MENU, bound=1, a=a) for k in _q + ["cleanup", "baseline", "fly1", "twomotors"] for a in (0, 1)]
    + [spec(k, MENU, bound=2) for k in ("count2", "tworuns", "tiny", "nested")]
    + [spec("scan2", [("pause",), ("suspend", "none")], bound=2)]
    + [spec("keys", MENU, bound=1, il=i) for i in (0, 7, 19, 23, 34, 35, 46, 52, 61, 69)]
    + [spec("linear", MENU, bound=2, seq=s) for s in ("or-cp-crs-cp-crs-cr", "or-cp-crs-cr-or-cp-crs-cr")],
}


def _by_stream(run):
    names = {uid: d.get("name") for uid, d in run["descriptors"].items()}
    streams = {}
    for ev in run["events"]:
        streams.setdefault(names.get(ev["descriptor"]), {})[ev["seq_num"]] = ev["data"]  # last one wins
    return streams


def oracle(scn, obs, ref, schedule):
    out = _oracle(scn, obs, ref, schedule)
    if out:
        # diagnosis only: was a command executing when the interruption took effect (the known in-flight defect)?
        infl = engine.inflight_commands(obs)
        if infl:
            out = [(f"{rule}:inflight-{infl[0]}", detail) for rule, detail in out]
    return out


def _oracle(scn, obs, ref, schedule):
    from bluesky.utils import RunEngineInterrupted

    out = []
    if obs.outcome != "ok" or ref.outcome != "ok":
        return out
    if schedule.get("faults") or engine.schedule_has(schedule, engine.TERMINATORS):
        return out
    if any(r != "yes" for _k, _i, r in engine.interruptions(obs)):
        return out  # non-resumable places are C10's business
    for c in obs.calls:
        if c["name"] == "resume" and c["exc"] is not None and not isinstance(c["exc"], RunEngineInterrupted):
            out.append((f"resume-raised:{type(c['exc']).__name__}", f"resume() raised {type(c['exc']).__name__}: {str(c['exc'])[:160]}"))
        if c["name"] == "RE" and c["exc"] is not None and not isinstance(c["exc"], RunEngineInterrupted) and ref.calls[0]["exc"] is None:
            out.append((f"call-raised:{type(c['exc']).__name__}", f"RE() raised {type(c['exc']).__name__}: {str(c['exc'])[:160]} (the uninterrupted run does not)"))
    if out:
        return out
    n_main = _ndocs_main(obs)
    a = runs_of(obs.docs[:n_main])
    b = runs_of(ref.docs[: _ndocs_main(ref)])
    if len(a) != len(b):
        out.append(("different-number-of-runs", f"{len(a)} runs vs {len(b)} in the uninterrupted execution"))
        return out
    for ri, (ra, rb) in enumerate(zip(a, b)):
        sa, sb = _by_stream(ra), _by_stream(rb)
        mon = {n for n in set(sa) | set(sb) if n and (n.endswith("_monitor") or n == "mon" or n == "interruptions")}
        for name in (set(sa) | set(sb)) - mon:
            ea, eb = sa.get(name, {}), sb.get(name, {})
            if set(ea) != set(eb):
                out.append(("seqnum-set-differs", f"run#{ri} stream {name!r}: seq_nums {sorted(ea)} vs reference {sorted(eb)}"))
                continue
            for s in sorted(eb):
                if ea[s] != eb[s]:
                    out.append(("final-reading-differs", f"run#{ri} stream {name!r} seq_num {s}: {ea[s]} vs reference {eb[s]}"))
                    break
        if ra["stop"] is not None and rb["stop"] is not None:
            na = {k: v for k, v in ra["stop"].get("num_events", {}).items() if k not in mon}
            nb = {k: v for k, v in rb["stop"].get("num_events", {}).items() if k not in mon}
            if na != nb:
                out.append(("num-events-differs", f"run#{ri}: num_events {na} vs reference {nb}"))
            if ra["stop"].get("exit_status") != rb["stop"].get("exit_status"):
                out.append(("exit-status-differs", f"run#{ri}: {ra['stop'].get('exit_status')} vs reference {rb['stop'].get('exit_status')}"))
        elif (ra["stop"] is None) != (rb["stop"] is None):
            out.append(("run-closure-differs", f"run#{ri}: stop present {ra['stop'] is not None} vs reference {rb['stop'] is not None}"))
    ta = [(m.command, getattr(m.obj, "name", None)) for m in plan_originated_trace(obs, _nmsgs_main(obs))]
    tb = [(m.command, getattr(m.obj, "name", None)) for m in plan_originated_trace(ref, _nmsgs_main(ref))]
    if ta != tb:
        k = next((i for i, (x, y) in enumerate(zip(ta, tb)) if x != y), min(len(ta), len(tb)))
        out.append(("plan-trace-differs", f"plan-originated messages differ from the uninterrupted run at #{k}: {ta[k:k+3]} vs {tb[k:k+3]}"))
    return out


def _probe_start(obs):
    return next((i for i, t in enumerate(obs.timeline) if t[0] == "call" and t[1] == "probe"), len(obs.timeline))


def _ndocs_main(obs):
    return sum(1 for t in obs.timeline[: _probe_start(obs)] if t[0] == "doc")


def _nmsgs_main(obs):
    return sum(1 for t in obs.timeline[: _probe_start(obs)] if t[0] == "msg")


items, run_item, replay, describe = _x1.bind(SPECS, oracle)
