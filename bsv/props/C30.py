"""C30 - suspenders trip and release exactly on their documented conditions.

S engine: every public suspender class, every legal threshold pair / band / expected value (falsy 0 always
included), every value sequence up to the bound, driven through ``SuspenderBase.__call__(value=v)`` on the REAL
object installed on a stub RunEngine.  A boring reference (documented predicates S(v), R(v), written here from the
class docstrings; three-valued where the docstring leaves equality open) is folded alongside.
"""

import hashlib
import itertools

ID = "C30"
LEVEL = "model_checking"
RULE = (
    "S/BFS: 8 public classes (7 + the SuspendInBand alias) x all legal (suspend,resume) pairs / bands from {-1,0,1} "
    "(resume also 'not given'), SuspendWhenChanged expected in {0,1,'a',None} x allow_resume x initial signal value in "
    "{0,1,'a'}; ALL value sequences of length <= 4 (quick) / <= 6 (thorough) over {-2,-1,-0.5,0,0.5,1,2} (bool {0,1}; "
    "changed {0,1,2,'a','b'}) with engine running and sleep=0, plus all sequences <= 4 with engine not running and with "
    "sleep=3; oracle after EVERY call: tripped in fold(S->True, R->False, else unchanged), real S and R never both, one "
    "request_suspend per trip episode, release (call_later(sleep, ev.set) of the handed-out event) iff tripped->released "
    "and never where R is documented false, explicit falsy arguments honoured; non-trivial = sequence with a trip and a "
    "later step decided by the resume side (release, or held in the hysteresis gap / resume refused)"
)
ASSUMPTIONS = [
    "the stub loop runs call_soon_threadsafe callbacks immediately (the loop 'answers in time', DESIGN 6)",
    "documented predicates: Floor S=v<suspend R=v>resume; Ceil S=v>suspend R=v<resume (class summary; its parameter text "
    "is a copy of Floor's); equality on the resume threshold and values on a band edge are don't-cares",
    "constructor rejection of illegal pairs is recorded as an outcome class, not judged",
    "remove()/get_futures() are not part of the histories",
]

NUM = (-2, -1, -0.5, 0, 0.5, 1, 2)
BOOL = (0, 1)
CHG = (0, 1, 2, "a", "b")
TH = (-1, 0, 1)
MAXV = 2  # violation dicts kept per signature per item


def describe(tier):
    L = 4 if tier == "quick" else 6
    return {
        "bounds": {
            "sequence_length": L,
            "side_spaces_length": 4,
            "thresholds": list(TH),
            "alphabet": list(NUM),
            "expected_values": [0, 1, "a", None],
        },
        "dont_cares": ["v == resume threshold", "v on a band edge", "illegal constructor pairs", "request_suspend count while engine not running"],
    }


# ---------------------------------------------------------------- documented predicates (three-valued)


def doc_sr(cls, cfg, v):
    """(S, R) per the class docstrings; None = the docstring leaves it open."""
    if cls == "SuspendBoolHigh":
        return bool(v), not bool(v)
    if cls == "SuspendBoolLow":
        return not bool(v), bool(v)
    if cls == "SuspendFloor":
        s, r = cfg["suspend"], cfg["resume"]
        r = s if r is None else r
        return v < s, (None if v == r else v > r)
    if cls == "SuspendCeil":
        s, r = cfg["suspend"], cfg["resume"]
        r = s if r is None else r
        return v > s, (None if v == r else v < r)
    if cls in ("SuspendWhenOutsideBand", "SuspendInBand"):
        b, t = cfg["bot"], cfg["top"]
        if v == b or v == t:
            return None, None
        inside = b < v < t
        return (not inside), inside
    if cls == "SuspendOutBand":
        b, t = cfg["bot"], cfg["top"]
        if v == b or v == t:
            return None, None
        inside = b < v < t
        return inside, (not inside)
    if cls == "SuspendWhenChanged":
        e = cfg["expected"] if cfg["expected"] is not None else cfg["initial"]
        return v != e, bool(cfg["allow_resume"]) and v == e
    raise KeyError(cls)


def allowed_next(t, S, R):
    if S is True:
        return (True,)
    if R is True:
        rb = (False,)
    elif R is False:
        rb = (t,)
    else:
        rb = (t, False)
    if S is False:
        return rb
    return (True,) + rb


def alphabet(cls):
    if cls.startswith("SuspendBool"):
        return BOOL
    if cls == "SuspendWhenChanged":
        return CHG
    return NUM


def value_class(cls, cfg, v):
    """Shape of the failing value relative to the configuration (for signatures)."""
    if cls.startswith("SuspendBool"):
        return f"v={bool(v)}"
    if cls in ("SuspendFloor", "SuspendCeil"):
        s, r = cfg["suspend"], cfg["resume"]
        r = s if r is None else r
        lo, hi = min(s, r), max(s, r)
        if v < lo:
            rel = "v<lo"
        elif v == lo:
            rel = "v==lo"
        elif v < hi:
            rel = "lo<v<hi"
        elif v == hi:
            rel = "v==hi"
        else:
            rel = "v>hi"
        return rel
    if cls == "SuspendWhenChanged":
        e = cfg["expected"] if cfg["expected"] is not None else cfg["initial"]
        return f"v_eq_expected={v == e}"
    b, t = cfg["bot"], cfg["top"]
    if v < b:
        return "v<bot"
    if v == b:
        return "v==bot"
    if v < t:
        return "inside"
    if v == t:
        return "v==top"
    return "v>top"


def cfg_shape(cls, cfg):
    if cls in ("SuspendFloor", "SuspendCeil"):
        return f"resume_given={cfg['resume'] is not None},hysteresis={cfg['resume'] not in (None, cfg['suspend'])},suspend_falsy={cfg['suspend'] == 0},resume_falsy={cfg['resume'] == 0}"
    if cls == "SuspendWhenChanged":
        e = cfg["expected"]
        if e is not None and not e:
            rel = "same" if cfg["initial"] == e else "differs"
        else:
            rel = "n/a"
        return f"expected={e!r},falsy_expected_vs_initial={rel},allow_resume={cfg['allow_resume']}"
    if cls.startswith("SuspendBool"):
        return "-"
    return f"bot_falsy={cfg['bot'] == 0},top_falsy={cfg['top'] == 0}"


# ---------------------------------------------------------------- configurations


def configs():
    out = []
    for cls in ("SuspendBoolHigh", "SuspendBoolLow"):
        out.append({"cls": cls, "cfg": {}, "legal": True})
    for cls in ("SuspendFloor", "SuspendCeil"):
        for s in TH:
            for r in (None,) + TH:
                if r is None:
                    legal = True
                elif cls == "SuspendFloor":
                    legal = r >= s
                else:
                    legal = r <= s
                out.append({"cls": cls, "cfg": {"suspend": s, "resume": r}, "legal": legal})
    for cls in ("SuspendWhenOutsideBand", "SuspendInBand", "SuspendOutBand"):
        for b in TH:
            for t in TH:
                out.append({"cls": cls, "cfg": {"bot": b, "top": t}, "legal": b < t})
    for e in (0, 1, "a", None):
        for ar in (False, True):
            for init in (0, 1, "a"):
                out.append({"cls": "SuspendWhenChanged", "cfg": {"expected": e, "allow_resume": ar, "initial": init}, "legal": True})
    return out


def items(tier, seed):
    L = 4 if tier == "quick" else 6
    out = []
    for c in configs():
        if not c["legal"]:
            out.append(dict(c, mode="ctor"))
            continue
        alpha = alphabet(c["cls"])
        # main space: engine running, sleep 0; partitioned by the first value
        for first in range(len(alpha)):
            out.append(dict(c, mode="seq", running=True, sleep=0, L=L, first=first))
        # side spaces at length <= 4
        out.append(dict(c, mode="seq", running=False, sleep=0, L=min(L, 4), first=None))
        out.append(dict(c, mode="seq", running=True, sleep=3, L=min(L, 4), first=None))
    return out


# ---------------------------------------------------------------- stubs


class _Handle:
    def cancel(self):
        pass


class _Loop:
    def __init__(self):
        self.later = []  # (delay, callback)

    def call_soon_threadsafe(self, cb, *args):
        cb(*args)
        return _Handle()

    def call_later(self, delay, cb, *args):
        self.later.append((delay, cb))
        cb(*args)
        return _Handle()


class _State:
    def __init__(self, running):
        self.is_running = running


class _RE:
    def __init__(self, running):
        self._loop = _Loop()
        self.state = _State(running)
        self.calls = []  # (fut, kwargs)

    def request_suspend(self, fut, **kwargs):
        self.calls.append((fut, kwargs))


class _Sig:
    def __init__(self, value):
        self.value = value
        self.name = "sig"
        self.subs = []

    def get(self):
        return self.value

    def subscribe(self, cb, event_type=None, run=True):
        self.subs.append(cb)  # not run: histories start from the freshly installed state

    def clear_sub(self, cb):
        pass


_PRE = ["pre"]
_POST = ["post"]


def build(cls, cfg, running, sleep):
    from bluesky import suspenders as S

    klass = getattr(S, cls)
    kw = {"sleep": sleep, "pre_plan": _PRE, "post_plan": _POST}
    if cls.startswith("SuspendBool"):
        sig = _Sig(0)
        s = klass(sig, **kw)
    elif cls in ("SuspendFloor", "SuspendCeil"):
        sig = _Sig(0)
        if cfg["resume"] is None:
            s = klass(sig, cfg["suspend"], **kw)
        else:
            s = klass(sig, cfg["suspend"], resume_thresh=cfg["resume"], **kw)
    elif cls == "SuspendWhenChanged":
        sig = _Sig(cfg["initial"])
        if cfg["expected"] is None:
            s = klass(sig, allow_resume=cfg["allow_resume"], **kw)
        else:
            s = klass(sig, expected_value=cfg["expected"], allow_resume=cfg["allow_resume"], **kw)
    else:
        sig = _Sig(0)
        s = klass(sig, cfg["bot"], cfg["top"], **kw)
    re = _RE(running)
    s.install(re)
    return s, re


# ---------------------------------------------------------------- one sequence on the real object


def run_sequence(cls, cfg, running, sleep, seq, table=None):
    """Returns (violation tuple or None, observation list).  Stops at the first divergence.

    In the sleep != 0 space the updates are delivered the way an ophyd signal delivers them (old_value = the previously
    delivered value, at first the value the signal was built with; obj, sub_type): the documented conditions are about
    `value` alone, so an update that repeats the old value is evaluated like any other."""
    import asyncio

    s, re = build(cls, cfg, running, sleep)
    ophyd_style = sleep != 0
    prev = s._sig.value if hasattr(s, "_sig") else None
    loop = re._loop
    t = False
    pending = None  # the asyncio.Event handed to request_suspend for the current episode (running mode)
    nreq = nrel = 0
    obs = []
    for i, v in enumerate(seq):
        S_, R_ = table[v] if table is not None else doc_sr(cls, cfg, v)
        if ophyd_style:
            s(value=v, old_value=prev, timestamp=0.0, obj=s._sig, sub_type="value")
            prev = v
        else:
            s(value=v, timestamp=0.0)
        t2 = s.tripped
        req = len(re.calls) - nreq
        rel = len(loop.later) - nrel
        nreq, nrel = len(re.calls), len(loop.later)
        obs.append((t2, req, rel, s._ev is not None))

        def bad(rule, detail):
            return (rule, i, f"{cls}{cfg} running={running} sleep={sleep} seq={list(seq)} step {i} value={v!r}: {detail}")

        if t2 not in allowed_next(t, S_, R_):
            return bad("tripped-mismatch", f"documented S={S_} R={R_}, was tripped={t}, now tripped={t2}"), obs
        # release side
        want_rel = 1 if (t and not t2) else 0
        if rel != want_rel:
            return bad("release-count", f"tripped {t}->{t2} but {rel} release(s) scheduled"), obs
        if rel and R_ is False:
            return bad("release-without-resume-condition", "release scheduled although the documented resume condition is false"), obs
        if rel:
            delay, cb = loop.later[-1]
            ev = getattr(cb, "__self__", None)
            if delay != sleep:
                return bad("release-delay", f"call_later delay {delay!r}, sleep={sleep!r}"), obs
            if not isinstance(ev, asyncio.Event) or getattr(cb, "__name__", "") != "set":
                return bad("release-target", f"call_later callback is {cb!r}, not Event.set"), obs
            if running and ev is not pending:
                return bad("release-target", "released an event other than the one handed to request_suspend"), obs
            pending = None
        # request side
        if running:
            want_req = 1 if (t2 and not t) else 0
            if req != want_req:
                return bad("request-count", f"tripped {t}->{t2} but {req} request_suspend call(s)"), obs
            if req:
                fut, kw = re.calls[-1]
                ev = getattr(fut, "__self__", None)
                if not isinstance(ev, asyncio.Event) or getattr(fut, "__name__", "") != "wait":
                    return bad("request-args", f"request_suspend got {fut!r}, not Event.wait"), obs
                if ev.is_set():
                    return bad("request-args", "event handed to request_suspend is already set"), obs
                if kw.get("pre_plan") is not _PRE or kw.get("post_plan") is not _POST:
                    return bad("request-args", f"pre/post plan not passed through: {sorted(kw)}"), obs
                pending = ev
            if pending is not None and pending.is_set():
                return bad("event-set-early", "pending event set without a release"), obs
        else:
            if req > (1 if (t2 and not t) else 0):
                return bad("request-count", f"{req} request_suspend call(s) while engine not running"), obs
        t = t2
    return None, obs


def _h(x):
    return hashlib.sha256(repr(x).encode()).hexdigest()[:12]


def _cfgkey(cls, cfg):
    return f"{cls}|" + ",".join(f"{k}={cfg[k]!r}" for k in sorted(cfg))


def check_config(cls, cfg):
    """Per-configuration checks: constructor honours explicit arguments; real S and R never both."""
    out = []
    s, re = build(cls, cfg, True, 0)
    shape = cfg_shape(cls, cfg)
    if cls == "SuspendWhenChanged":
        want = cfg["expected"] if cfg["expected"] is not None else cfg["initial"]
        got = s.expected_value
        if not (got == want and type(got) is type(want)):
            out.append(
                {
                    "rule": "explicit-argument-ignored",
                    "detail": f"SuspendWhenChanged(expected_value={cfg['expected']!r}) on a signal whose value is {cfg['initial']!r}: "
                    f".expected_value is {got!r}, documented {want!r}",
                    "signature": f"explicit-argument-ignored|{cls}|{shape}",
                    "case": {"cls": cls, "cfg": cfg, "mode": "config"},
                }
            )
    for v in alphabet(cls):
        if s._should_suspend(v) and s._should_resume(v):
            out.append(
                {
                    "rule": "suspend-and-resume-both-true",
                    "detail": f"{cls}{cfg}: value {v!r} satisfies both conditions",
                    "signature": f"suspend-and-resume-both-true|{cls}|{shape}|{value_class(cls, cfg, v)}",
                    "case": {"cls": cls, "cfg": cfg, "mode": "config"},
                }
            )
    return out


def run_item(item):
    cls, cfg = item["cls"], item["cfg"]
    ck = _cfgkey(cls, cfg)
    res = {"evaluations": 0, "transitions": 0, "states": set(), "nontrivial": set(), "outcomes": {}, "violations": [], "samples": [], "extra": {"caps_hit": 0}}
    oc = res["outcomes"]

    def count(k, n=1):
        oc[k] = oc.get(k, 0) + n

    if item["mode"] == "ctor":
        res["evaluations"] = res["transitions"] = 1
        try:
            build(cls, cfg, True, 0)
            count("illegal-pair-accepted")
        except ValueError:
            count("illegal-pair-rejected")
        res["states"].add(_h(("ctor", ck)))
        return res

    running, sleep, L, first = item["running"], item["sleep"], item["L"], item["first"]
    alpha = alphabet(cls)
    table = {v: doc_sr(cls, cfg, v) for v in alpha}
    persig = {}
    if first in (None, 0):
        for v in check_config(cls, cfg):
            res["violations"].append(v)
        res["evaluations"] += 1
        res["transitions"] += 1
    heads = [alpha[first]] if first is not None else list(alpha)
    # every sequence of length <= L is a prefix of a length-L sequence; the oracle is evaluated after every call
    for head in heads:
        for tail in itertools.product(alpha, repeat=L - 1):
            seq = (head,) + tail
            bad, obs = run_sequence(cls, cfg, running, sleep, seq, table)
            res["evaluations"] += 1
            res["transitions"] += len(obs)
            classes = tuple(table[v] for v in seq[: len(obs)])
            t = False
            tripped_at = None
            nontriv = False
            for k, (t2, _req, _rel, pend) in enumerate(obs):
                res["states"].add((t2, pend))
                if t2 and tripped_at is None:
                    tripped_at = k
                elif tripped_at is not None and k > tripped_at and t and classes[k][0] is not True:
                    nontriv = True  # while tripped, a value not demanding suspension: the resume side decided
                t = t2
            if bad is None:
                count(f"ok:trips={sum(1 for o in obs if o[1])},releases={sum(o[2] for o in obs)},end_tripped={obs[-1][0]}")
                if nontriv:
                    res["nontrivial"].add(_h((ck, running, sleep, classes)))
            else:
                rule, step, detail = bad
                v = seq[step]
                sig = f"{rule}|{cls}|{cfg_shape(cls, cfg)}|{value_class(cls, cfg, v)}|running={running}"
                count(f"violation:{rule}")
                persig[sig] = persig.get(sig, 0) + 1
                if persig[sig] <= MAXV:
                    res["violations"].append(
                        {
                            "rule": rule,
                            "detail": detail,
                            "signature": sig,
                            "case": {"cls": cls, "cfg": cfg, "mode": "seq", "running": running, "sleep": sleep, "seq": list(seq[: step + 1])},
                        }
                    )
            if len(res["samples"]) < 1 and tripped_at is not None:
                res["samples"].append({"class": cls, "cfg": cfg, "values": list(seq), "observed(tripped,requests,releases,event_pending)": [list(o) for o in obs]})
    # distinct object states reached: (configuration, tripped, event pending)
    raw = res["states"]
    res["states"] = {_h((ck, running, sleep, a, b)) for a, b in raw}
    res["extra"]["suppressed_duplicate_violations"] = sum(max(0, n - MAXV) for n in persig.values())
    return res


def replay(payload):
    c = payload["case"]
    cls, cfg = c["cls"], c["cfg"]
    if c["mode"] == "config":
        return [v for v in check_config(cls, cfg) if v["signature"] == payload.get("signature", v["signature"])]
    bad, _obs = run_sequence(cls, cfg, c["running"], c["sleep"], tuple(c["seq"]))
    if bad is None:
        return []
    rule, step, detail = bad
    return [{"rule": rule, "detail": detail, "signature": payload.get("signature", rule)}]
