"""C10 - interrupting a non-resumable section aborts cleanly."""

from bsv.oracles import engine
from bsv.oracles.docstream import runs_of
from bsv.props import _x1
from bsv.props._x1 import spec

ID = "C10"
LEVEL = "model_checking"
RULE = (
    "X1: plans with clear_checkpoint at every position k=0..4 of a 5-message body wrapped in run_wrapper and try/finally "
    "(scenario clearcp), pause / deferred pause / suspension (with and without pre/post plans) at every loop position "
    "(before the clear_checkpoint as control); thorough: two requests, async devices. Oracle for every interruption that takes "
    "effect after clear_checkpoint and before the next checkpoint: engine never 'paused' afterwards in that call, the plan's "
    "finally-message ran, every run open at that moment got a RunStop, the call raised"
    "RunEngineInterrupted and ended idle, and no message executed before the interruption is executed again; "
    "non-trivial = an interruption took effect inside the non-resumable section"
)
ASSUMPTIONS = _x1.X1_ASSUMPTIONS + ["whether a checkpoint after clear_checkpoint re-arms resumability is a don't-care"]

MENU = [("pause",), ("dpause",), ("suspend", "none"), ("suspend", "both")]
SPECS = {
    "quick": [spec("clearcp", MENU, bound=1, k=k) for k in range(5)] + [spec("lifecycle", MENU, bound=1), spec("clearcp2", MENU, bound=1), spec("clearcp", MENU, bound=2, k=2)],
    "thorough": [spec("clearcp", MENU, bound=2, k=k) for k in range(5)]
    + [spec("clearcp", MENU, bound=1, k=k, a=1) for k in range(5)]
    + [spec("lifecycle", MENU, bound=2), spec("clearcp2", MENU, bound=2), spec("clearcp2", MENU, bound=1, a=1)],
}


def oracle(scn, obs, ref, schedule):
    from bluesky.utils import RunEngineInterrupted

    out = []
    if obs.outcome != "ok":
        return out
    spans = engine.call_spans(obs)
    tl = obs.timeline
    for kind, idx, res in engine.interruptions(obs):
        if res != "no" or kind == "suspend-late":
            continue  # (a request that lands when the plan is already over interrupts nothing)
        if any(t[0] == "plan_end" and t[1] == "returned" for t in tl[:idx]):
            continue  # likewise: the plan generator had already returned when the request took effect
        # the call this interruption belongs to
        span = next(((c, s, r) for c, s, r in spans if s is not None and s <= idx and (r is None or idx < r)), None)
        if span is None:
            continue
        c, s, r = span
        after = tl[idx : r if r is not None else len(tl)]
        if any(t[0] == "state" and t[1] == "paused" for t in after):
            out.append(("paused-in-nonresumable-section", f"{kind} after clear_checkpoint left the engine paused"))
        if c["state_after"] != "idle":
            out.append(("not-idle-after-nonresumable-interruption", f"{c['name']}() ended with state {c['state_after']}"))
        if not isinstance(c["exc"], RunEngineInterrupted):
            out.append(("interruption-not-reported", f"{c['name']}() ended with {type(c['exc']).__name__} instead of RunEngineInterrupted"))
        # cleanup code of the plan ran: the plan's finally message appears after the interruption
        msgs_after = [obs.msgs[t[1]] for t in after if t[0] == "msg"]
        if scn.id in ("clearcp", "lifecycle") and not any(m.command == "null" and m.args == ("CLEANUP",) for m in msgs_after):
            out.append(("cleanup-not-run", f"{kind} in non-resumable section: plan's finally message never executed"))
        # nothing replayed
        before_ids = {id(obs.msgs[t[1]]) for t in tl[:idx] if t[0] == "msg"}
        rep = [m.command for m in msgs_after if id(m) in before_ids]
        if rep:
            out.append(("replayed-after-nonresumable-interruption", f"messages executed again: {rep[:5]}"))
        # runs open at the interruption are closed as aborted
        ndocs_at = sum(1 for t in tl[:idx] if t[0] == "doc")
        open_then = {r_["start"]["uid"] for r_ in runs_of(obs.docs[:ndocs_at]) if r_["stop"] is None}
        for r_ in runs_of(obs.docs[: c["ndocs_drained"]]):
            if r_["start"]["uid"] in open_then:
                if r_["stop"] is None:
                    out.append(("run-left-open", f"run {r_['start']['uid'][:8]} open at the interruption has no RunStop"))
                # the exit_status of a run that the plan's own run_wrapper closes is not part of this statement
                # (run_wrapper maps the FailedPause it receives to 'fail'); engine-closed runs are C02's business
    return out


def _nt(obs):
    return any(res == "no" for _k, _i, res in engine.interruptions(obs))


items, run_item, replay, describe = _x1.bind(SPECS, oracle)
