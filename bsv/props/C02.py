"""C02 - exit status, reason and raised exception reflect how the run ended."""

from bsv.oracles import engine
from bsv.props import _x1
from bsv.props._x1 import spec

ID = "C02"
LEVEL = "model_checking"
RULE = (
    "X1: corpus scenarios whose runs are closed by the plan (run_wrapper) and scenarios whose run is left open for the engine (bare, "
    "barecp), x {pause, deferred pause, abort, stop, halt, suspend} at every loop position, device faults (raise / failed status) at "
    "every ledger op, x every post-pause decision; thorough: two deviations and call_returns_result=True. EXIT-MAP per caller call, "
    "computed from the schedule and from what escaped the call, never from engine internals: runs the ENGINE closes say 'success' after "
    "normal completion or an accepted stop, 'abort' after an accepted abort/halt or a pause/suspension after clear_checkpoint, 'fail' "
    "with reason == str(exception) when the call raised a non-interruption exception; runs the PLAN closes after an accepted "
    "abort/stop say abort/success; the call raises RunEngineInterrupted iff an interruption was accepted and the plan did not fail; a "
    "call that raises anything else needs a cause (an injected fault or a plan that fails by itself): requests alone never do that; a raised device error is the very object the device raised, a failed status arrives as FailedStatus with __cause__ the status' "
    "exception; non-trivial = behaviour digest differs from the reference run"
)
ASSUMPTIONS = _x1.X1_ASSUMPTIONS + [
    "when several terminating causes are in one schedule any of their mappings is accepted, but RunStop and the raised exception must agree with each other",
    "a run that the plan's own run_wrapper closes after a FailedPause is outside the statement (run_wrapper maps it to 'fail')",
]

F = ("raise", "fail")
_q = ["bare", "barecp", "count2", "scan2", "nested", "cleanup", "tworuns"]
SPECS = {
    "quick": [spec(k, bound=1, faults=F) for k in _q] + [spec("bare", bound=1, faults=F, a=1)] + [spec("tiny", bound=2, faults=F)],
    "thorough": [spec(k, bound=1, faults=F, a=a, rr=rr) for k in _q + ["fly1", "monitor1", "clearcp", "grid22s"] for a in (0, 1) for rr in (0, 1)]
    + [spec(k, bound=2, faults=F) for k in ("bare", "barecp", "tiny")],
}


def _stops_by_origin(obs, lo, hi):
    """RunStop documents emitted in timeline[lo:hi], split into (closed by a close_run message, closed by the engine)."""
    plan_closed, engine_closed = [], []
    pending_close = 0
    for t in obs.timeline[lo:hi]:
        if t[0] == "msg":
            pending_close = 1 if t[2] == "close_run" else 0
        elif t[0] == "doc" and t[2] == "stop":
            doc = obs.docs[t[1]][1]
            if pending_close:
                plan_closed.append(doc)
                pending_close = 0
            else:
                engine_closed.append(doc)
    return plan_closed, engine_closed


def oracle(scn, obs, ref, schedule):
    from bluesky._vendor.super_state_machine.errors import TransitionError
    from bluesky.utils import FailedStatus, RunEngineInterrupted

    from bsv.harness.devices import DeviceError

    out = []
    if obs.outcome != "ok":
        return out
    spans = engine.call_spans(obs)
    inter = engine.interruptions(obs)
    tl = obs.timeline
    for k, (c, s, r) in enumerate(spans):
        if c["name"] == "probe" or r is None or c.get("state_drained") != "idle":
            continue
        # the whole chain RE -> (resume)* -> this call ended here; causes accumulated over the chain
        chain_start = s
        for kk in range(k - 1, -1, -1):
            if spans[kk][0].get("state_drained") == "idle":
                break
            chain_start = spans[kk][1]
        seg = tl[chain_start:r]
        accepted = []
        issued = [t[1].split(":")[0] for t in seg if t[0] == "inject" and t[1].split(":")[0] in engine.TERMINATORS]
        for t in seg:
            if t[0] == "state" and t[1] in ("aborting", "stopping", "halting"):
                accepted.append(t[1])
        # a request accepted after the plan generator has already returned ends nothing: normal completion stands
        i_end = next((i for i in range(chain_start, r) if tl[i][0] == "plan_end" and tl[i][1] == "returned"), r)
        late_accept = any(t[0] == "state" and t[1] in ("aborting", "stopping", "halting") for t in tl[i_end:r])
        nonres = [x for x in inter if chain_start <= x[1] < min(r, i_end) and x[2] == "no" and x[0] != "suspend-late"]
        amb = [x for x in inter if chain_start <= x[1] < r and x[2] == "ambiguous"]
        e = c["exc"]
        failed = e is not None and not isinstance(e, RunEngineInterrupted)
        # ---- a failure needs a cause: with no injected fault and a plan that does not fail by itself, interruptions
        #      (resumable or not) end the call with RunEngineInterrupted or normally, never with another exception
        if failed and c["name"] in ("RE", "resume") and not schedule.get("faults") and scn.params.get("cbfail") is None:
            ref_ok = all(rc["exc"] is None for rc in ref.calls if rc["name"] != "probe")
            halted_in_cleanup = "halting" in accepted and isinstance(e, RuntimeError) and "ignored GeneratorExit" in str(e)
            # (a plan that yields clean-up messages when PlanHalt - a GeneratorExit - is thrown in fails by Python's own rule)
            if ref_ok and not isinstance(e, TransitionError) and not halted_in_cleanup:
                from bsv.props.C04 import _inflight_uncacheable

                lost = _inflight_uncacheable(obs)
                i_acc = next((j for j in range(chain_start, r) if tl[j][0] == "state" and tl[j][1] in ("aborting", "stopping", "halting")), None)
                rewound = i_acc is not None and any(t[0] == "state" and t[1] in ("pausing", "suspending") for t in tl[chain_start:i_acc])
                if lost:
                    kind = f"inflight-uncacheable-{lost}"
                elif nonres:
                    kind = "non-resumable"
                elif accepted:
                    kind = "terminated-after-rewind" if rewound else "terminated"
                else:
                    kind = "resumable"
                out.append((f"failure-without-fault:{type(e).__name__}:{kind}", f"{c['name']}() raised {type(e).__name__}({str(e)[:80]!r}) although nothing failed: requests only ({[t[1] for t in seg if t[0] == 'inject']})"))
        # ---- expected exit statuses for engine-closed runs
        allowed = set()
        if failed:
            allowed.add("fail")
        else:
            if "stopping" in accepted:
                allowed.add("success")
            if "halting" in accepted:
                allowed.add("abort")
            if "aborting" in accepted:
                allowed.add("abort")  # RE.abort(), or the engine's own FailedPause route
            if not accepted:
                allowed.add("success")
            if amb:
                allowed |= {"abort", "success"}
            if late_accept:
                allowed.add("success")
            # abort()/stop()/halt() that were ISSUED in this chain but refused (TransitionError to their caller, e.g. an
            # abort while the engine is already stopping) still name a cause under the statement: either mapping is accepted
            for kind in issued:
                allowed.add({"abort": "abort", "halt": "abort", "stop": "success"}[kind])
            # likewise a pause / suspension REQUESTED in a non-resumable section of this chain (even when another
            # request was accepted first and the state machine refused the move to 'aborting') names the cause 'abort'
            for j in range(chain_start, r):
                t = tl[j]
                if (t[0] == "inject" and t[1].split(":")[0] in ("pause", "suspend")) or t[0] == "suspend_req":
                    # (the request takes effect a few callbacks after it was issued: judged by the end of the chain)
                    if engine.resumability_at(obs, j) != "yes" or engine.resumability_at(obs, r) != "yes":
                        allowed.add("abort")
        plan_closed, engine_closed = _stops_by_origin(obs, chain_start, r)
        for doc in engine_closed:
            st = doc.get("exit_status")
            if st not in allowed:
                out.append((f"engine-closed-run-status:{st}-expected-{'/'.join(sorted(allowed))}", f"{c['name']}(): engine-closed RunStop says {st!r}; accepted requests {accepted}, raised {type(e).__name__}"))
            if failed and st == "fail" and doc.get("reason") != str(e):
                out.append(("fail-reason-mismatch", f"RunStop reason {doc.get('reason')!r} != str(exception) {str(e)!r}"))
        # ---- plan-closed runs after an accepted abort / stop (run_wrapper maps the control exception)
        if not failed and not nonres and not amb and len(set(accepted)) == 1 and accepted[0] in ("aborting", "stopping"):
            want = "abort" if accepted[0] == "aborting" else "success"
            i_acc = next(i for i in range(chain_start, r) if tl[i][0] == "state" and tl[i][1] == accepted[0])
            later_plan_closed, _ = _stops_by_origin(obs, i_acc, r)
            for doc in later_plan_closed:
                if doc.get("exit_status") != want:
                    out.append((f"plan-closed-run-status:{doc.get('exit_status')}-expected-{want}", f"run closed by the plan after an accepted {accepted[0][:-3]} says {doc.get('exit_status')!r}"))
        # ---- what the call raised
        if c["name"] in ("RE", "resume"):
            interrupted = bool(accepted) or bool(nonres)
            maybe_interrupted = interrupted or bool(issued)
            if isinstance(e, RunEngineInterrupted) and c["state_after"] == "idle" and not maybe_interrupted and not amb:
                if not any(x[0] == "suspend-late" for x in inter):
                    out.append(("interrupted-without-cause", f"{c['name']}() raised RunEngineInterrupted, engine idle, but no abort/stop/halt/non-resumable interruption was accepted"))
            if e is None and interrupted:
                out.append(("interruption-not-reported", f"{c['name']}() returned normally although {accepted or 'a non-resumable interruption'} was accepted"))
        if failed:
            raised = obs.extra.get("raised", [])
            if isinstance(e, DeviceError) and not any(e is x for x in raised):
                out.append(("raised-not-the-device-exception", f"{c['name']}() raised a DeviceError that is not the object the device raised"))
            if isinstance(e, FailedStatus):
                cause = e.__cause__
                if cause is None or not any(cause is x for x in obs.extra.get("status_excs", [])):
                    out.append(("failedstatus-not-chained", f"FailedStatus.__cause__ is {cause!r}, not the failed status' exception"))
        # ---- RunEngineResult
        if c["name"] == "RE" and e is None and scn.params.get("rr"):
            res = c["value"]
            uids = [d["uid"] for n, d in obs.docs[: c["ndocs"]] if n == "start"]
            if getattr(res, "exit_status", None) != "success" or getattr(res, "interrupted", None) is not False or list(getattr(res, "run_start_uids", ())) != uids:
                out.append(("run-engine-result-mismatch", f"RunEngineResult {res!r} after a normal completion with runs {uids}"))
    return out


items, run_item, replay, describe = _x1.bind(SPECS, oracle)
