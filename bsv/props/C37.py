"""C37 - printf-style filename templates of the multi-file consolidators expand like printf.

S engine over the inputs of a pure function: every conversion spec ``%[flags][width][.prec]d`` of the
stated grammar, embedded in filename text, through the real ``TIFFConsolidator`` (thorough: also JPEG);
``get_datum_uri(i)`` and the asset uris produced by ``consume_stream_datum`` against Python's ``%``
operator, which implements C's ``d`` conversion.
"""

import hashlib
import itertools

ID = "C37"
LEVEL = "model_checking"
RULE = (
    "S: every spec %[flags][width][.prec]d with flags = every ordering of every subset of {-,+,space,0,#} (326), "
    "width in {none,1..10,12}, precision in {none} u {p: max(width,1) <= p <= 12} (100 width/precision pairs), in 2 (quick) / 4 "
    "(thorough) filename contexts (plain text, '%s%s_' + filename parameter, ...), frame indices {0,1,9,10,99,100,12345} "
    "(thorough: 0..130 and 6 larger); oracle: get_datum_uri(i) == uri + (template % args) and the data_uris appended by "
    "consume_stream_datum for indices 0..2 equal the same strings; non-trivial = the expected name differs from plain str(i) "
    "substitution for at least one index (the flags/width/precision take effect; measured)"
)
ASSUMPTIONS = [
    "Python's % operator is C printf for the d conversion (precision 0 is excluded: C prints nothing for value 0, Python prints '0')",
    "frame indices are non-negative",
    "surrounding filename text contains no '{', '}' or second integer conversion",
    "the first %s stands for the 'filename' parameter and the second for nothing (the directory lives in the uri), as in the AD_TIFF convention",
]

FLAGS = "-+ 0#"
WIDTHS = (None, 1, 2, 3, 4, 5, 6, 7, 8, 9, 10, 12)
QUICK_IDX = (0, 1, 9, 10, 99, 100, 12345)
THOROUGH_IDX = tuple(range(0, 131)) + (999, 1000, 12345, 99999, 10**6, 10**12)
URI = "file://localhost/data/dir/"

# (prefix, suffix, filename parameter or None, mimetype)
TIFF = "multipart/related;type=image/tiff"
JPEG = "multipart/related;type=image/jpeg"
CONTEXTS = [
    ("img_", ".tif", None, TIFF),
    ("%s%s_", ".tiff", "scan a", TIFF),
    ("run12_", "_3.tiff", None, TIFF),
    ("%s%s", ".jpg", "f.x", JPEG),
]


def describe(tier):
    return {
        "bounds": {
            "flag_orderings": 326,
            "width_precision_pairs": len(_wp_pairs()),
            "contexts": 2 if tier == "quick" else 4,
            "indices": len(QUICK_IDX if tier == "quick" else THOROUGH_IDX),
        },
        "dont_care": ["precision 0", "negative indices", "braces in the filename text"],
    }


def _flag_orderings():
    out = []
    for k in range(len(FLAGS) + 1):
        for perm in itertools.permutations(FLAGS, k):
            out.append("".join(perm))
    return out


def _wp_pairs():
    out = []
    for w in WIDTHS:
        out.append((w, None))
        for p in range(max(w or 1, 1), 13):
            out.append((w, p))
    return out


def items(tier, seed):
    import bluesky.consolidators  # noqa: F401 - imported before the pool forks so that workers inherit it (3.5 s per import)

    import gc

    gc.freeze()  # keep the forked workers' collector off the parent's heap (fewer copy-on-write faults)
    return [{"tier": tier, "width": w, "prec": p} for (w, p) in _wp_pairs()]


def spec(flags, width, prec):
    return "%" + flags + ("" if width is None else str(width)) + ("" if prec is None else "." + str(prec)) + "d"


def expected(template, filename, i):
    """C printf of the template.  Written with Python's % operator only."""
    n_s = template.count("%s")
    if n_s == 0:
        return URI + (template % (i,))
    # AD convention: template % (path, filename, index); the path is carried by the uri, so it is empty here
    assert n_s == 2
    return URI + (template % ("", filename, i))


def _cls(v):
    return "none" if v is None else ("1d" if v < 10 else "2d")


def _canon(flags):
    return "".join(f for f in FLAGS if f in flags) or "none"


def _diff_class(got, exp, head, tail):
    """How the produced number field differs from printf's (part of the signature, so that a new kind of
    discrepancy in the same region of the grammar is not taken for a known one)."""
    g, e = got[head : len(got) - tail], exp[head : len(exp) - tail]
    if e[:1] in ("+", " ") and g == e[1:]:
        return "sign-dropped"
    if len(g) < len(e):
        return "shorter"
    if len(g) > len(e):
        return "longer"
    return "same-length"


def _make(template, filename, mimetype):
    from bluesky.consolidators import consolidator_factory

    descriptor = {"uid": "desc-1", "data_keys": {"img": {"shape": [1, 4, 4], "dtype": "array", "source": "sim", "external": "STREAM:"}}}
    params = {"template": template, "chunk_shape": (1,)}
    if filename is not None:
        params["filename"] = filename
    sres = {"uid": "sres-1", "run_start": "run-1", "mimetype": mimetype, "data_key": "img", "uri": URI, "parameters": params}
    return consolidator_factory(sres, descriptor)


def run_case(flags, width, prec, ctx, tier):
    """-> (violations, evaluations, nontrivial?, outcome class)"""
    indices = QUICK_IDX if tier == "quick" else THOROUGH_IDX
    prefix, suffix, filename, mimetype = CONTEXTS[ctx]
    template = prefix + spec(flags, width, prec) + suffix
    case = {"flags": flags, "width": width, "prec": prec, "ctx": ctx, "tier": tier}
    sigtail = f"flags={_canon(flags)}|w={_cls(width)}|p={_cls(prec)}"
    exp = {i: expected(template, filename, i) for i in indices}
    plain = {i: URI + (prefix.replace("%s%s", filename or "") + str(i) + suffix) for i in indices}
    nontrivial = any(exp[i] != plain[i] for i in indices)
    evals = 0

    def viol(rule, detail):
        return [{"rule": rule, "detail": f"template {template!r} (filename={filename!r}): {detail}", "signature": f"{rule}|{sigtail}", "case": case}]

    try:
        cons = _make(template, filename, mimetype)
    except Exception as e:  # noqa: BLE001
        return viol(f"constructor-exception:{type(e).__name__}", repr(e)), 1, nontrivial, f"constructor-exception:{type(e).__name__}"
    for i in indices:
        evals += 1
        try:
            got = cons.get_datum_uri(i)
        except Exception as e:  # noqa: BLE001
            rule = f"exception:{type(e).__name__}"
            return viol(rule, f"get_datum_uri({i}) raised {e!r}; printf gives {exp[i]!r} (converted template {cons.template!r})"), evals, nontrivial, rule
        if got != exp[i]:
            rule = "differs:" + _diff_class(got, exp[i], len(plain[i]) - len(str(i)) - len(suffix), len(suffix))
            return (
                viol(rule, f"get_datum_uri({i}) = {got!r}, printf gives {exp[i]!r} (converted template {cons.template!r})"),
                evals,
                nontrivial,
                rule,
            )
    # the names recorded as assets when frames 0..2 are consumed
    evals += 1
    try:
        cons.consume_stream_datum({"uid": "sd-1", "stream_resource": "sres-1", "descriptor": "desc-1", "indices": {"start": 0, "stop": 3}, "seq_nums": {"start": 1, "stop": 4}})
        got = [a.data_uri for a in cons.assets]
    except Exception as e:  # noqa: BLE001
        rule = f"consume-exception:{type(e).__name__}"
        return viol(rule, repr(e)), evals, nontrivial, rule
    want = [expected(template, filename, i) for i in (0, 1, 2)]
    if got != want:
        return viol("asset-uris-differ", f"assets {got!r}, printf gives {want!r}"), evals, nontrivial, "asset-uris-differ"
    return [], evals, nontrivial, "ok"


def run_item(item):
    tier = item["tier"]
    nctx = 2 if tier == "quick" else 4
    w, p = item["width"], item["prec"]
    violations, states, nontrivial, outcomes = [], set(), set(), {}
    persig, suppressed = {}, 0
    evaluations = 0
    samples = []
    for flags in _flag_orderings():
        for ctx in range(nctx):
            key = hashlib.sha256(repr((flags, w, p, ctx)).encode()).hexdigest()[:12]
            states.add(key)
            vs, ev, nt, oc = run_case(flags, w, p, ctx, tier)
            evaluations += ev
            if nt:
                nontrivial.add(key)
            oc = f"{oc}|flags={_canon(flags)}"
            outcomes[oc] = outcomes.get(oc, 0) + 1
            for v in vs:  # at most 3 examples per signature per work item travel back; the rest are counted
                persig[v['signature']] = persig.get(v['signature'], 0) + 1
                if persig[v['signature']] <= 3:
                    violations.append(v)
                else:
                    suppressed += 1
            if len(samples) < 1 and flags == "+0" and ctx == 1:
                t = CONTEXTS[ctx][0] + spec(flags, w, p) + CONTEXTS[ctx][1]
                samples.append({"template": t, "filename": CONTEXTS[ctx][2], "index": 12345, "printf": expected(t, CONTEXTS[ctx][2], 12345)})
    return {
        "evaluations": evaluations,
        "transitions": evaluations,
        "states": states,
        "nontrivial": nontrivial,
        "outcomes": outcomes,
        "violations": violations,
        "samples": samples,
        "extra": {"caps_hit": 0, "violating_cases_not_listed_individually": suppressed},
    }


def replay(payload):
    c = payload["case"]
    vs, _, _, _ = run_case(c["flags"], c["width"], c["prec"], c["ctx"], c["tier"])
    return vs
