"""C38 - truncate_json_overflow makes any numeric payload JSON-safe without changing safe values.

S engine over the inputs of a pure function: a fixed alphabet of leaves (Python and numpy numbers at and
around the decision boundaries +-(2**53-1), +-2**53, 1.7976e308, inf, nan; bools; strings) placed in every
container shape of the bound, and numpy arrays of every listed dtype/shape over per-dtype value sets.
The oracle walks input and output in parallel and applies the statement leaf by leaf.
"""

import hashlib
import itertools
import math

ID = "C38"
LEVEL = "model_checking"
RULE = (
    "S: 48 leaves (Python int/float/bool/str and numpy int32/int64/uint64/float32/float64 scalars, in range, on the boundary "
    "+-(2**53-1)/+-2**53, far out of range, +-inf, nan) x shapes {bare, list, tuple, dict, the 9 two-level nestings}; all ordered "
    "PAIRS of leaves in 6 two-leaf shapes (thorough: all ordered TRIPLES in 2 three-leaf shapes); numpy arrays of dtype "
    "int32/int64/uint64/float32/float64/bool with shapes (0,),(1,),(2,),(1,1),(1,2),(2,1),(2,2),(0,2),(2,0) (thorough adds (3,),(2,3)) over "
    "every assignment of 2..7 boundary values per dtype, bare / in a dict / in a list. Oracle per statement: same shape and keys; every "
    "integer-typed result within +-(2**53-1); every float result finite or NaN; leaves already in range equal to the input. "
    "non-trivial = the real function changed at least one leaf or the case contains an out-of-range leaf (measured on the output)"
)
ASSUMPTIONS = [
    "container TYPE of the result is a don't-care (the function returns lists for tuples and arrays); only length/keys/nesting are compared",
    "integer-valued floats beyond +-(2**53-1) (1e300, 2.0**53, float32 3e38): either reading of 'integral value' is accepted - result must be finite and either equal to the input or within +-(2**53-1)",
    "+-inf: any finite result is accepted",
    "which in-range value an out-of-range integer is mapped to is not constrained (statement: 'lies within')",
]

LIM = 2**53 - 1


def describe(tier):
    return {"bounds": {"leaves": len(_leaf_specs()), "container_depth": 2, "array_ndim": 2, "tuple_arity": 2 if tier == "quick" else 3}}


# ---------------------------------------------------------------- alphabet
def _leaf_specs():
    """(label, kind, python value) - numpy scalars are built in the worker from (kind, value)."""
    inf, nan = float("inf"), float("nan")
    py = [0, 1, -1, LIM, -LIM, 2**53, -(2**53), 2**60, -(2**60), 2**64, 5]
    pf = [1.5, -0.5, 0.0, 1e300, -1e300, inf, -inf, nan, 2.0**53, -(2.0**53), float(LIM), 1e15 + 0.5]
    out = [(f"int:{v}", "int", v) for v in py]
    out += [(f"float:{v!r}", "float", v) for v in pf]
    out += [("bool:True", "bool", True), ("bool:False", "bool", False), ("str:text", "str", "text"), ("str:empty", "str", "")]
    out += [(f"int32:{v}", "int32", v) for v in (7, -(2**31))]
    out += [(f"int64:{v}", "int64", v) for v in (7, LIM, 2**53, -(2**53), 2**60, -(2**63))]
    out += [(f"uint64:{v}", "uint64", v) for v in (7, 2**53, 2**64 - 1)]
    out += [(f"float32:{v!r}", "float32", v) for v in (1.5, inf, -inf, nan, 3e38)]
    out += [(f"float64:{v!r}", "float64", v) for v in (1.5, 1e300, inf, nan, 2.0**53)]
    return out


ARRAY_VALUES = {
    "int32": [0, -1, 2**31 - 1, -(2**31)],
    "int64": [0, LIM, 2**53, -(2**53), 2**60, -(2**60)],
    "uint64": [0, LIM, 2**53, 2**64 - 1],
    "float32": [0.5, 1.0, float("inf"), float("-inf"), float("nan"), 3e38],
    "float64": [1.5, float(LIM), 2.0**53, 1e300, float("inf"), float("-inf"), float("nan")],
    "bool": [True, False],
}
ARRAY_SHAPES_QUICK = [(0,), (1,), (2,), (1, 1), (1, 2), (2, 1), (2, 2), (0, 2), (2, 0)]
ARRAY_SHAPES_THOROUGH = ARRAY_SHAPES_QUICK + [(3,), (2, 3)]
WRAPS = ["bare", "dict", "list"]

SINGLE_SHAPES = ["bare", "list", "tuple", "dict"] + [f"{o}/{i}" for o in ("list", "tuple", "dict") for i in ("list", "tuple", "dict")]
PAIR_SHAPES = ["list2", "tuple2", "dict2", "list+list", "dict+dict", "list(list,tuple)"]
TRIPLE_SHAPES = ["list3", "dict(list(dict))"]


def _mk_leaf(kind, v):
    import numpy as np

    if kind in ("int", "float", "bool", "str"):
        return v
    return getattr(np, kind)(v)


def _wrap(kind, x):
    return {"list": [x], "tuple": (x,), "dict": {"k": x}}[kind]


def build(desc, leaves):
    """Case descriptor -> input object (fresh each call)."""
    import numpy as np

    fam = desc[0]
    if fam == "single":
        _, shape, i = desc
        x = leaves[i]
        if shape == "bare":
            return x
        parts = shape.split("/")
        for k in reversed(parts):
            x = _wrap(k, x)
        return x
    if fam == "pair":
        _, shape, i, j = desc
        x, y = leaves[i], leaves[j]
        return {
            "list2": lambda: [x, y],
            "tuple2": lambda: (x, y),
            "dict2": lambda: {"a": x, "b": y},
            "list+list": lambda: [x, [y]],
            "dict+dict": lambda: {"a": x, "b": {"c": y}},
            "list(list,tuple)": lambda: [[x], (y,)],
        }[shape]()
    if fam == "triple":
        _, shape, i, j, k = desc
        x, y, z = leaves[i], leaves[j], leaves[k]
        return [x, y, z] if shape == "list3" else {"a": x, "b": [y, {"c": z}]}
    if fam == "array":
        _, dtype, shape, idx, wrap = desc
        vals = [ARRAY_VALUES[dtype][t] for t in idx]
        arr = np.array(vals, dtype=dtype).reshape(shape)
        return arr if wrap == "bare" else _wrap(wrap, arr)
    raise ValueError(desc)


def _cases(tier):
    n = len(_leaf_specs())
    out = []
    for shape in SINGLE_SHAPES:
        for i in range(n):
            out.append(("single", shape, i))
    for shape in PAIR_SHAPES:
        for i in range(n):
            for j in range(n):
                out.append(("pair", shape, i, j))
    if tier == "thorough":
        for shape in TRIPLE_SHAPES:
            for i in range(n):
                for j in range(n):
                    for k in range(n):
                        out.append(("triple", shape, i, j, k))
    shapes = ARRAY_SHAPES_QUICK if tier == "quick" else ARRAY_SHAPES_THOROUGH
    for dtype, vals in ARRAY_VALUES.items():
        for shape in shapes:
            size = 1
            for d in shape:
                size *= d
            for idx in itertools.product(range(len(vals)), repeat=size):
                for wrap in WRAPS:
                    out.append(("array", dtype, shape, idx, wrap))
    return out


def items(tier, seed):
    import numpy  # noqa: F401 - before the fork

    import bluesky.utils  # noqa: F401

    cases = _cases(tier)
    size = 1000
    import gc

    gc.freeze()  # keep the forked workers' collector off the parent's heap (fewer copy-on-write faults)
    return [{"cases": cases[i : i + size]} for i in range(0, len(cases), size)]


# ---------------------------------------------------------------- oracle (reference: the statement, leaf by leaf)
def classify(x):
    import numpy as np

    if isinstance(x, (bool, np.bool_)):
        return "bool"
    if isinstance(x, str):
        return "str"
    if isinstance(x, (int, np.integer)):
        return "int-in" if -LIM <= int(x) <= LIM else "int-out"
    if isinstance(x, (float, np.floating)):
        f = float(x)
        if math.isnan(f):
            return "nan"
        if math.isinf(f):
            return "inf"
        if f.is_integer():
            return "float-integral-in" if -LIM <= f <= LIM else "float-integral-out"
        return "float-frac"
    return "other"


def _is_number(r):
    import numpy as np

    return isinstance(r, (int, float, np.integer, np.floating, np.bool_)) and not isinstance(r, str)


def _finite(r):
    f = float(r)
    return not (math.isnan(f) or math.isinf(f))


def check_leaf(x, r):
    """-> (rule or None, outcome)"""
    cls = classify(x)
    if cls == "str":
        return (None, "str-kept") if isinstance(r, str) and r == x else ("shape-changed", "str-changed")
    if not _is_number(r):
        return "shape-changed", "leaf-became-" + type(r).__name__
    if cls in ("bool", "int-in", "float-frac", "float-integral-in"):
        return (None, "kept") if r == x else ("in-range-value-changed", "changed")
    if cls == "nan":
        return (None, "nan-kept") if math.isnan(float(r)) else ("in-range-value-changed", "nan-changed")
    if cls == "int-out":
        if _finite(r) and float(r).is_integer() and -LIM <= int(r) <= LIM:
            return None, "int-truncated"
        return "integer-out-of-range", "int-kept" if r == x else "int-bad"
    if cls == "inf":
        return (None, "inf-made-finite") if _finite(r) else ("float-not-finite", "inf-kept")
    if cls == "float-integral-out":
        if not _finite(r):
            return "float-not-finite", "bigfloat-nonfinite"
        if r == x:
            return None, "bigfloat-kept"
        if -LIM <= float(r) <= LIM:
            return None, "bigfloat-truncated"
        return "integer-out-of-range", "bigfloat-bad"
    return None, "other"


def walk(x, r, path, out):
    """Parallel walk; appends (rule, detail, leaf type, leaf class, path, outcome)."""
    import collections.abc as abc

    import numpy as np

    if isinstance(x, abc.Mapping):
        if not isinstance(r, abc.Mapping) or list(r.keys()) != list(x.keys()):
            out.append(("shape-changed", f"mapping with keys {list(x.keys())} became {r!r}", "dict", "container", path, "shape-changed"))
            return
        for k in x:
            walk(x[k], r[k], path + ["dict"], out)
        return
    if isinstance(x, (list, tuple, np.ndarray)):
        kind = "ndarray" if isinstance(x, np.ndarray) else type(x).__name__
        if isinstance(r, (str, abc.Mapping)) or not isinstance(r, (list, tuple, np.ndarray)) or len(r) != len(x):
            out.append(("shape-changed", f"{kind} of length {len(x)} became {r!r}", kind, "container", path, "shape-changed"))
            return
        for a, b in zip(x, r):
            walk(a, b, path + [kind], out)
        return
    rule, outcome = check_leaf(x, r)
    out.append((rule, f"leaf {x!r} ({type(x).__name__}) -> {r!r} ({type(r).__name__})", type(x).__name__, classify(x), path, outcome))


def run_case(desc, leaves):
    from bluesky.utils import truncate_json_overflow

    desc = tuple(tuple(d) if isinstance(d, list) else d for d in desc)
    inp = build(desc, leaves)
    ref_inp = build(desc, leaves)  # an untouched twin for the comparison
    violations = []
    case = {"desc": list(desc)}
    try:
        res = truncate_json_overflow(inp)
    except Exception as e:  # noqa: BLE001
        rule = f"exception:{type(e).__name__}"
        return [{"rule": rule, "detail": f"input {ref_inp!r}: {e!r}", "signature": f"{rule}|{desc[0]}:{desc[1]}", "case": case}], ("exception",), False
    rows = []
    walk(ref_inp, res, [], rows)
    outcomes = []
    for rule, detail, ltype, lcls, path, outcome in rows:
        outcomes.append(outcome)
        if rule is not None:
            violations.append(
                {
                    "rule": rule,
                    "detail": f"input {ref_inp!r} -> {res!r}: {detail}",
                    "signature": f"{rule}|leaf={ltype}:{lcls}|path={'/'.join(path) or 'bare'}",
                    "case": case,
                }
            )
    changed = any(o in ("int-truncated", "inf-made-finite", "bigfloat-truncated", "int-kept", "inf-kept", "int-bad", "bigfloat-bad") for o in outcomes)
    return violations, tuple(sorted(set(outcomes))), changed


def run_item(item):
    specs = _leaf_specs()
    leaves = [_mk_leaf(k, v) for _, k, v in specs]
    violations, states, nontrivial, outcomes = [], set(), set(), {}
    persig, suppressed = {}, 0
    n = 0
    for desc in item["cases"]:
        n += 1
        key = hashlib.sha256(repr(desc).encode()).hexdigest()[:12]
        states.add(key)
        vs, oc, changed = run_case(desc, leaves)
        if changed:
            nontrivial.add(key)
        k = "+".join(oc) or "empty"
        outcomes[k] = outcomes.get(k, 0) + 1
        for v in vs:  # at most 3 examples per signature per work item travel back; the rest are counted
            persig[v['signature']] = persig.get(v['signature'], 0) + 1
            if persig[v['signature']] <= 3:
                violations.append(v)
            else:
                suppressed += 1
    d0 = item["cases"][0]
    return {
        "evaluations": n,
        "transitions": n,
        "states": states,
        "nontrivial": nontrivial,
        "outcomes": outcomes,
        "violations": violations,
        "samples": [{"case": repr(d0), "input": repr(build(tuple(d0), leaves))[:200]}],
        "extra": {"caps_hit": 0, "violating_cases_not_listed_individually": suppressed},
    }


def replay(payload):
    specs = _leaf_specs()
    leaves = [_mk_leaf(k, v) for _, k, v in specs]
    vs, _, _ = run_case(payload["case"]["desc"], leaves)
    return vs
