"""C36 - stream datums concatenate, and consolidators advertise chunks that tile their shape.

S engine, two families of cases:

A. ``concatenate_stream_datums`` on every ordered tuple (length 1..3, repetition allowed) of stream datums
   drawn from {10 non-empty index ranges within [0,4]} (thorough: 15 within [0,5]) x {2 descriptors} x {2 stream resources}, with two
   seq_num offsets.  Reference: same descriptor, same resource, and the ranges sorted by start chain
   without gap or overlap  ->  accepted with the enclosing index / seq_num range; otherwise rejected.

B. the real consolidator classes over the parameter grid of DESIGN.md, consuming every sequence (<= 3) of
   contiguous datums of 1 or 2 rows, in forward and reverse order; after construction and after every
   consumed datum: ``shape`` / ``chunks`` / ``structure()`` are read and every dimension's chunk sizes must
   be positive and add up to the dimension ((0,) for an empty dimension), and the seq_num -> row index map
   must contain exactly what a dict reference says.
"""

import hashlib
import itertools

ID = "C36"
LEVEL = "model_checking"
RULE = (
    "S: (A) concatenate_stream_datums over all ordered tuples of length 1..3 (repetition allowed) of 40 stream datums = 10 non-empty "
    "index ranges in [0,4] x 2 descriptors x 2 resources, x 2 seq_num offsets (131 280 tuples); reference = same descriptor and resource "
    "and sorted ranges chain exactly; accepted tuples must return the enclosing indices and seq_nums. (B) consolidator classes "
    "{ConsolidatorBase, HDF5, CSV, TIFF} x join_method {stack,concat} x join_chunks {T,F} x chunk_shape {(),(1,),(2,),(3,1),(2,2,2)} x "
    "multiplier {None,1,3} x datum shape {(),(1,),(3,),(2,2)} x consumed row counts = every sequence of length 0..3 over {1,2} x "
    "{forward, reverse} consumption order (thorough: ranges within [0,5], row-count sequences of length 0..4 over {1,2,3}); checked after every operation: len(chunks)==len(shape), all chunk sizes positive and "
    "summing to the dimension ((0,) for an empty one), structure() agrees, seq_num->index map == reference dict. "
    "non-trivial: (A) >= 2 datums of one descriptor and resource (the verdict hinges on contiguity); (B) some dimension is split "
    "into >= 2 chunks after a consume (measured on the real object)"
)
ASSUMPTIONS = [
    "empty index ranges (start == stop) are outside the bound (a zero-length stream datum is degenerate; the statement is silent)",
    "seq_nums of a datum are its indices plus a constant offset (1 or 7); datums whose index and seq_num contiguity disagree are not generated",
    "any exception raised by concatenate_stream_datums counts as a rejection (the type is recorded in the outcome histogram)",
    "parameter combinations the constructor refuses (any exception) and the documented ValueError of `chunks` when chunk_shape is longer than the data shape are don't-cares",
    "the seq_num -> row map is read from the private attribute _seqnums_to_indices_map (there is no public accessor)",
]

def _ranges(tier):
    hi = 4 if tier == "quick" else 5
    return [(a, b) for a in range(0, hi + 1) for b in range(a + 1, hi + 1)]


DESCS = ("desc-1", "desc-2")
RESS = ("sres-1", "sres-2")
OFFSETS = (1, 7)

CLASSES = {
    "base": "application/octet-stream",
    "hdf5": "application/x-hdf5",
    "csv": "text/csv;header=absent",
    "tiff": "multipart/related;type=image/tiff",
}
JOIN_METHODS = ("stack", "concat")
JOIN_CHUNKS = (True, False)
CHUNK_SHAPES = ((), (1,), (2,), (3, 1), (2, 2, 2))
MULTIPLIERS = (None, 1, 3)
DATUM_SHAPES = ((), (1,), (3,), (2, 2))
def _size_seqs(tier):
    if tier == "quick":
        return [s for n in range(0, 4) for s in itertools.product((1, 2), repeat=n)]
    return [s for n in range(0, 5) for s in itertools.product((1, 2, 3), repeat=n)]


ORDERS = ("forward", "reverse")


def describe(tier):
    return {
        "bounds": {
            "A_elements": len(_ranges(tier)) * 4,
            "A_max_len": 3,
            "A_seq_offsets": list(OFFSETS),
            "B_param_combos": len(CLASSES) * len(JOIN_METHODS) * len(JOIN_CHUNKS) * len(CHUNK_SHAPES) * len(MULTIPLIERS) * len(DATUM_SHAPES),
            "B_size_sequences": len(_size_seqs(tier)),
        },
        "tiers": "thorough: index ranges within [0,5] and consumed row counts = sequences of length 0..4 over {1,2,3}",
    }


def _elements(tier):
    return [(r, d, s) for r in _ranges(tier) for d in DESCS for s in RESS]


def items(tier, seed):
    import bluesky.callbacks.tiled_writer  # noqa: F401 - heavy import (tiled, pyarrow) done once before the pool forks
    import bluesky.consolidators  # noqa: F401

    out = []
    n = len(_elements(tier))
    for off in OFFSETS:
        out.append({"fam": "A", "tier": tier, "off": off, "first": None})  # lengths 1 and 2
        for first in range(n):
            out.append({"fam": "A", "tier": tier, "off": off, "first": first})  # length 3, first element fixed
    for cls in CLASSES:
        for jm in JOIN_METHODS:
            for jc in JOIN_CHUNKS:
                for cs in CHUNK_SHAPES:
                    out.append({"fam": "B", "tier": tier, "cls": cls, "jm": jm, "jc": jc, "cs": list(cs)})
    import gc

    gc.freeze()  # keep the forked workers' collector off the parent's heap (fewer copy-on-write faults)
    return out


def _h(x):
    return hashlib.sha256(repr(x).encode()).hexdigest()[:12]


# ---------------------------------------------------------------- A
def make_datum(k, el, off):
    (a, b), d, s = el
    return {"uid": f"sd-{k}", "descriptor": d, "stream_resource": s, "indices": {"start": a, "stop": b}, "seq_nums": {"start": a + off, "stop": b + off}}


def reference_concat(els, off):
    """-> None if the tuple must be rejected, else (indices, seq_nums, descriptor, resource)."""
    if len({d for _, d, _ in els}) != 1 or len({s for _, _, s in els}) != 1:
        return None
    rs = sorted(r for r, _, _ in els)
    for (_, stop), (start, _) in zip(rs, rs[1:]):
        if stop != start:
            return None
    lo, hi = rs[0][0], rs[-1][1]
    return ({"start": lo, "stop": hi}, {"start": lo + off, "stop": hi + off}, els[0][1], els[0][2])


def run_case_a(els, off):
    from bluesky.callbacks.tiled_writer import concatenate_stream_datums

    els = [((tuple(r)), d, s) for r, d, s in els]
    docs = [make_datum(k, el, off) for k, el in enumerate(els)]
    ref = reference_concat(els, off)
    same_d = len({d for _, d, _ in els}) == 1
    same_r = len({s for _, _, s in els}) == 1
    case = {"fam": "A", "els": [[list(r), d, s] for r, d, s in els], "off": off}
    shape = f"n={len(els)}|same_desc={same_d}|same_res={same_r}|contiguous={ref is not None}"
    try:
        res = concatenate_stream_datums(*docs)
        exc = None
    except Exception as e:  # noqa: BLE001
        res, exc = None, e
    vs = []

    def viol(rule, detail):
        vs.append({"rule": rule, "detail": f"datums {[(r, d, s) for r, d, s in els]} (seq offset {off}): {detail}", "signature": f"{rule}|{shape}", "case": case})

    if ref is None:
        if exc is None:
            viol("accepted-non-contiguous-or-mixed", f"returned {res!r}; must be rejected")
        outcome = f"rejected:{type(exc).__name__}" if exc is not None else "wrongly-accepted"
    else:
        if exc is not None:
            viol("rejected-contiguous-set", f"raised {exc!r}; expected indices {ref[0]} seq_nums {ref[1]}")
            outcome = "wrongly-rejected"
        else:
            outcome = f"accepted:n={len(els)}"
            if dict(res["indices"]) != ref[0]:
                viol("wrong-indices", f"indices {dict(res['indices'])}, expected {ref[0]}")
            if dict(res["seq_nums"]) != ref[1]:
                viol("wrong-seq_nums", f"seq_nums {dict(res['seq_nums'])}, expected {ref[1]}")
            if res["descriptor"] != ref[2] or res["stream_resource"] != ref[3]:
                viol("wrong-descriptor-or-resource", f"{res['descriptor']}/{res['stream_resource']}, expected {ref[2]}/{ref[3]}")
    nontrivial = len(els) >= 2 and same_d and same_r
    return vs, outcome, nontrivial


def run_item_a(item):
    E = _elements(item["tier"])
    off = item["off"]
    if item["first"] is None:
        tuples = [(e,) for e in E] + [(e, f) for e in E for f in E]
    else:
        tuples = [(E[item["first"]], f, g) for f in E for g in E]
    violations, states, nontrivial, outcomes = [], set(), set(), {}
    for els in tuples:
        key = _h(("A", els, off))
        states.add(key)
        vs, oc, nt = run_case_a(els, off)
        if nt:
            nontrivial.add(key)
        outcomes[oc] = outcomes.get(oc, 0) + 1
        violations.extend(vs)
    return {
        "evaluations": len(tuples),
        "transitions": len(tuples),
        "states": states,
        "nontrivial": nontrivial,
        "outcomes": outcomes,
        "violations": violations,
        "samples": [{"family": "A", "datums": [list(map(str, e)) for e in tuples[-1]], "seq_offset": off, "reference": repr(reference_concat(list(tuples[-1]), off))}],
        "extra": {"caps_hit": 0},
    }


# ---------------------------------------------------------------- B
def make_consolidator(cls, jm, jc, cs, mult, dshape):
    from bluesky.consolidators import consolidator_factory

    descriptor = {
        "uid": "desc-1",
        "data_keys": {"img": {"shape": list(dshape), "dtype": "array" if dshape else "number", "source": "sim", "external": "STREAM:"}},
    }
    params = {"join_method": jm, "join_chunks": jc}
    if cs is not None:
        params["chunk_shape"] = tuple(cs)
    if mult is not None:
        params["multiplier"] = mult
    if cls == "hdf5":
        params["dataset"] = "/entry/data"
    if cls == "tiff":
        params["template"] = "img_%05d.tif"
    sres = {"uid": "sres-1", "run_start": "run-1", "mimetype": CLASSES[cls], "data_key": "img", "uri": "file://localhost/data/x", "parameters": params}
    return consolidator_factory(sres, descriptor)


def check_chunks(shape, chunks):
    """The statement: chunks is a valid chunking of shape.  -> None or a description of what is wrong."""
    if not isinstance(chunks, tuple) or len(chunks) != len(shape):
        return f"{len(chunks) if hasattr(chunks, '__len__') else '?'} chunk tuples for {len(shape)} dimensions"
    for i, (dim, cdim) in enumerate(zip(shape, chunks)):
        if dim == 0:
            if tuple(cdim) not in ((0,), ()):
                return f"dimension {i} is empty but its chunks are {cdim}"
            continue
        if any((not isinstance(c, int)) or c <= 0 for c in cdim):
            return f"dimension {i}: non-positive or non-integer chunk size in {cdim}"
        if sum(cdim) != dim:
            return f"dimension {i}: chunks {cdim} add up to {sum(cdim)}, dimension is {dim}"
    return None


def run_case_b(cls, jm, jc, cs, mult, dshape, sizes, order):
    """-> (violations, outcome, nontrivial, object-state digests, operations applied)"""
    case = {"fam": "B", "cls": cls, "jm": jm, "jc": jc, "cs": list(cs), "mult": mult, "dshape": list(dshape), "sizes": list(sizes), "order": order}
    sigbase = f"class={cls}|join={jm}/{'joined' if jc else 'separate'}|chunk_rank={len(cs)}|datum_rank={len(dshape)}|mult={mult}"
    vs, digests = [], set()
    ops = 1
    try:
        cons = make_consolidator(cls, jm, jc, cs, mult, dshape)
    except Exception as e:  # noqa: BLE001
        return vs, f"refused-at-construction:{type(e).__name__}", False, digests, ops

    # contiguous datums; row k of the data source holds seq_num k+1
    datums, start = [], 0
    for k, n in enumerate(sizes):
        datums.append({"uid": f"sd-{k}", "descriptor": "desc-1", "stream_resource": "sres-1", "indices": {"start": start, "stop": start + n}, "seq_nums": {"start": start + 1, "stop": start + n + 1}})
        start += n
    if order == "reverse":
        datums = datums[::-1]
    ref_map = {}
    split = False
    outcome = "ok"

    def inspect(stage, rows):
        nonlocal split, outcome
        def viol(rule, detail):
            vs.append(
                {
                    "rule": rule,
                    "detail": f"{cls} join={jm} join_chunks={jc} chunk_shape={tuple(cs)} multiplier={mult} datum shape={tuple(dshape)} sizes={list(sizes)} {order}; {stage}: {detail}",
                    "signature": f"{rule}|{sigbase}|rows={'0' if rows == 0 else '>0'}",
                    "case": case,
                }
            )

        try:
            shape = cons.shape
        except Exception as e:  # noqa: BLE001
            viol(f"shape-exception:{type(e).__name__}", repr(e))
            outcome = "shape-exception"
            return False
        try:
            chunks = cons.chunks
        except ValueError as e:
            if len(cons.chunk_shape) > len(shape):
                outcome = "chunks-refused:chunk_shape-longer-than-shape"  # documented refusal
                return True
            viol("chunks-exception:ValueError", repr(e))
            outcome = "chunks-exception"
            return False
        except Exception as e:  # noqa: BLE001
            viol(f"chunks-exception:{type(e).__name__}", f"shape={shape}: {e!r}")
            outcome = f"chunks-exception:{type(e).__name__}"
            return True  # keep consuming: the same parameters are inspected again with rows > 0
        bad = check_chunks(shape, chunks)
        if bad:
            viol("chunks-do-not-tile-shape", f"shape={shape} chunks={chunks}: {bad}")
            outcome = "bad-chunks"
        elif any(len(c) >= 2 for c in chunks) and rows > 0:
            split = True
        try:
            st = cons.structure()
            if tuple(st.shape) != tuple(shape) or tuple(map(tuple, st.chunks)) != tuple(map(tuple, chunks)):
                viol("structure-disagrees", f"structure() shape={st.shape} chunks={st.chunks}; properties shape={shape} chunks={chunks}")
        except Exception as e:  # noqa: BLE001
            if not bad:
                viol(f"structure-exception:{type(e).__name__}", f"shape={shape} chunks={chunks}: {e!r}")
        got = dict(getattr(cons, "_seqnums_to_indices_map"))
        if got != ref_map:
            viol("seqnum-map-wrong", f"map {got}, expected {ref_map}")
            outcome = "bad-map"
        digests.add(_h((cls, jm, jc, tuple(cs), mult, tuple(dshape), tuple(shape), chunks, tuple(sorted(got.items())))))
        return True

    rows = 0
    if inspect("after construction", rows):
        for d in datums:
            ops += 1
            try:
                cons.consume_stream_datum(d)
            except Exception as e:  # noqa: BLE001
                vs.append(
                    {
                        "rule": f"consume-exception:{type(e).__name__}",
                        "detail": f"{case}: consume_stream_datum({d['indices']}) raised {e!r}",
                        "signature": f"consume-exception:{type(e).__name__}|{sigbase}",
                        "case": case,
                    }
                )
                outcome = "consume-exception"
                break
            rows += d["indices"]["stop"] - d["indices"]["start"]
            for j in range(d["indices"]["stop"] - d["indices"]["start"]):
                ref_map[d["seq_nums"]["start"] + j] = d["indices"]["start"] + j
            if not inspect(f"after consuming {d['indices']}", rows):
                break
    return vs, outcome, split, digests, ops


def run_item_b(item):
    cls, jm, jc, cs = item["cls"], item["jm"], item["jc"], tuple(item["cs"])
    violations, states, nontrivial, outcomes = [], set(), set(), {}
    persig = {}
    suppressed = 0
    n = ops_total = 0
    sample = None
    for mult in MULTIPLIERS:
        for dshape in DATUM_SHAPES:
            for sizes in _size_seqs(item["tier"]):
                for order in ORDERS:
                    if order == "reverse" and len(sizes) < 2:
                        continue
                    n += 1
                    key = _h(("B", cls, jm, jc, cs, mult, dshape, sizes, order))
                    states.add(key)
                    vs, oc, split, digests, ops = run_case_b(cls, jm, jc, cs, mult, dshape, sizes, order)
                    ops_total += ops
                    states.update(digests)
                    if split:
                        nontrivial.add(key)
                    outcomes[oc] = outcomes.get(oc, 0) + 1
                    for v in vs:
                        persig[v["signature"]] = persig.get(v["signature"], 0) + 1
                        if persig[v["signature"]] <= 3:
                            violations.append(v)
                        else:
                            suppressed += 1
                    if sample is None and split:
                        sample = {"family": "B", "class": cls, "join_method": jm, "join_chunks": jc, "chunk_shape": list(cs), "multiplier": mult, "datum_shape": list(dshape), "sizes": list(sizes), "order": order}
    return {
        "evaluations": n,
        "transitions": ops_total,
        "states": states,
        "nontrivial": nontrivial,
        "outcomes": outcomes,
        "violations": violations,
        "samples": [sample] if sample else [],
        "extra": {"caps_hit": 0, "violating_cases_not_listed_individually": suppressed},
    }


def run_item(item):
    return run_item_a(item) if item["fam"] == "A" else run_item_b(item)


def replay(payload):
    c = payload["case"]
    if c["fam"] == "A":
        vs, _, _ = run_case_a([(tuple(r), d, s) for r, d, s in c["els"]], c["off"])
        return vs
    vs, _, _, _, _ = run_case_b(c["cls"], c["jm"], c["jc"], tuple(c["cs"]), c["mult"], tuple(c["dshape"]), tuple(c["sizes"]), c["order"])
    return vs
