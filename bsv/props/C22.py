"""C22 - finalize_wrapper / finalize_decorator / contingency_wrapper behave like try/except/else/finally.

G engine: wrapped programs x cleanup / except / else programs x adaptive driver scripts; library wrapper
vs reference generators written with the plain Python statements (cleanup skipped when closed).
finalize_decorator additionally: one decoration, the decorated function used 2 and 3 times in sequence.
"""

import itertools

from bsv.explore import genproto as G

ID = "C22"
LEVEL = "model_checking"
ENGINE = "G"

Y = ("Y",)
R3 = ("Raise", 3)
AUX_FULL = (Y, R3, ("Seq", (Y, Y)), ("Seq", (Y, R3)))  # cleanup/except/else programs, <= 2 nodes, may yield, may raise
AUX_SMALL = (Y, ("Seq", (Y, R3)))
MAIN_LEAVES = (("Y",), ("Raise", 2), ("Reraise",), ("Ret", 7))
# tier -> layers (main nodes, exactly?, script depth, arm programs); the layers of one kind are disjoint in the wrapped program
BOUNDS = {
    "quick": {"fin": [(4, False, 4, AUX_SMALL)], "cont": [(3, False, 4, AUX_SMALL)]},
    "thorough": {"fin": [(4, False, 5, AUX_FULL), (5, True, 3, AUX_FULL)], "cont": [(3, False, 4, AUX_FULL), (4, True, 3, AUX_SMALL)]},
}
# finalize_decorator, ONE decorated function used several times in sequence:
# tier -> layers (main nodes <= n, uses k, history depth, script depth of the last use, cleanup programs for the generator forms)
# layers are disjoint in k.  The cleanup callable comes in the REUSE_FORMS.
REUSE_BOUNDS = {
    "quick": [(3, 2, 2, 4, AUX_SMALL), (2, 3, 2, 3, AUX_SMALL)],
    "thorough": [(4, 2, 2, 4, AUX_FULL), (3, 3, 2, 3, AUX_SMALL)],
}
REUSE_FORMS = ("genfunc", "callable-object", "listfn", "iterfn")
AUX_LIST = (Y, ("Seq", (Y, Y)))  # what a function returning a list / an iterator of messages can express
DRAIN = 16  # send(None) actions appended to a history script; every program of the bound ends well before
RULE = (
    "G: wrapped programs of the grammar {Y, YF, Seq, Try(except Exception|BaseException/else/finally), Raise, Reraise, Return} with <= N nodes x "
    "cleanup / except / else programs with <= 2 nodes from {Y, raise E3, Y;Y, Y;raise E3} x every adaptive driver script of depth <= D over "
    "{send(None), send(1), throw(E1), throw(RequestStop), throw(RequestAbort), throw(PlanHalt), close(); close() first}; entry points: "
    "finalize_wrapper (final_plan as generator function and as instance), finalize_decorator, contingency_wrapper (except/else/final each "
    "absent or present, auto_raise both).  quick: finalize N<=4,D=4 and contingency N<=3,D=4, arms from {Y, Y;raise}; thorough: finalize N<=4,D=5 and "
    "N=5,D=3, contingency N<=3,D=4 with all four arm programs and N=4,D=3 with arms from {Y, Y;raise}.  Oracle: identical interaction trace + program logs against a reference generator "
    "written with plain try/except/else/finally in which cleanup is skipped on GeneratorExit; plus counters: cleanup body entered at most "
    "once, exactly once on every return/raise exit of a script without close/PlanHalt, except and else bodies never both.  Don't-cares "
    "(either reading accepted): whether a thrown PlanHalt counts as 'closed'; whether cleanup runs when close() lands inside the "
    "except/else plan (the wrapped plan has ended, the wrapper is being closed).  REUSE: finalize_decorator applied ONCE per execution and the "
    "decorated function then called k times in sequence (each call driven by its own script, fresh Env per call): the cleanup callable as "
    "generator function, as callable object returning a generator (cleanup programs as above), as function returning a list and as function "
    "returning an iterator of messages (cleanup Y and Y;Y); the k-1 earlier uses run every history = leaf of the adaptive script tree of depth <= H "
    "(over the same 7 actions) continued with send(None) until the plan ends, the last use runs every adaptive script of depth <= D; EVERY use is "
    "compared (trace, log, counters) with the stateless reference (a fresh try/finally with a fresh cleanup per call).  quick: k=2 with N<=3,H=2,D=4 "
    "and k=3 with N<=2,H=2,D=3; thorough: k=2 with N<=4,H=2,D=4 (all four cleanup programs) and k=3 with N<=3,H=2,D=3.  "
    "non-trivial = a script contains a throw/close or the wrapped program contains a Try (reuse: or an earlier use ran the cleanup)"
)
ASSUMPTIONS = [
    "except plans return None (the value returned under auto_raise=False after a handled exception is not fixed by the statement)",
    "pause_for_debug=False",
    "exception __context__ is not compared",
    "reuse: the decorated function is called sequentially (a use has ended or been closed before the next starts); a cleanup callable given as a generator instance (rejected by the API with TypeError) is not exercised",
]


def worker_init():
    G.quiet()


def _mains(n, exact=False):
    return G.programs(n, leaves=MAIN_LEAVES, exact=exact)


def _cont_configs(aux):
    opts = (None,) + tuple(aux)
    return [(x, l, f, ar) for x, l, f in itertools.product(opts, opts, opts) for ar in (True, False) if not (x is None and l is None and f is None)]


def describe(tier):
    b = BOUNDS[tier]
    return {
        "bounds": {
            "finalize": [{"program_size": ("=" if ex else "<=") + str(n), "depth": d, "programs": len(_mains(n, ex)), "cleanup_programs": len(aux), "forms": 3} for n, ex, d, aux in b["fin"]],
            "contingency": [{"program_size": ("=" if ex else "<=") + str(n), "depth": d, "programs": len(_mains(n, ex)), "configs": len(_cont_configs(aux))} for n, ex, d, aux in b["cont"]],
            "finalize_decorator_reuse": [
                {"program_size": "<=" + str(n), "uses": k, "history_depth": hd, "depth": d, "programs": len(_mains(n)), "cleanup_x_form": len(_reuse_cfgs(aux)), "forms": list(REUSE_FORMS)}
                for n, k, hd, d, aux in REUSE_BOUNDS[tier]
            ],
        }
    }


def items(tier, seed):
    import bluesky.preprocessors  # noqa: F401

    out = []
    for kind, size in (("fin", 25 if tier == "quick" else 40), ("cont", 3)):
        for li, (n, ex, _d, _aux) in enumerate(BOUNDS[tier][kind]):
            total = len(_mains(n, ex))
            out.extend({"tier": tier, "kind": kind, "layer": li, "lo": lo, "hi": min(total, lo + size)} for lo in range(0, total, size))
    total = len(_reuse_units(tier))
    size = 12 if tier == "quick" else 8
    out.extend({"tier": tier, "kind": "reuse", "lo": lo, "hi": min(total, lo + size)} for lo in range(0, total, size))
    return out


# ---- arms -------------------------------------------------------------------------------------


def _arm(env, prog, prefix, marker, takes_exc=False):
    """generator FUNCTION for an arm; logs its entry so that 'entered exactly once' can be counted."""
    if prog is None:
        return None
    f = G.compile_program(prog, prefix)
    if takes_exc:

        def arm(e):
            env.rec(marker, env.canon(e))
            return (yield from f(env))

    else:

        def arm():
            env.rec(marker)
            return (yield from f(env))

    return arm


# ---- references (plain statements) ----------------------------------------------------------------


def _is_close(e, halt_is_close):
    return isinstance(e, GeneratorExit) and (halt_is_close or type(e) is GeneratorExit)


def ref_finalize(plan, final, halt_is_close):
    try:
        ret = yield from plan
    except BaseException as e:
        if _is_close(e, halt_is_close):
            raise
        yield from final()
        raise
    yield from final()
    return ret


def ref_contingency(plan, exc, els, final, auto_raise, halt_is_close, skip_in_handlers):
    closed = False
    try:
        try:
            try:
                ret = yield from plan
            except GeneratorExit as e:
                if _is_close(e, halt_is_close):
                    closed = True
                raise
            except Exception as e:
                if exc is None:
                    raise
                ret = yield from exc(e)
                if auto_raise:
                    raise
                return ret
            else:
                if els is not None:
                    yield from els()
        except GeneratorExit as e:
            # GeneratorExit that arrived while the except / else plan was running
            if skip_in_handlers and _is_close(e, halt_is_close):
                closed = True
            raise
    finally:
        if not closed and final is not None:
            yield from final()
    return ret


# ---- cases ----------------------------------------------------------------------------------------

VARIANTS_FIN = ((True,), (False,))
VARIANTS_CONT = ((True, False), (True, True), (False, False), (False, True))


def _factories(case):
    """case = (entry, main, cfg) -> (impl factory, [reference factories, primary first])"""
    import bluesky.preprocessors as bpp

    entry, main, cfg = case
    fm = G.compile_program(main, "a")
    if entry in ("finalize_wrapper/function", "finalize_wrapper/instance", "finalize_decorator"):
        (fin,) = cfg

        def impl(env):
            arm = _arm(env, fin, "f", "F-enter")
            if entry == "finalize_wrapper/function":
                return bpp.finalize_wrapper(fm(env), arm)
            if entry == "finalize_wrapper/instance":
                return bpp.finalize_wrapper(fm(env), arm())
            return bpp.finalize_decorator(arm)(fm)(env)

        refs = [(lambda env, v=v: ref_finalize(fm(env), _arm(env, fin, "f", "F-enter"), *v)) for v in VARIANTS_FIN]
        return impl, refs
    x, l, f, ar = cfg

    def arms(env):
        return _arm(env, x, "x", "X-enter", True), _arm(env, l, "l", "L-enter"), _arm(env, f, "f", "F-enter")

    def impl(env):
        ax, al, af = arms(env)
        return bpp.contingency_wrapper(fm(env), except_plan=ax, else_plan=al, final_plan=af, auto_raise=ar)

    def mkref(v):
        def ref(env):
            ax, al, af = arms(env)
            return ref_contingency(fm(env), ax, al, af, ar, *v)

        return ref

    return impl, [mkref(v) for v in VARIANTS_CONT]


def _cfg_str(case):
    entry, main, cfg = case
    if entry == "contingency_wrapper":
        x, l, f, ar = cfg
        return f"except={'y' if x else 'n'}|else={'y' if l else 'n'}|final={'y' if f else 'n'}|auto_raise={ar}"
    return "final=y"


def _where(obs):
    """Which arm was running when the last action was delivered (from the impl log)."""
    for rec in reversed(obs.log):
        if rec[0] in ("F-enter", "X-enter", "L-enter"):
            return {"F": "final", "X": "except", "L": "else"}[rec[0][0]]
    return "main"


def _judge(case, script, oimp, orefs_fn, prefix_log=(), label=None, count_f=None):
    """``label`` replaces the entry point in the signatures (reuse cases); ``count_f(obs)`` counts the cleanup runs when the
    cleanup callable cannot log its own entry (functions returning a list / an iterator)."""
    out = []
    entry = case[0]
    special = any(a == G.CLOSE or a == G.THROW_HALT for a in script)
    oref = orefs_fn(0)
    matched = oimp.key() == oref.key()
    resolved = False
    if not matched and special:
        nvar = len(VARIANTS_CONT) if entry == "contingency_wrapper" else len(VARIANTS_FIN)
        for i in range(1, nvar):
            if oimp.key() == orefs_fn(i).key():
                matched = resolved = True
                break
    last = script[-1]
    lastname = last[0] + (":" + str(last[1]) if len(last) > 1 else "")
    if not matched:
        what = "steps" if oref.steps != oimp.steps else "log"
        out.append(
            (
                "differs-from-try-statement",
                f"trace|{label or entry}|{_cfg_str(case)}|last={lastname}@{_where(oref)}|ref={oref.kind()}|impl={oimp.kind()}|diff={what}",
                f"ref={oref.steps[-2:]!r} log={oref.log[-3:]!r} impl={oimp.steps[-2:]!r} log={oimp.log[-3:]!r}",
            )
        )
    # counters on the implementation's own log
    nf = count_f(oimp) if count_f is not None else sum(1 for r in oimp.log if r[0] == "F-enter")
    nx = sum(1 for r in oimp.log if r[0] == "X-enter")
    nl = sum(1 for r in oimp.log if r[0] == "L-enter")
    has_final = case[2][0] is not None if entry != "contingency_wrapper" else case[2][2] is not None
    if nf > 1 or nx > 1 or nl > 1 or (nx and nl):
        out.append(("arm-entered-twice", f"count|{label or entry}|{_cfg_str(case)}|F={nf}|X={nx}|L={nl}", f"cleanup entered {nf}x, except {nx}x, else {nl}x"))
    elif has_final and not special and oimp.steps[-1][0] in ("return", "raise") and nf != 1:
        out.append(("cleanup-not-run", f"count|{label or entry}|{_cfg_str(case)}|F=0|exit={oimp.kind()}", f"exit {oimp.steps[-1]!r} without running the cleanup plan"))
    elif has_final and oimp.steps[-1] == ("closed", None) and not any(r[0] in ("F-enter", "X-enter", "L-enter") for r in prefix_log) and nf != 0:
        # (a wrapped plan that itself yields or raises while being closed has not been 'closed': Python reports an error, try/finally runs)
        out.append(("cleanup-on-close", f"count|{label or entry}|{_cfg_str(case)}|F={nf}|close@main", "cleanup plan entered although the wrapped plan was closed"))
    return out, resolved


def _check(t, case, depth, nt_prog):
    impl, refs = _factories(case)
    stack = [((), ())]
    while stack:
        script, plog = stack.pop()
        if len(script) >= depth:
            continue
        for a in G.FIRST_ACTIONS if not script else G.ACTIONS:
            s = script + (a,)
            oimp = G.run_script(impl, s)
            cache = {}

            def oref_fn(i, s=s, cache=cache):
                if i not in cache:
                    cache[i] = G.run_script(refs[i], s)
                return cache[i]

            vs, resolved = _judge(case, s, oimp, oref_fn, plog)
            if vs:
                # every violation is re-executed before it is reported
                oimp2 = G.run_script(impl, s)
                vs2, resolved = _judge(case, s, oimp2, lambda i: G.run_script(refs[i], s), plog)
                if {v[1] for v in vs} != {v[1] for v in vs2}:
                    t.extra["unconfirmed_mismatches"] = t.extra.get("unconfirmed_mismatches", 0) + 1
                    vs = [v for v in vs2 if v[1] in {x[1] for x in vs}]
                    oimp = oimp2
            t.case((case, s), oimp.key(), nt_prog or G.script_nontrivial(s), f"{case[0].split('/')[0]}:{oimp.kind()}" + (":dontcare" if resolved else ""), steps=len(s) * (1 + len(cache)), evaluations=1 + len(cache))
            for rule, sig, detail in vs:
                t.violation(rule, f"{case[0]} main={case[1]!r} cfg={case[2]!r} script=[{G.script_str(s)}] {detail}", sig, case=G.to_jsonable(case), script=G.to_jsonable(s))
            if any(v[0] == "differs-from-try-statement" for v in vs):
                continue
            if oimp.alive:
                stack.append((s, oimp.log))


# ---- finalize_decorator: the same decorated function used k times ------------------------------------


class _Holder:
    """The cleanup callable outlives one execution of the decorated plan: it logs to whatever Env is current."""

    env = None


class _CallableObject:
    def __init__(self, f):
        self._f = f

    def __call__(self):
        return self._f()


def _reuse_cleanup(holder, fin, form):
    """The cleanup callable handed to finalize_decorator (ONE object for all uses) in one of the REUSE_FORMS."""
    from bluesky.utils import Msg

    if form in ("genfunc", "callable-object"):
        f = G.compile_program(fin, "f")

        def arm():
            holder.env.rec("F-enter")
            return (yield from f(holder.env))

        return arm if form == "genfunc" else _CallableObject(arm)
    tags = ["f0"] if fin == Y else ["f0", "f1"]

    def listfn():
        return [Msg(t, None) for t in tags]  # fresh, unregistered messages: labelled in first-seen order by each use's Env

    if form == "listfn":
        return listfn
    return lambda: iter(listfn())


def _reuse_ref_final(holder, fin, form):
    """generator FUNCTION with the meaning of the cleanup callable, for the plain-statement reference."""
    c = _reuse_cleanup(holder, fin, form)
    if form in ("genfunc", "callable-object"):
        return c

    def gen():
        for m in c():  # noqa: UP028 - a plain loop: responses and thrown exceptions are not delegated to a list iterator
            yield m

    return gen


def _count_f0(obs):
    return sum(1 for st in obs.steps if st[0] == "yield" and st[1][2] == "f0")


class _Reuse:
    """One (main, cleanup, form): runs of the real decorator with ONE decoration per execution, references per single use."""

    def __init__(self, main, fin, form):
        self.main, self.fin, self.form = main, fin, form
        self.fm = G.compile_program(main, "a")
        self.case1 = ("finalize_decorator", main, (fin,))
        self.count_f = None if form in ("genfunc", "callable-object") else _count_f0
        self._refcache = {}

    def run_impl(self, scripts):
        """scripts: the k scripts, one per use (already drained where wanted) -> list of Obs, one per use."""
        import bluesky.preprocessors as bpp

        holder = _Holder()
        decorated = bpp.finalize_decorator(_reuse_cleanup(holder, self.fin, self.form))(self.fm)
        out = []
        for s in scripts:
            env = G.Env()
            holder.env = env
            out.append(G.run_script(decorated, s, env))
        return out

    def run_ref(self, script, variant=0, cached=True):
        """The reference has no state: every use is a fresh try/finally around a fresh plan with a fresh cleanup."""
        key = (script, variant)
        o = self._refcache.get(key) if cached else None
        if o is None:
            holder = _Holder()
            final = _reuse_ref_final(holder, self.fin, self.form)

            def factory(env):
                holder.env = env
                return ref_finalize(self.fm(env), final, *VARIANTS_FIN[variant])

            o = G.run_script(factory, script)
            if cached:
                if len(self._refcache) > 20000:
                    self._refcache.clear()
                self._refcache[key] = o
        return o

    def plog(self, obs):
        """impl log of a prefix, with the cleanup entries made visible for the forms that cannot log them"""
        if self.count_f is None:
            return obs.log
        return obs.log + (("F-enter",),) * self.count_f(obs)

    def histories(self, depth):
        """Leaves of the adaptive tree (on the reference) of depth <= ``depth``, each then drained with send(None)."""
        out = []
        stack = [()]
        while stack:
            script = stack.pop()
            for a in G.FIRST_ACTIONS if not script else G.ACTIONS:
                s = script + (a,)
                o = self.run_ref(s)
                if not o.alive:
                    out.append(s)
                elif len(s) >= depth:
                    out.append(s + (G.SEND_NONE,) * DRAIN)
                else:
                    stack.append(s)
        return sorted(out, key=repr)

    def judge(self, hist, script, obs, prefix_log, cached=True):
        """Every use against the reference.  -> (violations [(rule, sig, detail)], resolved, n reference runs)"""
        k = len(hist) + 1
        for i, (s, o) in enumerate(zip(hist + (script,), obs)):
            last = i == k - 1
            if not last and o.alive:
                return [("harness", "drain-too-short", f"use {i + 1} still alive after the drain")], False, 0
            label = f"finalize_decorator/reuse|form={self.form}|use={i + 1}of{k}"
            eff = _effective(s, o)
            vs, resolved = _judge(self.case1, eff, o, lambda v, s=s: self.run_ref(s, v, cached), prefix_log if last else (), label=label, count_f=self.count_f)
            if not last:
                # the prefix log of a history use is not carried: its close-inside-the-cleanup don't-care is judged in the k=1 entry
                vs = [v for v in vs if v[0] != "cleanup-on-close"]
            if vs or last:
                return vs, resolved, i + 1
        return [], False, k


def _effective(script, obs):
    """the actions that were actually delivered (a drained history script ends with the generator)"""
    return script[: max(1, len(obs.steps))]


def _check_reuse(t, r, k, hdepth, depth):
    nt_prog = G.has(r.main, "Try")
    hs = r.histories(hdepth)
    for hist in itertools.product(hs, repeat=k - 1):
        case = ("finalize_decorator/reuse", r.main, (r.fin, r.form, hist))
        stack = [((), ())]
        while stack:
            script, plog = stack.pop()
            if len(script) >= depth:
                continue
            for a in G.FIRST_ACTIONS if not script else G.ACTIONS:
                s = script + (a,)
                obs = r.run_impl(hist + (s,))
                vs, resolved, _nref = r.judge(hist, s, obs, plog)
                if vs:
                    # every violation is re-executed before it is reported
                    obs2 = r.run_impl(hist + (s,))
                    vs2, resolved, _ = r.judge(hist, s, obs2, plog, cached=False)
                    if {v[1] for v in vs} != {v[1] for v in vs2}:
                        t.extra["unconfirmed_mismatches"] = t.extra.get("unconfirmed_mismatches", 0) + 1
                        vs = [v for v in vs2 if v[1] in {x[1] for x in vs}]
                        obs = obs2
                olast = obs[-1]
                if any(v[0] == "harness" for v in vs):
                    t.extra["caps_hit"] += 1
                    vs = []
                nt = nt_prog or G.script_nontrivial(s) or any(G.script_nontrivial(_effective(h, o)) or "F-enter" in [x[0] for x in r.plog(o)] for h, o in zip(hist, obs))
                t.case(
                    (case, s),
                    tuple(o.key() for o in obs),
                    nt,
                    f"finalize_decorator/reuse{k}:{olast.kind()}" + (":dontcare" if resolved else ""),
                    steps=sum(len(o.steps) for o in obs) + len(s),
                    evaluations=k + 1,
                )
                for rule, sig, detail in vs:
                    t.violation(rule, f"finalize_decorator used {k}x form={r.form} main={r.main!r} cleanup={r.fin!r} history=[{'; '.join(G.script_str(_trim(h)) for h in hist)}] script=[{G.script_str(s)}] {detail}", sig, case=G.to_jsonable(case), script=G.to_jsonable(s))
                if vs:
                    continue
                if olast.alive:
                    stack.append((s, r.plog(olast)))


def _trim(h):
    """history script without the drain tail beyond one send (for messages only)"""
    n = len(h)
    while n > 1 and h[n - 1] == G.SEND_NONE and h[n - 2] == G.SEND_NONE and n > len(h) - DRAIN + 1:
        n -= 1
    return h[:n]


def _reuse_cfgs(aux):
    out = []
    for form in REUSE_FORMS:
        for fin in aux if form in ("genfunc", "callable-object") else AUX_LIST:
            out.append((fin, form))
    return out


def _reuse_units(tier):
    """every (layer, main index, cleanup, form) of the tier, in a fixed order"""
    out = []
    for li, (n, _k, _hd, _d, aux) in enumerate(REUSE_BOUNDS[tier]):
        for mi in range(len(_mains(n))):
            for fin, form in _reuse_cfgs(aux):
                out.append((li, mi, fin, form))
    return out


def _cases(item):
    n, ex, d, aux = BOUNDS[item["tier"]][item["kind"]][item["layer"]]
    mains = _mains(n, ex)[item["lo"] : item["hi"]]
    if item["kind"] == "fin":
        for main in mains:
            for fin in aux:
                for entry in ("finalize_wrapper/function", "finalize_wrapper/instance", "finalize_decorator"):
                    yield (entry, main, (fin,)), d
    else:
        for main in mains:
            for cfg in _cont_configs(aux):
                yield ("contingency_wrapper", main, cfg), d


def run_item(item):
    t = G.Tally()
    if item["kind"] == "reuse":
        layers = REUSE_BOUNDS[item["tier"]]
        units = _reuse_units(item["tier"])[item["lo"] : item["hi"]]
        for li, mi, fin, form in units:
            n, k, hd, d, _aux = layers[li]
            _check_reuse(t, _Reuse(_mains(n)[mi], fin, form), k, hd, d)
        li, mi, fin, form = units[0]
        t.sample({"entry": "finalize_decorator/reuse", "uses": layers[li][1], "main": repr(_mains(layers[li][0])[mi]), "cfg": repr((fin, form))})
        return t.result()
    first = None
    for case, d in _cases(item):
        first = first or case
        _check(t, case, d, G.has(case[1], "Try"))
    t.sample({"entry": first[0], "main": repr(first[1]), "cfg": repr(first[2])})
    return t.result()


def replay(payload):
    G.quiet()
    case = G.from_jsonable(payload["case"])
    script = G.from_jsonable(payload["script"])
    if case[0] == "finalize_decorator/reuse":
        fin, form, hist = case[2]
        r = _Reuse(case[1], fin, form)
        obs = r.run_impl(hist + (script,))
        plog = r.plog(r.run_impl(hist + (script[:-1],))[-1]) if len(script) > 1 else ()
        vs, _, nref = r.judge(hist, script, obs, plog, cached=False)
        out = []
        for rule, sig, d in vs:
            i = nref - 1
            oref = r.run_ref((hist + (script,))[i], cached=False)
            uses = "\n".join(f"use {j + 1}: impl {o.steps!r}\n       {o.log!r}" for j, o in enumerate(obs))
            out.append({"rule": rule, "signature": sig, "detail": f"{d}\n{uses}\nref (use {i + 1}): {oref.steps!r}\n       {oref.log!r}\nmain:\n{G.pretty(case[1])}"})
        return out
    impl, refs = _factories(case)
    oimp = G.run_script(impl, script)
    plog = G.run_script(impl, script[:-1]).log if len(script) > 1 else ()
    vs, _ = _judge(case, script, oimp, lambda i: G.run_script(refs[i], script), plog)
    oref = G.run_script(refs[0], script)
    return [{"rule": r, "signature": s, "detail": f"{d}\nimpl: {oimp.steps!r}\n      {oimp.log!r}\nref:  {oref.steps!r}\n      {oref.log!r}\nmain:\n{G.pretty(case[1])}"} for r, s, d in vs]
