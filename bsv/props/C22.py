"""C22 - finalize_wrapper / finalize_decorator / contingency_wrapper behave like try/except/else/finally.

G engine: wrapped programs x cleanup / except / else programs x adaptive driver scripts; library wrapper
vs reference generators written with the plain Python statements (cleanup skipped when closed).
"""

import itertools

from bsv.explore import genproto as G

ID = "C22"
LEVEL = "model_checking"
ENGINE = "G"

Y = ("Y",)
R3 = ("Raise", 3)
AUX_FULL = (Y, R3, ("Seq", (Y, Y)), ("Seq", (Y, R3)))  # cleanup/except/else programs, <= 2 nodes, may yield, may raise
AUX_SMALL = (Y, ("Seq", (Y, R3)))
MAIN_LEAVES = (("Y",), ("Raise", 2), ("Reraise",), ("Ret", 7))
# tier -> layers (main nodes, exactly?, script depth, arm programs); the layers of one kind are disjoint in the wrapped program
BOUNDS = {
    "quick": {"fin": [(4, False, 4, AUX_SMALL)], "cont": [(3, False, 4, AUX_SMALL)]},
    "thorough": {"fin": [(4, False, 5, AUX_FULL), (5, True, 3, AUX_FULL)], "cont": [(3, False, 4, AUX_FULL), (4, True, 3, AUX_SMALL)]},
}
RULE = (
    "G: wrapped programs of the grammar {Y, YF, Seq, Try(except Exception|BaseException/else/finally), Raise, Reraise, Return} with <= N nodes x "
    "cleanup / except / else programs with <= 2 nodes from {Y, raise E3, Y;Y, Y;raise E3} x every adaptive driver script of depth <= D over "
    "{send(None), send(1), throw(E1), throw(RequestStop), throw(RequestAbort), throw(PlanHalt), close(); close() first}; entry points: "
    "finalize_wrapper (final_plan as generator function and as instance), finalize_decorator, contingency_wrapper (except/else/final each "
    "absent or present, auto_raise both).  quick: finalize N<=4,D=4 and contingency N<=3,D=4, arms from {Y, Y;raise}; thorough: finalize N<=4,D=5 and "
    "N=5,D=3, contingency N<=3,D=4 with all four arm programs and N=4,D=3 with arms from {Y, Y;raise}.  Oracle: identical interaction trace + program logs against a reference generator "
    "written with plain try/except/else/finally in which cleanup is skipped on GeneratorExit; plus counters: cleanup body entered at most "
    "once, exactly once on every return/raise exit of a script without close/PlanHalt, except and else bodies never both.  Don't-cares "
    "(either reading accepted): whether a thrown PlanHalt counts as 'closed'; whether cleanup runs when close() lands inside the "
    "except/else plan (the wrapped plan has ended, the wrapper is being closed).  non-trivial = script contains a throw/close or the "
    "wrapped program contains a Try"
)
ASSUMPTIONS = [
    "except plans return None (the value returned under auto_raise=False after a handled exception is not fixed by the statement)",
    "pause_for_debug=False",
    "exception __context__ is not compared",
]


def worker_init():
    G.quiet()


def _mains(n, exact=False):
    return G.programs(n, leaves=MAIN_LEAVES, exact=exact)


def _cont_configs(aux):
    opts = (None,) + tuple(aux)
    return [(x, l, f, ar) for x, l, f in itertools.product(opts, opts, opts) for ar in (True, False) if not (x is None and l is None and f is None)]


def describe(tier):
    b = BOUNDS[tier]
    return {
        "bounds": {
            "finalize": [{"program_size": ("=" if ex else "<=") + str(n), "depth": d, "programs": len(_mains(n, ex)), "cleanup_programs": len(aux), "forms": 3} for n, ex, d, aux in b["fin"]],
            "contingency": [{"program_size": ("=" if ex else "<=") + str(n), "depth": d, "programs": len(_mains(n, ex)), "configs": len(_cont_configs(aux))} for n, ex, d, aux in b["cont"]],
        }
    }


def items(tier, seed):
    import bluesky.preprocessors  # noqa: F401

    out = []
    for kind, size in (("fin", 25 if tier == "quick" else 40), ("cont", 3)):
        for li, (n, ex, _d, _aux) in enumerate(BOUNDS[tier][kind]):
            total = len(_mains(n, ex))
            out.extend({"tier": tier, "kind": kind, "layer": li, "lo": lo, "hi": min(total, lo + size)} for lo in range(0, total, size))
    return out


# ---- arms -------------------------------------------------------------------------------------


def _arm(env, prog, prefix, marker, takes_exc=False):
    """generator FUNCTION for an arm; logs its entry so that 'entered exactly once' can be counted."""
    if prog is None:
        return None
    f = G.compile_program(prog, prefix)
    if takes_exc:

        def arm(e):
            env.rec(marker, env.canon(e))
            return (yield from f(env))

    else:

        def arm():
            env.rec(marker)
            return (yield from f(env))

    return arm


# ---- references (plain statements) ----------------------------------------------------------------


def _is_close(e, halt_is_close):
    return isinstance(e, GeneratorExit) and (halt_is_close or type(e) is GeneratorExit)


def ref_finalize(plan, final, halt_is_close):
    try:
        ret = yield from plan
    except BaseException as e:
        if _is_close(e, halt_is_close):
            raise
        yield from final()
        raise
    yield from final()
    return ret


def ref_contingency(plan, exc, els, final, auto_raise, halt_is_close, skip_in_handlers):
    closed = False
    try:
        try:
            try:
                ret = yield from plan
            except GeneratorExit as e:
                if _is_close(e, halt_is_close):
                    closed = True
                raise
            except Exception as e:
                if exc is None:
                    raise
                ret = yield from exc(e)
                if auto_raise:
                    raise
                return ret
            else:
                if els is not None:
                    yield from els()
        except GeneratorExit as e:
            # GeneratorExit that arrived while the except / else plan was running
            if skip_in_handlers and _is_close(e, halt_is_close):
                closed = True
            raise
    finally:
        if not closed and final is not None:
            yield from final()
    return ret


# ---- cases ----------------------------------------------------------------------------------------

VARIANTS_FIN = ((True,), (False,))
VARIANTS_CONT = ((True, False), (True, True), (False, False), (False, True))


def _factories(case):
    """case = (entry, main, cfg) -> (impl factory, [reference factories, primary first])"""
    import bluesky.preprocessors as bpp

    entry, main, cfg = case
    fm = G.compile_program(main, "a")
    if entry in ("finalize_wrapper/function", "finalize_wrapper/instance", "finalize_decorator"):
        (fin,) = cfg

        def impl(env):
            arm = _arm(env, fin, "f", "F-enter")
            if entry == "finalize_wrapper/function":
                return bpp.finalize_wrapper(fm(env), arm)
            if entry == "finalize_wrapper/instance":
                return bpp.finalize_wrapper(fm(env), arm())
            return bpp.finalize_decorator(arm)(fm)(env)

        refs = [(lambda env, v=v: ref_finalize(fm(env), _arm(env, fin, "f", "F-enter"), *v)) for v in VARIANTS_FIN]
        return impl, refs
    x, l, f, ar = cfg

    def arms(env):
        return _arm(env, x, "x", "X-enter", True), _arm(env, l, "l", "L-enter"), _arm(env, f, "f", "F-enter")

    def impl(env):
        ax, al, af = arms(env)
        return bpp.contingency_wrapper(fm(env), except_plan=ax, else_plan=al, final_plan=af, auto_raise=ar)

    def mkref(v):
        def ref(env):
            ax, al, af = arms(env)
            return ref_contingency(fm(env), ax, al, af, ar, *v)

        return ref

    return impl, [mkref(v) for v in VARIANTS_CONT]


def _cfg_str(case):
    entry, main, cfg = case
    if entry == "contingency_wrapper":
        x, l, f, ar = cfg
        return f"except={'y' if x else 'n'}|else={'y' if l else 'n'}|final={'y' if f else 'n'}|auto_raise={ar}"
    return "final=y"


def _where(obs):
    """Which arm was running when the last action was delivered (from the impl log)."""
    for rec in reversed(obs.log):
        if rec[0] in ("F-enter", "X-enter", "L-enter"):
            return {"F": "final", "X": "except", "L": "else"}[rec[0][0]]
    return "main"


def _judge(case, script, oimp, orefs_fn, prefix_log=()):
    out = []
    entry = case[0]
    special = any(a == G.CLOSE or a == G.THROW_HALT for a in script)
    oref = orefs_fn(0)
    matched = oimp.key() == oref.key()
    resolved = False
    if not matched and special:
        nvar = len(VARIANTS_CONT) if entry == "contingency_wrapper" else len(VARIANTS_FIN)
        for i in range(1, nvar):
            if oimp.key() == orefs_fn(i).key():
                matched = resolved = True
                break
    last = script[-1]
    lastname = last[0] + (":" + str(last[1]) if len(last) > 1 else "")
    if not matched:
        what = "steps" if oref.steps != oimp.steps else "log"
        out.append(
            (
                "differs-from-try-statement",
                f"trace|{entry}|{_cfg_str(case)}|last={lastname}@{_where(oref)}|ref={oref.kind()}|impl={oimp.kind()}|diff={what}",
                f"ref={oref.steps[-2:]!r} log={oref.log[-3:]!r} impl={oimp.steps[-2:]!r} log={oimp.log[-3:]!r}",
            )
        )
    # counters on the implementation's own log
    nf = sum(1 for r in oimp.log if r[0] == "F-enter")
    nx = sum(1 for r in oimp.log if r[0] == "X-enter")
    nl = sum(1 for r in oimp.log if r[0] == "L-enter")
    has_final = case[2][0] is not None if entry != "contingency_wrapper" else case[2][2] is not None
    if nf > 1 or nx > 1 or nl > 1 or (nx and nl):
        out.append(("arm-entered-twice", f"count|{entry}|{_cfg_str(case)}|F={nf}|X={nx}|L={nl}", f"cleanup entered {nf}x, except {nx}x, else {nl}x"))
    elif has_final and not special and oimp.steps[-1][0] in ("return", "raise") and nf != 1:
        out.append(("cleanup-not-run", f"count|{entry}|{_cfg_str(case)}|F=0|exit={oimp.kind()}", f"exit {oimp.steps[-1]!r} without running the cleanup plan"))
    elif has_final and oimp.steps[-1] == ("closed", None) and not any(r[0] in ("F-enter", "X-enter", "L-enter") for r in prefix_log) and nf != 0:
        # (a wrapped plan that itself yields or raises while being closed has not been 'closed': Python reports an error, try/finally runs)
        out.append(("cleanup-on-close", f"count|{entry}|{_cfg_str(case)}|F={nf}|close@main", "cleanup plan entered although the wrapped plan was closed"))
    return out, resolved


def _check(t, case, depth, nt_prog):
    impl, refs = _factories(case)
    stack = [((), ())]
    while stack:
        script, plog = stack.pop()
        if len(script) >= depth:
            continue
        for a in G.FIRST_ACTIONS if not script else G.ACTIONS:
            s = script + (a,)
            oimp = G.run_script(impl, s)
            cache = {}

            def oref_fn(i, s=s, cache=cache):
                if i not in cache:
                    cache[i] = G.run_script(refs[i], s)
                return cache[i]

            vs, resolved = _judge(case, s, oimp, oref_fn, plog)
            if vs:
                # every violation is re-executed before it is reported
                oimp2 = G.run_script(impl, s)
                vs2, resolved = _judge(case, s, oimp2, lambda i: G.run_script(refs[i], s), plog)
                if {v[1] for v in vs} != {v[1] for v in vs2}:
                    t.extra["unconfirmed_mismatches"] = t.extra.get("unconfirmed_mismatches", 0) + 1
                    vs = [v for v in vs2 if v[1] in {x[1] for x in vs}]
                    oimp = oimp2
            t.case((case, s), oimp.key(), nt_prog or G.script_nontrivial(s), f"{case[0].split('/')[0]}:{oimp.kind()}" + (":dontcare" if resolved else ""), steps=len(s) * (1 + len(cache)), evaluations=1 + len(cache))
            for rule, sig, detail in vs:
                t.violation(rule, f"{case[0]} main={case[1]!r} cfg={case[2]!r} script=[{G.script_str(s)}] {detail}", sig, case=G.to_jsonable(case), script=G.to_jsonable(s))
            if any(v[0] == "differs-from-try-statement" for v in vs):
                continue
            if oimp.alive:
                stack.append((s, oimp.log))


def _cases(item):
    n, ex, d, aux = BOUNDS[item["tier"]][item["kind"]][item["layer"]]
    mains = _mains(n, ex)[item["lo"] : item["hi"]]
    if item["kind"] == "fin":
        for main in mains:
            for fin in aux:
                for entry in ("finalize_wrapper/function", "finalize_wrapper/instance", "finalize_decorator"):
                    yield (entry, main, (fin,)), d
    else:
        for main in mains:
            for cfg in _cont_configs(aux):
                yield ("contingency_wrapper", main, cfg), d


def run_item(item):
    t = G.Tally()
    first = None
    for case, d in _cases(item):
        first = first or case
        _check(t, case, d, G.has(case[1], "Try"))
    t.sample({"entry": first[0], "main": repr(first[1]), "cfg": repr(first[2])})
    return t.result()


def replay(payload):
    G.quiet()
    case = G.from_jsonable(payload["case"])
    script = G.from_jsonable(payload["script"])
    impl, refs = _factories(case)
    oimp = G.run_script(impl, script)
    plog = G.run_script(impl, script[:-1]).log if len(script) > 1 else ()
    vs, _ = _judge(case, script, oimp, lambda i: G.run_script(refs[i], script), plog)
    oref = G.run_script(refs[0], script)
    return [{"rule": r, "signature": s, "detail": f"{d}\nimpl: {oimp.steps!r}\n      {oimp.log!r}\nref:  {oref.steps!r}\n      {oref.log!r}\nmain:\n{G.pretty(case[1])}"} for r, s, d in vs]
