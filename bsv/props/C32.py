"""C32 - RunEngineSimulator.simulate_plan replays plans faithfully; check_limits raises exactly on out-of-limit sets.

G engine (programs of the grammar, driven by the simulator instead of a script) x every handler set up to a
bound; S for check_limits / check_limits_async over set-plans and limit grids.
"""

import itertools

from bsv.explore import genproto as G

ID = "C32"
LEVEL = "model_checking"
ENGINE = "G"
# tier -> layers (program nodes <= n, handler-set sizes hmin..hmax); the layers of a tier are disjoint in the handler-set size
BOUNDS = {"quick": [(3, 0, 2)], "thorough": [(4, 0, 2), (3, 3, 3)]}
LEAVES = (("Y", "read", "d1"), ("Y", "read", "d2"), ("Y", "set", "d1"), ("Y", "stage", "d1"), ("Y", "null"), ("Raise", 2), ("Ret", 7))
CMDSPECS = ("read", ("read", "set"), "unstage")  # 'unstage' (a plain string) must not match the 'stage' messages of the plans
FILTERS = (None, "name:d1", "pred:d2")
INDEXES = (0, "end")
VALUESETS = ((0, {}, False), ("a", "b", "c"))
RULE = (
    "G: every plan program with <= N nodes over messages {read d1, read d2, set d1, stage d1, null} + raise + return, x every "
    "ordered handler set of <= H handlers (quick: N=3,H<=2; thorough: N=4,H<=2 plus N=3,H=3) from {commands 'read' | ['read','set'] | 'unstage' (never yielded; contains the yielded 'stage')} x {no filter, obj-name filter, "
    "predicate} x {inserted at index 0, at END}, handler results falsy (0, {}, False by position) and truthy; oracle: simulate_plan returns "
    "exactly the yielded Msg objects in order; each yield receives the result of the first matching handler in list order (index 0 = newest "
    "first; END = appended, as add_handler documents) else None; return_value = the plan's return value (and is replaced by the next "
    "plan's).  S: check_limits_async on every plan of <= 3 messages over {set dA v, set dB v (async check_value), set dN v (no check_value), "
    "read dA}, v in {-1,0,1,2}, limits of dA in {(0,1),(-1,2),(0,0)}, and check_limits (through the bluesky event loop) on every plan of "
    "<= 2 messages: raises iff some set on a limit-checked device is outside its limits; non-trivial = at least one handler matched some "
    "message / at least one set is out of limits"
)
ASSUMPTIONS = [
    "what simulate_plan does when the plan raises is not stated: the exception is only classified",
    "'newest matching handler wins' is read as list order once index=END is used (the documented meaning of END)",
]


def worker_init():
    G.quiet()


class Dev:
    parent = None

    def __init__(self, name):
        self.name = name

    def __repr__(self):
        return self.name


D = {"d1": Dev("d1"), "d2": Dev("d2")}


def _mkmsg(env, tag, cmd, objname):
    from bluesky.utils import Msg

    m = Msg(cmd or "null", D.get(objname) if objname else None, tag)
    env.aux.setdefault("made", []).append(m)
    return m


def _progs(n):
    return [p for p in G.programs(n, leaves=LEAVES, catch=("E",))]


def _handler_specs():
    return [(c, f, i) for c in CMDSPECS for f in FILTERS for i in INDEXES]


def _handler_sets(hmin, hmax):
    specs = _handler_specs()
    out = []
    for k in range(hmin, hmax + 1):
        out.extend(itertools.product(range(len(specs)), repeat=k))
    return out


def describe(tier):
    return {
        "bounds": {
            "layers": [{"program_size": n, "programs": len(_progs(n)), "handlers": [a, b], "handler_sets": len(_handler_sets(a, b)) * len(VALUESETS)} for n, a, b in BOUNDS[tier]],
            "limit_plans": len(_limit_cases()),
        }
    }


def items(tier, seed):
    import bluesky.simulators  # noqa: F401

    out = []
    for li, (n, a, b) in enumerate(BOUNDS[tier]):
        total = len(_progs(n))
        size = 8 if b <= 2 else 1
        out.extend({"tier": tier, "kind": "sim", "layer": li, "lo": lo, "hi": min(total, lo + size)} for lo in range(0, total, size))
    lim = _limit_cases()
    out.extend({"tier": tier, "kind": "lim", "lo": lo, "hi": min(len(lim), lo + 2500)} for lo in range(0, len(lim), 2500))
    return out


# ---- part A: simulate_plan ----------------------------------------------------------------------------


def _filter(spec):
    if spec is None:
        return None
    if spec.startswith("name:"):
        return spec[5:]
    name = spec[5:]
    return lambda msg: msg.obj is not None and msg.obj.name == name


def _matches(spec, msg):
    """Reference matching rule, written from the add_handler docstring."""
    cmds, filt, _ = spec
    cmds = (cmds,) if isinstance(cmds, str) else cmds
    if msg.command not in cmds:
        return False
    if filt is None:
        return True
    return msg.obj is not None and msg.obj.name == filt[5:]


def _order(hset, values):
    """Reference handler list: index 0 prepends, END appends."""
    specs = _handler_specs()
    order = []
    for pos, si in enumerate(hset):
        if specs[si][2] == "end":
            order.append((specs[si], values[pos]))
        else:
            order.insert(0, (specs[si], values[pos]))
    return order


def _first_match(order, msg):
    for spec, v in order:
        if _matches(spec, msg):
            return True, v
    return False, None


def _reference_run(prog, order):
    """Drive the bare program by hand with the reference responses -> (outcome, return value, log, any handler matched)."""
    env = G.Env(mkmsg=_mkmsg)
    gen = G.compile_program(prog)(env)
    matched = False
    try:
        m = gen.send(None)
        while True:
            hit, v = _first_match(order, m)
            matched = matched or hit
            m = gen.send(v)
    except StopIteration as e:
        return "returned", e.value, tuple(env.log), matched
    except G.E2:
        return "raised", None, tuple(env.log), matched


def _sim_case(prog, hset, values):
    """-> (violations [(rule, shape, detail)], outcome class, nontrivial, key)"""
    from bluesky.simulators import END, RunEngineSimulator

    specs = _handler_specs()
    sim = RunEngineSimulator()
    for pos, si in enumerate(hset):
        cmds, filt, index = specs[si]
        sim.add_handler(list(cmds) if not isinstance(cmds, str) else cmds, (lambda msg, v=values[pos]: v), _filter(filt), END if index == "end" else 0)
    order = _order(hset, values)
    ref_outcome, ref_ret, ref_log, matched = _reference_run(prog, order)
    env = G.Env(mkmsg=_mkmsg)
    gen = G.compile_program(prog)(env)
    vs = []
    shape = f"handlers={len(hset)}|end-used={any(specs[si][2] == 'end' for si in hset)}|falsy={values[0] == 0}"
    try:
        msgs = sim.simulate_plan(gen)
    except G.E2:
        if ref_outcome != "raised" or tuple(env.log) != ref_log:
            vs.append(("wrong-response", shape + "|plan-raised", f"plan log {tuple(env.log)!r} != reference {ref_log!r}"))
        return vs, "plan-raised", matched, ("raised", tuple(env.log))
    except Exception as e:  # noqa: BLE001
        return [("simulator-raised", type(e).__name__, f"{type(e).__name__}: {e}")], "simulator-raised", matched, ("err", type(e).__name__)
    made = env.aux.get("made", [])
    if len(msgs) != len(made) or any(a is not b for a, b in zip(msgs, made)):
        vs.append(("messages-differ", f"returned={len(msgs)}|yielded={len(made)}", f"returned {[m.command for m in msgs]} yielded {[m.command for m in made]}"))
    if tuple(env.log) != ref_log:
        got = [r for r in env.log if r[0] == "y<"]
        want = [r for r in ref_log if r[0] == "y<"]
        k = next((i for i, (a, b) in enumerate(zip(got, want)) if a != b), min(len(got), len(want)))
        vs.append(("wrong-response", shape, f"yield #{k}: plan received {got[k][2] if k < len(got) else '<nothing>'!r}, first matching handler gives {want[k][2] if k < len(want) else '<nothing>'!r}"))
    elif ref_outcome == "returned" and sim.return_value != ref_ret:
        vs.append(("return-value", f"expected={ref_ret}", f"return_value={sim.return_value!r}"))
    # a second plan on the same simulator replaces return_value and starts a fresh message list
    msgs2 = sim.simulate_plan(G.compile_program(("Y", "null"))(G.Env(mkmsg=_mkmsg)))
    if sim.return_value is not None or len(msgs2) != 1:
        vs.append(("second-plan", "", f"after a second plan: return_value={sim.return_value!r} messages={len(msgs2)}"))
    return vs, ("matched" if matched else "unmatched") + (":ret7" if ref_ret == 7 else ""), matched, ("ok", tuple(env.log), sim.return_value)


def _run_sim(t, item):
    n, hmin, hmax = BOUNDS[item["tier"]][item["layer"]]
    progs = _progs(n)[item["lo"] : item["hi"]]
    hsets = _handler_sets(hmin, hmax)
    for prog in progs:
        for hset in hsets:
            for vi, values in enumerate(VALUESETS):
                if not hset and vi:
                    continue
                vs, outcome, nt, key = _sim_case(prog, hset, values)
                t.case((prog, hset, vi), key, nt, outcome, steps=max(1, G.size(prog)))
                for rule, shape, detail in vs:
                    t.violation(rule, f"simulate_plan program={prog!r} handlers={[_handler_specs()[i] for i in hset]} values={values!r}: {detail}", f"{rule}|simulate_plan|{shape}", kind="sim", program=G.to_jsonable(prog), hset=list(hset), vi=vi)
    t.sample({"program": repr(progs[0]), "handler_sets": len(hsets)})


# ---- part B: check_limits ----------------------------------------------------------------------------------


class LimitError(ValueError):
    pass


class Lim(Dev):
    def __init__(self, name, lo, hi):
        super().__init__(name)
        self.lo, self.hi = lo, hi

    def check_value(self, v):
        if not (self.lo <= v <= self.hi):
            raise LimitError(f"{self.name}: {v} outside [{self.lo}, {self.hi}]")


class ALim(Lim):
    async def check_value(self, v):  # type: ignore[override]
        import asyncio

        await asyncio.sleep(0)
        if not (self.lo <= v <= self.hi):
            raise LimitError(f"{self.name}: {v} outside [{self.lo}, {self.hi}]")


VALUES = (-1, 0, 1, 2)
LIMITS_A = ((0, 1), (-1, 2), (0, 0))
LIMITS_B = (0, 1)


def _limit_msgs():
    out = [("read", "dA", None)]
    for d in ("dA", "dB", "dN"):
        for v in VALUES:
            out.append(("set", d, v))
    return out


def _limit_cases():
    alpha = _limit_msgs()
    cases = []
    for lim in LIMITS_A:
        for k in (1, 2, 3):
            for plan in itertools.product(range(len(alpha)), repeat=k):
                cases.append((lim, plan, "async"))
                if k <= 2:
                    cases.append((lim, plan, "sync"))
    return cases


_LOOP = {}


def _loops():
    """A private loop for check_limits_async and the 'bluesky event loop' in a daemon thread for check_limits."""
    if not _LOOP:
        import asyncio
        import threading

        from bluesky.run_engine import set_bluesky_event_loop

        _LOOP["own"] = asyncio.new_event_loop()
        bl = asyncio.new_event_loop()
        th = threading.Thread(target=bl.run_forever, daemon=True)
        th.start()
        set_bluesky_event_loop(bl)
        _LOOP["bluesky"] = bl
    return _LOOP


def _limit_case(lim, plan, mode):
    import warnings

    from bluesky.simulators import check_limits, check_limits_async
    from bluesky.utils import Msg

    alpha = _limit_msgs()
    devs = {"dA": Lim("dA", *lim), "dB": ALim("dB", *LIMITS_B), "dN": Dev("dN")}
    msgs = []
    out_of_limits = False
    for i in plan:
        cmd, d, v = alpha[i]
        msgs.append(Msg(cmd, devs[d], v) if cmd == "set" else Msg(cmd, devs[d]))
        if cmd == "set" and d != "dN" and not (devs[d].lo <= v <= devs[d].hi):
            out_of_limits = True
    loops = _loops()
    raised = None
    with warnings.catch_warnings():
        warnings.simplefilter("ignore")
        try:
            if mode == "async":
                loops["own"].run_until_complete(check_limits_async(iter(msgs)))
            else:
                check_limits(iter(msgs))
        except LimitError as e:
            raised = e
        except Exception as e:  # noqa: BLE001
            return [("check-limits-error", f"{mode}|{type(e).__name__}", f"{type(e).__name__}: {e}")], "error", out_of_limits
    vs = []
    if out_of_limits and raised is None:
        vs.append(("out-of-limits-not-reported", mode, f"limits dA={lim} dB={LIMITS_B} plan={[alpha[i] for i in plan]}: no exception"))
    if not out_of_limits and raised is not None:
        vs.append(("in-limits-rejected", mode, f"limits dA={lim} plan={[alpha[i] for i in plan]}: {raised}"))
    return vs, ("raises" if raised else "passes") + ":" + mode, out_of_limits


def _run_lim(t, item):
    cases = _limit_cases()[item["lo"] : item["hi"]]
    for lim, plan, mode in cases:
        vs, outcome, nt = _limit_case(lim, plan, mode)
        t.case(("lim", lim, plan, mode), outcome, nt, outcome, steps=len(plan))
        for rule, shape, detail in vs:
            t.violation(rule, f"check_limits[{mode}] {detail}", f"{rule}|check_limits|{shape}", kind="lim", lim=list(lim), plan=list(plan), mode=mode)
    t.sample({"limits": list(cases[0][0]), "plan": [_limit_msgs()[i] for i in cases[0][1]], "mode": cases[0][2]})


def run_item(item):
    t = G.Tally()
    if item["kind"] == "sim":
        _run_sim(t, item)
    else:
        _run_lim(t, item)
    return t.result()


def replay(payload):
    G.quiet()
    if payload["kind"] == "sim":
        vs, _, _, _ = _sim_case(G.from_jsonable(payload["program"]), tuple(payload["hset"]), VALUESETS[payload["vi"]])
        return [{"rule": r, "signature": f"{r}|simulate_plan|{s}", "detail": d} for r, s, d in vs]
    vs, _, _ = _limit_case(tuple(payload["lim"]), tuple(payload["plan"]), payload["mode"])
    return [{"rule": r, "signature": f"{r}|check_limits|{s}", "detail": d} for r, s, d in vs]
