"""C09 - a deferred pause takes effect exactly at the next checkpoint."""

from bsv.oracles import engine
from bsv.props import _x1
from bsv.props._x1 import spec

ID = "C09"
LEVEL = "model_checking"
RULE = (
    "X1: plans with checkpoints at spacing s in 1..4 over 6 tagged messages plus a checkpoint-free tail (scenario cpspace; also with rewindable switched off for the whole body), "
    "count2/scan2/tiny from the corpus; a deferred pause requested at every loop position (thorough: plus any second request "
    "during the 0.5 s grace sleep, bound 2). Oracle per accepted request: message trace up to and including the next checkpoint "
    "equals the reference trace, no message executes between that checkpoint and the 'paused' state, "
    "RE.deferred_pause_requested is True at every message in between and False at the first message after the pause, resume() "
    "replays nothing (whole trace == reference trace, no Msg object twice); no later checkpoint => the call returns normally, "
    "the flag is still True afterwards and False at the first message of the next plan; a deferred pause followed by a suspension (released by the environment) at every later position: the flag stays True through the suspension and its rewind and the engine pauses at the next checkpoint; "
    "non-trivial = the request was accepted while the engine was running"
)
ASSUMPTIONS = _x1.X1_ASSUMPTIONS

D = [("dpause",)]
DS = [("dpause",), ("suspend", "none"), ("@once", "dpause", "suspend")]  # one deferred pause and one suspension, either order
SECOND = [("dpause",), ("pause",), ("abort",), ("suspend", "none")]
SPECS = {
    "quick": [spec("cpspace", D, bound=1, s=s) for s in (1, 2, 3, 4)] + [spec("cpspace", D, bound=1, s=7, tail=0)] + [spec(k, D, bound=1) for k in ("count2", "scan2", "tiny")]
    + [spec("cpspace", DS, bound=2, s=2, n=4, tail=1)]
    + [spec("cpspace", D, bound=1, s=s, nr=1) for s in (2, 3)]  # the same with rewindable switched off for the whole body
    + [spec("cpspace", D, bound=2, s=2, n=4, tail=1)],  # two deferred pauses at every pair of positions
    "thorough": [spec("cpspace", D, bound=1, s=s, n=8, tail=t) for s in (1, 2, 3, 4, 9) for t in (0, 2)]
    + [spec(k, D, bound=1, a=a) for k in ("count2", "scan2", "tiny", "grid22s", "nested") for a in (0, 1)]
    + [spec("cpspace", SECOND, bound=2, s=2, n=4, tail=1)]
    + [spec("cpspace", D, bound=1, s=s, n=8, tail=t, nr=1) for s in (1, 2, 3, 4) for t in (0, 2)]
    + [spec(k, DS, bound=2, **kw) for k, kw in (("cpspace", {"s": 3, "n": 6, "tail": 2}), ("count2", {}), ("tiny", {"a": 1}))]
    + [spec(k, D, bound=2, **kw) for k, kw in (("cpspace", {"s": 3, "n": 6, "tail": 2}), ("cpspace", {"s": 1, "n": 4, "tail": 1}), ("count2", {}), ("tiny", {"a": 1}))],
}


def oracle(scn, obs, ref, schedule):
    out = []
    if obs.outcome != "ok":
        return out
    inj = schedule.get("injections", ())
    if len(inj) == 2 and inj[0][1][0] == "dpause" and inj[1][1][0] == "suspend" and not schedule.get("decisions") and not schedule.get("faults"):
        return _with_suspension(scn, obs)
    if len(inj) >= 2 and all(i[1][0] == "dpause" for i in inj) and not schedule.get("decisions") and not schedule.get("faults"):
        return _several(scn, obs, ref)
    if len(inj) != 1 or inj[0][1][0] != "dpause" or schedule.get("decisions") or schedule.get("faults"):
        return out  # the precise claims are made for a single deferred pause; mixed schedules are C07/C08's business
    tl = obs.timeline
    helper = obs.helpers[0] if obs.helpers else None
    if helper is None or helper[4] is not None:
        return out  # request refused (engine not in a pausable state): nothing to claim
    i_inj = next(i for i, t in enumerate(tl) if t[0] == "inject")
    if tl[i_inj][3] != "running":
        return out
    dpr = obs.extra["dpr"]
    ref_trace = engine.plan_trace(ref)
    trace = engine.plan_trace(obs)
    spans = engine.call_spans(obs)
    main = spans[0]
    c0, s0, r0 = main
    # messages that started executing after the request was acknowledged.  The request is acknowledged by a
    # coroutine that runs a few callbacks after the injection; use the flag itself to find that point.
    msg_idx_after = [t[1] for t in tl[i_inj:] if t[0] == "msg"]
    cp = next((k for k in msg_idx_after if obs.msgs[k].command == "checkpoint" and dpr[k]), None)
    probe_start = next((i for i, t in enumerate(tl) if t[0] == "call" and t[1] == "probe"), len(tl))
    if cp is not None and next(i for i, t in enumerate(tl) if t[0] == "msg" and t[1] == cp) < probe_start:
        i_cp = next(i for i, t in enumerate(tl) if t[0] == "msg" and t[1] == cp)
        # 1. unchanged up to and including the checkpoint
        if trace[: cp + 1] != ref_trace[: cp + 1]:
            out.append(("trace-changed-before-checkpoint", f"first {cp + 1} messages differ from the uninterrupted run"))
        # 2. pauses there, before any later message
        i_paused = next((i for i in range(i_cp, len(tl)) if tl[i][0] == "state" and tl[i][1] == "paused"), None)
        nxt = next((i for i in range(i_cp + 1, len(tl)) if tl[i][0] == "msg"), None)
        if i_paused is None:
            out.append(("no-pause-at-checkpoint", f"deferred pause pending at checkpoint #{cp} but the engine never paused"))
        elif nxt is not None and nxt < i_paused:
            out.append(("message-after-checkpoint-before-pause", f"{obs.msgs[tl[nxt][1]].command} executed between the checkpoint and the pause"))
        # 3. flag
        k0 = next(k for k in msg_idx_after if dpr[k])
        gap = [k for k in range(k0, cp + 1) if not dpr[k]]
        if gap:
            out.append(("flag-dropped-before-checkpoint", f"deferred_pause_requested False at message #{gap[0]} ({obs.msgs[gap[0]].command}) before the checkpoint"))
        if i_paused is not None:
            if c0["state_after"] == "paused" and c0.get("dpr_after"):
                out.append(("flag-still-set-after-pause", "deferred_pause_requested is True although the pause has been processed"))
            later = [k for k in msg_idx_after if k > cp]
            if later and dpr[later[0]]:
                out.append(("flag-still-set-after-pause", "deferred_pause_requested True at the first message after the pause"))
        # 4. resume replays nothing
        main_end = next((t[1] for t in tl[probe_start:] if t[0] == "msg"), len(obs.msgs))
        ids = [id(m) for m in obs.msgs[:main_end]]
        main_trace = trace[:main_end]
        if len(set(ids)) != len(ids):
            out.append(("replayed-after-deferred-pause", "a Msg object was executed twice"))
        if len(spans) > 1 and spans[1][0]["name"] == "resume" and spans[1][0]["exc"] is None:
            ref_main = ref_trace[: _ref_main_len(ref)]
            if main_trace != ref_main:
                out.append(("trace-differs-after-resume", f"{len(main_trace)} messages vs {len(ref_main)} in the uninterrupted run"))
    else:
        # no checkpoint follows: plan completes normally, flag stays pending until the next plan starts
        acked = any(dpr[k] for k in msg_idx_after) or c0.get("dpr_after")
        if not acked:
            return out
        if c0["exc"] is not None or c0["state_after"] != "idle":
            out.append(("no-later-checkpoint-but-not-completed", f"RE() ended {c0['outcome']} ({type(c0['exc']).__name__}) state {c0['state_after']}"))
        elif not c0.get("dpr_after"):
            out.append(("pending-flag-lost", "deferred pause requested after the last checkpoint: flag is False after the call returned"))
        pm = [t[1] for t in tl[probe_start:] if t[0] == "msg"]
        if pm and dpr[pm[0]]:
            out.append(("pending-flag-leaks-into-next-plan", "deferred_pause_requested still True at the first message of the next plan"))
        if any(t[0] == "state" and t[1] in ("pausing", "paused") for t in tl[probe_start:]):
            out.append(("stale-deferred-pause-fired-in-next-plan", "the next plan was paused by the previous call's deferred request"))
    return out


def _with_suspension(scn, obs):
    """A deferred pause, then a suspension (released by the environment): the request survives the suspension's rewind."""
    out = []
    tl = obs.timeline
    helper = obs.helpers[0] if obs.helpers else None
    if helper is None or helper[4] is not None:
        return out
    if any(r != "yes" for _k, _i, r in engine.interruptions(obs)):
        return out
    i_inj = next(i for i, t in enumerate(tl) if t[0] == "inject")
    if tl[i_inj][3] != "running":
        return out
    dpr = obs.extra["dpr"]
    probe_start = next((i for i, t in enumerate(tl) if t[0] == "call" and t[1] == "probe"), len(tl))
    after = [(i, t[1]) for i, t in enumerate(tl[:probe_start]) if t[0] == "msg" and i > i_inj]
    acked = next((n for n, (i, k) in enumerate(after) if dpr[k]), None)
    c0 = obs.calls[0]
    if acked is None:
        return out
    cpn = next((n for n in range(acked, len(after)) if obs.msgs[after[n][1]].command == "checkpoint"), None)
    if cpn is None:
        if c0["exc"] is None and c0["state_after"] == "idle" and not c0.get("dpr_after"):
            out.append(("pending-flag-lost", "deferred pause requested after the last checkpoint: flag is False after the call returned"))
        return out
    gap = [after[n][1] for n in range(acked, cpn + 1) if not dpr[after[n][1]]]
    if gap:
        out.append(("flag-dropped-before-checkpoint", f"deferred_pause_requested False at message #{gap[0]} ({obs.msgs[gap[0]].command}) before the next checkpoint (a suspension came in between)"))
    i_cp = after[cpn][0]
    i_paused = next((i for i in range(i_cp, len(tl)) if tl[i][0] == "state" and tl[i][1] == "paused"), None)
    nxt = next((i for i in range(i_cp + 1, len(tl)) if tl[i][0] == "msg"), None)
    if i_paused is None or (nxt is not None and nxt < i_paused):
        # a suspension that takes effect exactly at this checkpoint runs its helper first; the pause then happens at the
        # checkpoint... which has been consumed: accept only if the helper started right here
        if not (nxt is not None and obs.msgs[tl[nxt][1]].command == "_start_suspender"):
            out.append(("no-pause-at-checkpoint", f"deferred pause pending, then a suspension; at the next checkpoint (message #{after[cpn][1]}) the engine did not pause"))
    return out


def _several(scn, obs, ref):
    """Two (or more) deferred pauses, every pause resumed: each pause sits right after a checkpoint at which the flag was
    set, nothing is replayed, and a request made while one is already pending does not buy a second pause."""
    out = []
    tl = obs.timeline
    dpr = obs.extra["dpr"]
    probe_start = next((i for i, t in enumerate(tl) if t[0] == "call" and t[1] == "probe"), len(tl))
    main_end = next((t[1] for t in tl[probe_start:] if t[0] == "msg"), len(obs.msgs))
    ids = [id(m) for m in obs.msgs[:main_end]]
    if len(set(ids)) != len(ids):
        out.append(("replayed-after-deferred-pause", "a Msg object was executed twice although only deferred pauses were requested"))
    spans = engine.call_spans(obs)
    if all(c["exc"] is None or c["state_after"] == "paused" for c, _s, _r in spans) and spans and spans[-1][0]["state_after"] == "idle":
        trace = engine.plan_trace(obs)[:main_end]
        ref_main = engine.plan_trace(ref)[: _ref_main_len(ref)]
        if trace != ref_main:
            out.append(("trace-differs-after-resume", f"{len(trace)} messages vs {len(ref_main)} in the uninterrupted run (deferred pauses only, all resumed)"))
    # every pause directly follows a checkpoint that saw the flag
    last_msg = None
    n_paused = 0
    for i, t in enumerate(tl[:probe_start]):
        if t[0] == "msg":
            last_msg = t[1]
        elif t[0] == "state" and t[1] == "paused":
            n_paused += 1
            if last_msg is None or obs.msgs[last_msg].command != "checkpoint":
                out.append(("pause-not-at-checkpoint", f"paused after {obs.msgs[last_msg].command if last_msg is not None else 'no message'}"))
            elif not dpr[last_msg]:
                out.append(("pause-at-checkpoint-without-pending-request", f"checkpoint #{last_msg} saw deferred_pause_requested False but the engine paused"))
    # a checkpoint that sees the flag must be followed by a pause before the next message
    for i, t in enumerate(tl[:probe_start]):
        if t[0] == "msg" and obs.msgs[t[1]].command == "checkpoint" and dpr[t[1]]:
            nxt = next((j for j in range(i + 1, len(tl)) if tl[j][0] == "msg"), None)
            i_paused = next((j for j in range(i, len(tl)) if tl[j][0] == "state" and tl[j][1] == "paused"), None)
            if i_paused is None or (nxt is not None and nxt < i_paused):
                out.append(("no-pause-at-checkpoint", f"deferred pause pending at checkpoint #{t[1]} but the engine did not pause there"))
    accepted = sum(1 for h in obs.helpers if h[4] is None)
    if n_paused > accepted:
        out.append(("more-pauses-than-requests", f"{n_paused} pauses for {accepted} accepted deferred requests"))
    return out


def _ref_main_len(ref):
    tl = ref.timeline
    probe_start = next((i for i, t in enumerate(tl) if t[0] == "call" and t[1] == "probe"), len(tl))
    return next((t[1] for t in tl[probe_start:] if t[0] == "msg"), len(ref.msgs))


items, run_item, replay, describe = _x1.bind(SPECS, oracle)
