"""C14 - concurrent runs with different run keys stay independent."""

from bsv.oracles import engine
from bsv.oracles.docstream import check_docstream, runs_of
from bsv.oracles.seqnum import check_seqnum
from bsv.props import _x1
from bsv.props._x1 import spec

ID = "C14"
LEVEL = "model_checking"
RULE = (
    "X1 over generated plans: all 70 order-preserving interleavings of two 4-unit run bodies (open_run, checkpointed bundle, "
    "checkpointed bundle, close_run) under run keys k1/k2 (and None/k2), each detector's readings carrying a per-key marker; plus, for "
    "every interleaving position, an extra open_run of a key that is open at that point (the plan logs and swallows the rejection); "
    "keys assigned by NESTED set_run_key_wrapper calls for every ordered pair of distinct keys from {'k1','k2',0,'',(),False,1,0.0} (inner run inside the open outer run); pause->resume at every loop position of every interleaving, suspension on 10 of them (thorough: all, and two interruptions on 4). "
    "Oracle: per run DOCSTREAM and SEQNUM on its own documents, every event of run k carries only detector k's keys and values, "
    "no document references another run, the data per (run, seq_num) equal the uninterrupted execution and no call raises anything but RunEngineInterrupted; a duplicate open_run is "
    "answered with IllegalMessageSequence at that very yield and the runs' documents are those of the plan without the duplicate; "
    "non-trivial = both runs open at some moment and (an interruption took effect or a duplicate open was attempted)"
)
ASSUMPTIONS = _x1.X1_ASSUMPTIONS

MENU = [("pause",), ("suspend", "none")]
from bsv.scenarios.extra import KEYSW_KEYS  # noqa: E402

_KW = [(a, b) for a in range(len(KEYSW_KEYS)) for b in range(len(KEYSW_KEYS)) if KEYSW_KEYS[a] != KEYSW_KEYS[b]]
_ten = [0, 7, 19, 23, 34, 35, 46, 52, 61, 69]
SPECS = {
    "quick": [spec("keys", [], bound=0, il=i) for i in range(70)]
    + [spec("keys", [("pause",)], bound=1, il=i) for i in range(70)]
    + [spec("keys", [("suspend", "none")], bound=1, il=i) for i in _ten]
    + [spec("keys", [], bound=0, il=i, dup=j, ly=1, oe="s") for i in _ten for j in range(8)]
    + [spec("keys", MENU, bound=1, il=34, nokey=1)]
    + [spec("keysw", [], bound=0, ko=a, ki=b) for a, b in _KW]
    + [spec("keysw", [("pause",)], bound=1, ko=a, ki=b) for a, b in ((0, 1), (0, 2), (2, 0), (3, 4))],
    "thorough": [spec("keys", MENU, bound=1, il=i) for i in range(70)]
    + [spec("keys", MENU, bound=1, il=i, a=1) for i in _ten]
    + [spec("keys", MENU, bound=1, il=i, nokey=1) for i in _ten]
    + [spec("keys", [], bound=0, il=i, dup=j, ly=1, oe="s") for i in range(70) for j in range(8)]
    + [spec("keys", MENU, bound=1, il=i, dup=j, ly=1, oe="s") for i in (19, 35) for j in (2, 4, 6)]
    + [spec("keys", MENU, bound=2, il=i) for i in (0, 34, 35, 69)]
    + [spec("nested", MENU, bound=2)]
    + [spec("keysw", MENU, bound=1, ko=a, ki=b) for a, b in _KW],
}

_REF_NODUP = {}


def _main_docs(obs):
    ps = next((i for i, t in enumerate(obs.timeline) if t[0] == "call" and t[1] == "probe"), len(obs.timeline))
    n = sum(1 for t in obs.timeline[:ps] if t[0] == "doc")
    return obs.docs[:n]


def _canon_run(run):
    names = {uid: d.get("name") for uid, d in run["descriptors"].items()}
    evs = {}
    for e in run["events"]:
        evs[(names.get(e["descriptor"]), e["seq_num"])] = e["data"]
    stop = run["stop"]
    return (run["start"].get("key"), sorted((k, sorted(v.items())) for k, v in evs.items()), (stop or {}).get("exit_status"), sorted(((stop or {}).get("num_events") or {}).items()))


def oracle(scn, obs, ref, schedule):
    from bluesky.utils import IllegalMessageSequence

    out = []
    if obs.outcome != "ok":
        return out
    docs = _main_docs(obs)
    idle = [c["ndocs_drained"] for c in obs.calls if c.get("state_drained") == "idle" and c["name"] != "probe"]
    out.extend(check_docstream(docs, [min(n, len(docs)) for n in idle], schema=False))
    out.extend(check_seqnum(obs, len(docs)))
    runs = runs_of(docs)
    for ri, run in enumerate(runs):
        key = run["start"].get("key")
        marker = {"None": ("d1", 100.0), "k1": ("d1", 100.0), "k2": ("d2", 200.0), "outer": ("d1", 100.0), "inner": ("d2", 200.0)}.get(str(key))
        if marker is None:
            continue
        for e in run["events"]:
            if set(e["data"]) != {marker[0]}:
                out.append(("event-in-wrong-run", f"run key={key}: event with data keys {sorted(e['data'])}"))
            elif e["data"][marker[0]] != marker[1]:
                out.append(("event-value-from-other-run", f"run key={key}: {e['data']}"))
    # nested set_run_key_wrapper: both runs exist, complete, with their own events, whatever the (possibly falsy) keys are
    if scn.id == "keysw" and not schedule.get("injections"):
        c0 = obs.calls[0]
        if c0["exc"] is not None:
            out.append((f"nested-keys-call-raised:{type(c0['exc']).__name__}", f"RE() raised {type(c0['exc']).__name__}: {str(c0['exc'])[:120]}"))
        shape = sorted((str(r["start"].get("key")), len(r["events"]), (r["stop"] or {}).get("exit_status")) for r in runs)
        if c0["exc"] is None and shape != [("inner", 1, "success"), ("outer", 2, "success")]:
            out.append(("nested-keys-runs", f"runs (key, events, exit_status) = {shape}"))
    # duplicate open: rejected at that yield, other documents undisturbed
    if scn.params.get("dup") is not None and not schedule.get("injections"):
        ylog = obs.extra.get("ylog", [])
        dups = [(k, m, kind, v) for k, m, kind, v in ylog if m.command == "open_run" and m.kwargs.get("key") == "DUP"]
        for k, m, kind, v in dups:
            if kind != "exc" or not isinstance(v, IllegalMessageSequence):
                out.append(("duplicate-open-not-rejected", f"open_run of the already open key {m.run!r} at yield {k} answered with {kind} {type(v).__name__}"))
        if dups:
            from bsv.explore.bounded import execute

            p2 = {k: v for k, v in scn.params.items() if k != "dup"}
            keyp = repr(sorted(p2.items()))
            if keyp not in _REF_NODUP:
                _s, o2 = execute(scn.id, p2, {})
                _REF_NODUP[keyp] = [_canon_run(r) for r in runs_of(_main_docs(o2))]
            mine = [_canon_run(r) for r in runs if r["start"].get("key") != "DUP"]
            if any(r["start"].get("key") == "DUP" for r in runs):
                out.append(("duplicate-open-emitted-a-start", "a RunStart was emitted for the rejected open_run"))
            if mine != _REF_NODUP[keyp]:
                out.append(("duplicate-open-disturbed-runs", f"runs differ from the plan without the duplicate open: {mine} vs {_REF_NODUP[keyp]}"))
    # interruptions: same data as the uninterrupted execution
    if schedule.get("injections") and not engine.schedule_has(schedule, engine.TERMINATORS) and not schedule.get("decisions"):
        ok_calls = all(c["exc"] is None or type(c["exc"]).__name__ == "RunEngineInterrupted" for c in obs.calls)
        if ok_calls and any(t[0] == "plan_end" and t[1] == "returned" for t in obs.timeline):
            a = [_canon_run(r) for r in runs]
            b = [_canon_run(r) for r in runs_of(_main_docs(ref))]
            if a != b:
                out.append(("runs-differ-from-uninterrupted", f"{a} vs {b}"))
        if not ok_calls and not schedule.get("faults") and all(r == "yes" for _k, _i, r in engine.interruptions(obs)):
            # resumable interruptions alone never make a call fail (e.g. a rewind replaying messages into a run
            # that has been closed meanwhile); the uninterrupted execution of these plans raises nothing
            bad = next(c for c in obs.calls if c["exc"] is not None and type(c["exc"]).__name__ != "RunEngineInterrupted")
            if all(c["exc"] is None for c in ref.calls):
                infl = engine.inflight_commands(obs)
                out.append((f"call-raised-after-interruption:{type(bad['exc']).__name__}" + (f":inflight-{infl[0]}" if infl else ""), f"{bad['name']}() raised {type(bad['exc']).__name__}: {str(bad['exc'])[:140]}"))
    return out


items, run_item, replay, describe = _x1.bind(SPECS, oracle, chunk=40)
