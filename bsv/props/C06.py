"""C06 - devices are always left cleaned up when the RunEngine goes idle."""

from bsv.props import _x1
from bsv.props._x1 import spec

ID = "C06"
LEVEL = "model_checking"
RULE = (
    "X1: corpus plans with stage / set / kickoff / monitor / per-call and in-plan subscriptions, sync and async device flavours "
    "(so that requests land inside the engine's own clean-up), x {pause, deferred pause, abort, stop, halt, suspend} at every loop "
    "position and device faults (raise / failed status) at every ledger operation, x every post-pause decision. LEDGER-CLEAN at "
    "every return to idle, over the device operations since the previous idle point: every successful stage() is followed by an "
    "unstage() of that device and a device is not unstaged more often than it was staged (also for devices whose stage()/unstage() return a Status); a stop() follows the last set() of every moved device; a collect() follows the last kickoff() of "
    "every flyer; no callback is left subscribed on any signal; per-call and in-plan subscriptions receive nothing from the next "
    "call; non-trivial = behaviour digest differs from the reference run"
)
ASSUMPTIONS = _x1.X1_ASSUMPTIONS + [
    "stop() never fails, clear_sub() can fail only when a plan's 'unmonitor' message asks for it (not in the engine's own clean-up); an unstage() that the fault plan makes raise counts as an unstage attempt of that device",
]

F = ("raise", "fail")
_q = ["scan2", "cleanup", "bare", "fly1", "monitor1", "subs", "twomotors", "flyonly", "monitor2"]
SPECS = {
    "quick": [spec(k, bound=1, faults=F) for k in _q] + [spec(k, bound=1, a=1) for k in ("scan2", "bare", "twomotors")] + [spec("bare2", bound=1, faults=F)]
    + [spec("bare", [("pause",), ("abort",), ("suspend", "none")], bound=2)]  # pairs of requests on the engine-closed scenario
    + [spec(k, bound=1, faults=F, ss=1) for k in ("scan2", "cleanup", "bare2")],  # devices whose stage()/unstage() return a Status (ophyd-async flavour)
    "thorough": [spec(k, bound=1, faults=F, a=a) for k in _q + ["count2", "grid22s", "relscan2", "nested"] for a in (0, 1)]
    + [spec(k, bound=2, faults=F) for k in ("bare", "flyonly")]
    + [spec("twomotors", [("pause",), ("abort",), ("suspend", "none")], bound=2)],
}


def oracle(scn, obs, ref, schedule):
    out = []
    if obs.outcome != "ok":
        return out
    faulted = {int(i) for i in schedule.get("faults", {})}
    lo = 0
    prev_snap = None
    for c in obs.calls:
        snap = c.get("snap")
        if snap is None:
            continue
        if c.get("state_drained") != "idle":
            continue
        hi = snap["nops"]
        ops = [(i, dev, op) for (i, dev, op, _a, _s) in obs.ledger if lo <= i < hi]
        lo = hi
        devs = sorted({dev for _i, dev, _op in ops})
        for dev in devs:
            mine = [(i, op) for i, d, op in ops if d == dev]
            # staging: every successful stage is followed by an unstage
            bal = 0
            for i, op in mine:
                if op == "stage" and i not in faulted:
                    bal += 1
                elif op == "unstage":
                    bal = max(0, bal - 1)
            n_st = sum(1 for i, op in mine if op == "stage" and i not in faulted)
            n_un = sum(1 for i, op in mine if op == "unstage" and i not in faulted)
            if n_un > n_st and n_st:
                out.append(("unstaged-more-often-than-staged", f"{dev}: {n_st} successful stage(), {n_un} successful unstage() when {c['name']}() left the engine idle"))
            if bal:
                out.append(("left-staged", f"{dev}: {bal} stage() without a later unstage() when {c['name']}() left the engine idle"))
            # motion: a stop after the last set
            sets = [i for i, op in mine if op == "set"]
            if sets and not any(op == "stop" and i > sets[-1] for i, op in mine):
                out.append(("moved-not-stopped", f"{dev}: no stop() after its last set() when {c['name']}() left the engine idle"))
            # flyers: a collect attempt after the last kickoff
            kicks = [i for i, op in mine if op == "kickoff" and i not in faulted]
            if kicks and not any(op == "collect" and i > kicks[-1] for i, op in mine) and not _collect_msg_after(obs, dev, kicks[-1]):
                out.append(("kicked-off-not-collected", f"{dev}: no collect() after its last kickoff() when {c['name']}() left the engine idle"))
        for sig, cbs in snap["subs"].items():
            if cbs:
                out.append(("monitor-subscription-left", f"{sig}: {cbs} still subscribed when {c['name']}() left the engine idle"))
        if prev_snap is not None and prev_snap.get("scn") and snap.get("scn"):
            for k in ("percall", "inplan"):
                if snap["scn"][k] != prev_snap["scn"][k]:
                    out.append((f"temporary-subscription-survived:{k}", f"{k} callback of the previous call received {snap['scn'][k] - prev_snap['scn'][k]} documents from the next call"))
        prev_snap = snap
    return out


def _collect_msg_after(obs, dev, op_index):
    """Did the engine start processing a 'collect' message for this flyer after ledger op #op_index?

    (The statement accepts 'a collection attempted'; an attempt that was itself interrupted before it reached the
    device is still an attempt - the weakest reading.)
    """
    seen_op = False
    for t in obs.timeline:
        if t[0] == "dev" and t[4] == op_index:
            seen_op = True
        elif seen_op and t[0] == "msg" and t[2] == "collect":
            m = obs.msgs[t[1]]
            if any(getattr(o, "name", None) == dev for o in (m.obj,) + tuple(m.args)):
                return True
    return False


items, run_item, replay, describe = _x1.bind(SPECS, oracle)
