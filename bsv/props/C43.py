"""C43 - PersistentDict keeps what was last written.

S engine, BFS over operation histories on the REAL PersistentDict in a scratch directory: every history up to the
bound is executed on a fresh instance/directory and the directory is reopened in two ways - "crash" (the finaliser
never runs: what a new process would find had this one been killed) and "graceful" (instance dropped, finaliser
run).  A dict-based reference is stepped alongside.
"""

import gc
import hashlib
import itertools
import os
import shutil
import tempfile

ID = "C43"
LEVEL = "model_checking"
OPS = ("set1", "set2", "set1b", "del1", "pop2", "popitem", "update", "setdefault", "clear", "mutate1", "flush", "reload")
RULE = (
    "S/BFS: ALL histories of length <= 4 (quick; thorough adds all <= 5 for the 2 value pairs with a mutable k1 value and a "
    "breadth-first search to depth 6 for all 7 pairs that merges histories reaching an identical state of real object + files "
    "+ reference) over 12 operations "
    "{d[k1]=v, d[k2]=v', d[k1]=v', del d[k1], d.pop(k2), popitem, update({k2:v,k3:1}), setdefault(k1,v'), clear, in-place "
    "mutation of d[k1] (no flush), flush, reload} x 7 value pairs (v,v') rotating through {1,'a',[1,2],{'x':1},b'b',ndarray,"
    "np.float64}; after EVERY history (= at every prefix) the directory is reopened twice: crash (finaliser detached) and "
    "graceful (finaliser run); reopened keys == reference keys and every value (type/dtype/contents) == last set/flushed "
    "value, an unflushed in-place mutation being accepted in either state; non-trivial = history in which a later operation "
    "overwrote, removed, flushed or reloaded something written earlier"
)
ASSUMPTIONS = [
    "one instance at a time: the crash probe is a read-only second instance opened while the first is still referenced; it "
    "reads exactly the files a new process would find after a kill at that point",
    "graceful close = last reference dropped (gc.collect() if needed); the weakref.finalize callback is verified to have run",
    "thorough depth 6: histories are merged when cache (ordered, with array writability), the dict object held by the "
    "finaliser (+ identity sharing), file contents in zict key order and the reference state coincide; zict's file-name "
    "counter is assumed behaviour-neutral",
    "torn writes inside one zict.File write are outside the statement (DESIGN C43)",
    "unflushed in-place mutation of a stored value is a don't-care (both the old and the mutated value are accepted, also "
    "after a later reload)",
]
MAXV = 2


def _tier_L(tier):
    return 4 if tier == "quick" else 6


FULL_PAIRS = (2, 5)  # ([1,2],{'x':1}) and (ndarray, np.float64): the pairs whose k1 value is mutable get the full depth


def describe(tier):
    return {
        "bounds": {"history_length": _tier_L(tier), "unmerged_history_length": 4 if tier == "quick" else "4 (5 for 2 pairs)", "ops": list(OPS), "value_pairs": 7, "reopen_modes": ["crash", "graceful"]},
        "dont_cares": ["unflushed in-place mutation"],
    }


def items(tier, seed):
    """quick: plain enumeration of ALL histories <= 4 (no state merging).
    thorough: the same, plus ALL histories <= 5 for the two pairs whose k1 value is mutable, plus a breadth-first search
    to depth 6 for every pair in which histories reaching an identical (real object + files + reference) state are merged."""
    out = []
    for pair in range(7):
        L = 5 if (tier == "thorough" and pair in FULL_PAIRS) else 4
        out.append({"mode": "enum", "pair": pair, "prefix": None, "L": L})  # histories of length 0 and 1
        for a in range(len(OPS)):
            for b in range(len(OPS)):
                out.append({"mode": "enum", "pair": pair, "prefix": [a, b], "L": L})
        if tier == "thorough":
            out.append({"mode": "bfs", "pair": pair, "L": 6})
    return out


# ---------------------------------------------------------------- values


def make_value(i):
    import numpy as np

    return [1, "a", [1, 2], {"x": 1}, b"b", np.array([1, 2, 3]), np.float64(2.5)][i]


def canon(v):
    import numpy as np

    if isinstance(v, np.ndarray):
        return ("nd", v.dtype.str, v.shape, repr(v.tolist()))
    if isinstance(v, np.generic):
        return canon(v.item())  # numpy scalars are msgpack-native numbers: the statement promises the value, not the wrapper type
    if isinstance(v, bool):
        return ("bool", v)
    if isinstance(v, (bytes, bytearray)):
        return ("bytes", bytes(v))
    if isinstance(v, dict):
        return ("dict", tuple(sorted((repr(k), canon(x)) for k, x in v.items())))
    if isinstance(v, (list, tuple)):
        return (type(v).__name__, tuple(canon(x) for x in v))
    return (type(v).__name__, repr(v))


def mutate_in_place(v):
    """Returns True if v was mutated."""
    import numpy as np

    if isinstance(v, list):
        v.append(9)
        return True
    if isinstance(v, dict):
        v["y"] = 2
        return True
    if isinstance(v, np.ndarray) and v.size and v.flags.writeable:  # arrays decoded by reload() are read-only views
        v[0] = v[0] + 9
        return True
    return False


def _h(x):
    return hashlib.sha256(repr(x).encode()).hexdigest()[:12]


# ---------------------------------------------------------------- one history on the real object


class _Ref:
    def __init__(self):
        self.mem = {}  # key -> canonical value as seen through the instance
        self.disk = {}  # key -> canonical value most recently set / flushed
        self.alt = {}  # key -> set of canonical values also acceptable (unflushed in-place mutation)
        self.touch = {}  # key -> last op that wrote/removed it
        self.snap_at_reload = None  # mem at the first reload (what the pre-reload cache object holds)
        self.overwrote = False

    def set(self, k, c, op):
        if k in self.disk:
            self.overwrote = True
        self.mem[k] = c
        self.disk[k] = c
        self.alt.pop(k, None)
        self.touch[k] = op

    def remove(self, k, op):
        self.overwrote = True
        self.mem.pop(k)
        self.disk.pop(k, None)
        self.alt.pop(k, None)
        self.touch[k] = op


def _wflag(v):
    return bool(getattr(getattr(v, "flags", None), "writeable", True))


def _state(d, fin, crash, ref):
    """Canonical form of everything that can influence later behaviour: the cache (ordered: popitem is LIFO), the dict
    object the finaliser holds (and whether it still is the cache / shares value objects with it), the files (in zict's
    key order: reload() rebuilds the cache in that order), and the reference model."""
    cache = d._cache
    real_cache = tuple((k, canon(v), _wflag(v)) for k, v in cache.items())
    peek = fin.peek()
    fcache = peek[2][1] if peek is not None else None
    if fcache is None:
        fc = "finaliser-dead"  # the finaliser has already run (it can run only once): nothing is written back at drop
    elif fcache is cache:
        fc = "is-cache"
    else:
        fc = tuple((k, canon(v), k in cache and cache[k] is v) for k, v in fcache.items())
    files = tuple((k, crash.get(k)) for k in d._file.filenames) + tuple(sorted(set(crash) - set(d._file.filenames)))
    model = (
        tuple(sorted(ref.mem.items())),
        tuple(sorted(ref.disk.items())),
        tuple(sorted((k, tuple(sorted(a))) for k, a in ref.alt.items())),
        None if ref.snap_at_reload is None else tuple(sorted(ref.snap_at_reload.items())),
    )
    return (real_cache, fc, files, model)


def read_dir(PD, path):
    """Contents a new process would see: a fresh read-only instance whose finaliser never runs."""
    p = PD(path)
    p._finalizer.detach()
    out = {k: canon(p[k]) for k in p}
    del p
    return out


def run_history(pair, hist, root):
    """Execute one history; returns (violations, info)."""
    from bluesky.utils import PersistentDict

    path = os.path.join(root, "d")
    if os.path.isdir(path):
        for fn in os.listdir(path):
            os.unlink(os.path.join(path, fn))
    vi, wi = pair, (pair + 1) % 7
    d = PersistentDict(path)
    fin = d._finalizer
    ref = _Ref()
    vs = []
    applied = 0

    def diverged(op, detail):
        vs.append(("op-diverged", f"op #{applied} {op}: {detail}", f"op-diverged|{op}"))

    for opi in hist:
        op = OPS[opi]
        try:
            if op == "set1":
                v = make_value(vi)
                d["k1"] = v
                ref.set("k1", canon(v), op)
            elif op == "set2":
                v = make_value(wi)
                d["k2"] = v
                ref.set("k2", canon(v), op)
            elif op == "set1b":
                v = make_value(wi)
                d["k1"] = v
                ref.set("k1", canon(v), op)
            elif op == "del1":
                try:
                    del d["k1"]
                    real = "ok"
                except KeyError:
                    real = "KeyError"
                want = "ok" if "k1" in ref.mem else "KeyError"
                if real != want:
                    diverged(op, f"real {real}, reference {want}")
                    break
                if want == "ok":
                    ref.remove("k1", op)
            elif op == "pop2":
                try:
                    got = d.pop("k2")
                    real = "ok"
                except KeyError:
                    real = "KeyError"
                want = "ok" if "k2" in ref.mem else "KeyError"
                if real != want:
                    diverged(op, f"real {real}, reference {want}")
                    break
                if want == "ok":
                    if canon(got) != ref.mem["k2"]:
                        diverged(op, f"returned {got!r}")
                        break
                    ref.remove("k2", op)
            elif op == "popitem":
                try:
                    k, got = d.popitem()
                    real = "ok"
                except KeyError:
                    real = "KeyError"
                want = "ok" if ref.mem else "KeyError"
                if real != want:
                    diverged(op, f"real {real}, reference {want}")
                    break
                if want == "ok":
                    if k not in ref.mem or canon(got) != ref.mem[k]:
                        diverged(op, f"returned {(k, got)!r}")
                        break
                    ref.remove(k, op)
            elif op == "update":
                v = make_value(vi)
                d.update({"k2": v, "k3": 1})
                ref.set("k2", canon(v), op)
                ref.set("k3", canon(1), op)
            elif op == "setdefault":
                v = make_value(wi)
                got = d.setdefault("k1", v)
                if "k1" in ref.mem:
                    if canon(got) != ref.mem["k1"]:
                        diverged(op, f"returned {got!r}")
                        break
                else:
                    ref.set("k1", canon(v), op)
            elif op == "clear":
                d.clear()
                for k in list(ref.mem):
                    ref.remove(k, op)
            elif op == "mutate1":
                if "k1" in ref.mem:
                    obj = d["k1"]
                    if mutate_in_place(obj):
                        c = canon(obj)
                        ref.mem["k1"] = c
                        ref.alt.setdefault("k1", set()).add(c)
            elif op == "flush":
                d.flush()
                for k, c in ref.mem.items():
                    if ref.disk.get(k) != c:
                        ref.overwrote = True
                    ref.disk[k] = c
                ref.alt.clear()
            elif op == "reload":
                if ref.snap_at_reload is None:
                    ref.snap_at_reload = dict(ref.mem)
                d.reload()
                if ref.mem:
                    ref.overwrote = True
                ref.mem = dict(ref.disk)
        except Exception as e:  # noqa: BLE001 - the reference never raises here
            diverged(op, f"raised {type(e).__name__}: {e}")
            break
        applied += 1

    state = None
    if not vs:
        state = "pending"

        def judge(mode, got):
            out = []
            extra = sorted(set(got) - set(ref.disk))
            missing = sorted(set(ref.disk) - set(got))
            wrong = sorted(k for k in got if k in ref.disk and got[k] != ref.disk[k] and got[k] not in ref.alt.get(k, ()))
            if extra or missing or wrong:
                if extra:
                    kind, k = "extra-key", extra[0]
                elif missing:
                    kind, k = "missing-key", missing[0]
                else:
                    kind, k = "stale-or-wrong-value", wrong[0]
                out.append((kind, ref.touch.get(k, "never"), f"extra={extra} missing={missing} wrong={wrong}"))
            return out

        crash = read_dir(PersistentDict, path)
        cj = judge("crash", crash)
        state = _state(d, fin, crash, ref)
        # graceful: drop the instance, the finaliser runs
        del d
        if fin.alive:  # CPython: the last reference is gone, weakref.finalize has already fired; otherwise collect
            gc.collect()
        if fin.alive:
            vs.append(("finaliser-did-not-run", "harness: instance still referenced", "harness|finaliser"))
        grace = read_dir(PersistentDict, path)
        gj = judge("graceful", grace)
        names = [OPS[i] for i in hist]
        for kind, last, detail in cj:
            vs.append(
                (
                    "reopen-differs",
                    f"pair={pair} history={names} crash reopen: {detail}; found={_show(crash)} reference={_show(ref.disk)}",
                    f"reopen-differs|crash|{kind}|last_op_on_key={last}",
                )
            )
        for kind, last, detail in gj:
            explain = "other"
            if ref.snap_at_reload is not None:
                pred = dict(crash)
                pred.update(ref.snap_at_reload)
                if pred == grace:
                    explain = "finaliser-rewrites-cache-object-from-before-reload"
            vs.append(
                (
                    "reopen-differs",
                    f"pair={pair} history={names} graceful reopen: {detail}; found={_show(grace)} reference={_show(ref.disk)}",
                    f"reopen-differs|graceful|{kind}|last_op_on_key={last}|crash_reopen_ok={not cj}|{explain}",
                )
            )
    else:
        fin.detach()
        del d
    return vs, {"applied": applied, "state": state, "nontrivial": ref.overwrote, "keys": len(ref.disk), "dirty": bool(ref.alt)}


def _show(c):
    return {k: v[-1] if isinstance(v, tuple) else v for k, v in sorted(c.items())}


def _histories(prefix, L):
    if prefix is None:
        yield ()
        for a in range(len(OPS)):
            yield (a,)
        return
    prefix = tuple(prefix)
    for n in range(0, L - len(prefix) + 1):
        for tail in itertools.product(range(len(OPS)), repeat=n):
            yield prefix + tail


def _bfs_histories(pair, L, root, sink):
    """Breadth-first over histories; a history whose resulting state was already reached is executed and judged but
    not extended (its extensions behave like those of the representative)."""
    vs, info = run_history(pair, (), root)
    sink((), vs, info)
    visited = {info["state"]}
    frontier = [()]
    for _depth in range(1, L + 1):
        nxt = []
        for h in frontier:
            for op in range(len(OPS)):
                h2 = h + (op,)
                vs, info = run_history(pair, h2, root)
                sink(h2, vs, info)
                st = info["state"]
                if st is not None and st not in visited:
                    visited.add(st)
                    nxt.append(h2)
        frontier = nxt


def run_item(item):
    res = {"evaluations": 0, "transitions": 0, "states": set(), "nontrivial": set(), "outcomes": {}, "violations": [], "samples": [], "extra": {"caps_hit": 0}}
    oc = res["outcomes"]
    persig = {}
    pair = item["pair"]
    root = tempfile.mkdtemp(dir="/var/tmp", prefix="bsv-c43-")
    was_enabled = gc.isenabled()
    gc.disable()

    def sink(hist, vs, info):
        res["evaluations"] += 1
        res["transitions"] += info["applied"] + 2  # operations + two reopenings
        if info["state"] is not None:
            res["states"].add(_h((pair, info["state"])))
        if info["nontrivial"]:
            res["nontrivial"].add(_h((pair, hist)))
        if not vs:
            k = f"ok:keys={info['keys']},dirty={info['dirty']}"
            oc[k] = oc.get(k, 0) + 1
        for rule, detail, sig in vs:
            k = f"violation:{sig}"
            oc[k] = oc.get(k, 0) + 1
            persig[sig] = persig.get(sig, 0) + 1
            if persig[sig] <= MAXV:
                res["violations"].append({"rule": rule, "detail": detail, "signature": sig, "case": {"pair": pair, "hist": list(hist)}})
        if len(res["samples"]) < 1 and len(hist) == item["L"] and info["nontrivial"] and not vs:
            res["samples"].append({"pair": pair, "history": [OPS[i] for i in hist], "reopened_keys": info["keys"], "mode": item["mode"]})

    try:
        if item["mode"] == "bfs":
            _bfs_histories(pair, item["L"], root, sink)
            res["extra"]["bfs_merged_depth"] = item["L"]
        else:
            for hist in _histories(item["prefix"], item["L"]):
                vs, info = run_history(pair, hist, root)
                sink(hist, vs, info)
    finally:
        shutil.rmtree(root, ignore_errors=True)
        if was_enabled:
            gc.enable()
    res["extra"]["suppressed_duplicate_violations"] = sum(max(0, n - MAXV) for n in persig.values())
    return res


def replay(payload):
    c = payload["case"]
    root = tempfile.mkdtemp(dir="/var/tmp", prefix="bsv-c43-")
    try:
        vs, _info = run_history(c["pair"], tuple(c["hist"]), root)
    finally:
        shutil.rmtree(root, ignore_errors=True)
    return [{"rule": r, "detail": d, "signature": s} for r, d, s in vs if s == payload.get("signature", s)]
