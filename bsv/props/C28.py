"""C28 - repeat / count: exactly num repetitions, a checkpoint before each, sleeps = positive remainder of the delay.

S engine, two parts sharing one oracle:
 A. message-level responder with an exact virtual clock (only ``sleep`` advances it; ``plan_stubs.time`` is
    rebound to it for the duration of a case) - the full grid of num x delay x inner duration.
 B. the same plans on the real RunEngine under the harness (virtual loop clock, ``time.time`` patched by the
    session); float clock => 1e-6 tolerance, |delay-elapsed| <= 1e-6 is a don't-care.
"""

import hashlib
import itertools

ID = "C28"
LEVEL = "model_checking"

GRID = {
    "quick": {"nums": (0, 1, 2, 3), "values": (0, 0.5, 2), "scalars": (0, None, 1.0), "durs": (0, 0.3, 1), "ks": (1, 2, 3), "maxL_none": 3},
    "thorough": {"nums": (0, 1, 2, 3, 4), "values": (0, 0.3, 0.5, 2), "scalars": (0, None, 0.3, 1.0), "durs": (0, 0.3, 1, 2.5), "ks": (1, 2, 3, 4), "maxL_none": 4},
}
ENGINE_GRID = {
    "quick": {"nums": (0, 1, 2, 3), "values": (0.5, 2), "scalars": (0, None, 1.0), "durs": (0, 0.3, 1), "ks": (2,), "maxL_none": 2},
    "thorough": {"nums": (0, 1, 2, 3), "values": (0, 0.5, 2), "scalars": (0, None, 1.0), "durs": (0, 0.3, 1), "ks": (1, 3), "maxL_none": 3},
}
KINDS = ("list", "tuple", "gen")

RULE = (
    "S: num in {0..3 (0..4 thorough), None with a consumer that stops after k inner executions}, delay in {scalars 0, None, 1.0; "
    "lists/tuples/generators of every length max(0,num-2)..num+1 over the value set}, inner plan of virtual duration in {0,0.3,1}, "
    "through plan_stubs.repeat and plans.count(per_shot=...). Part A iterates the plan with a responder whose clock advances only "
    "on sleep (exact arithmetic), part B runs it on the real RunEngine (virtual loop clock; count also with its default per_shot "
    "on a detector whose trigger takes the duration). Oracle: number of inner executions = num when the delays suffice (scalar or "
    ">= num-1 entries) and no exception; otherwise ValueError and at most len(delays)+1 executions; a checkpoint immediately before "
    "each execution; between two executions a sleep message iff delay-elapsed > 0, with exactly that argument "
    "(reference max(0, delay-elapsed)); any sleep after the last execution must also be such a remainder (its presence is a "
    "don't-care); part B additionally: one event per execution and event spacing = max(delay, duration). "
    "Non-trivial = >=2 executions with a positive delay consulted, or the ValueError path."
)
ASSUMPTIONS = [
    "part A: time advances only through 'sleep' messages (infinitely fast everything else), so elapsed = inner duration exactly",
    "part B: harness virtual clock; time.time() = loop time + 1e9, hence a 1e-6 tolerance and |delay-elapsed| <= 1e-6 undecided",
    "num=None with an exhausted iterable of delays: the statement does not say whether that is an error (don't-care); only "
    "'not more repetitions than delays+1' is demanded",
    "a sleep after the final repetition is neither required nor forbidden by the statement; if present it must be a remainder",
    "delay entries are numbers (None only as a scalar)",
]


def describe(tier):
    return {"bounds": {"responder": {k: list(v) if isinstance(v, tuple) else v for k, v in GRID[tier].items()},
                       "engine": {k: list(v) if isinstance(v, tuple) else v for k, v in ENGINE_GRID[tier].items()},
                       "delay_container_kinds": list(KINDS), "entries": ["repeat", "count(per_shot)", "count(default per_shot) [engine]"]}}


# --------------------------------------------------------------------------- case enumeration


def _delay_specs(g, num, maxL=None):
    """('scalar', v) | (kind, (v...))"""
    out = [("scalar", v) for v in g["scalars"]]
    if num is None:
        lens = range(0, maxL + 1)
    else:
        lens = range(max(0, num - 2), num + 2)
    for L in lens:
        for seq in itertools.product(g["values"], repeat=L):
            for kind in KINDS:
                out.append((kind, tuple(seq)))
    return out


def _cases(g, part, entries):
    out = []
    for entry in entries:
        for dur in g["durs"]:
            for num in g["nums"]:
                for spec in _delay_specs(g, num):
                    out.append((part, entry, num, None, spec, dur))
            for k in g["ks"]:
                for spec in _delay_specs(g, None, g["maxL_none"]):
                    out.append((part, entry, None, k, spec, dur))
    return out


def items(tier, seed):
    a = _cases(GRID[tier], "A", ("repeat", "count"))
    b = _cases(ENGINE_GRID[tier], "B", ("repeat", "count", "count_default"))
    out = [{"cases": a[i : i + 400]} for i in range(0, len(a), 400)]
    out += [{"cases": b[i : i + 40]} for i in range(0, len(b), 40)]
    return out


def _mk_delay(spec):
    kind, v = spec
    if kind == "scalar":
        return v
    if kind == "list":
        return list(v)
    if kind == "tuple":
        return tuple(v)
    return (x for x in v)


# --------------------------------------------------------------------------- the oracle (shared)


def judge(seq, outcome, exc, num, k, spec, tol, interrupted):
    """seq: [(command, tag_or_arg, clock_at_message)] restricted to checkpoint / INNER_BEGIN / INNER_END / sleep(outside inner).

    Returns [(rule, detail)], info.
    """
    vs = []
    kind, dv = spec
    L = None if kind == "scalar" else len(dv)
    # 1. split into repetitions
    begins = [i for i, e in enumerate(seq) if e[0] == "BEGIN"]
    n_inner = len(begins)
    for i in begins:
        if i == 0 or seq[i - 1][0] != "checkpoint":
            vs.append(("no-checkpoint-before-repetition", f"repetition #{begins.index(i)} is preceded by {seq[i - 1][0] if i else 'nothing'}"))
            break
    # 2. how many, and how it ended
    if num is not None:
        enough = L is None or L >= num - 1
        if enough:
            if outcome == "raise":
                vs.append(("unexpected-exception", f"{type(exc).__name__}: {exc} although the delays suffice (num={num}, {L} delays)"))
            elif n_inner != num:
                vs.append(("wrong-number-of-repetitions", f"{n_inner} inner executions, num={num}"))
        else:
            if not (outcome == "raise" and isinstance(exc, ValueError)):
                vs.append(("no-valueerror-for-short-delays", f"num={num} with {L} delays ended with {outcome} {type(exc).__name__ if exc else ''} after {n_inner} executions"))
            if n_inner > L + 1:
                vs.append(("more-repetitions-than-delays-allow", f"{n_inner} executions with {L} delays"))
    else:
        want = k if L is None else min(k, L + 1)
        if n_inner != want:
            vs.append(("wrong-number-of-repetitions", f"{n_inner} inner executions; consumer stops after {k}, {L} delays"))
        if L is not None and n_inner > L + 1:
            vs.append(("more-repetitions-than-delays-allow", f"{n_inner} executions with {L} delays"))
    # 3. sleeps
    consulted_positive = False
    nsleeps = 0
    for r, b in enumerate(begins):
        end = next((j for j in range(b + 1, len(seq)) if seq[j][0] == "END"), None)
        if end is None:
            break  # interrupted inside the inner plan
        nxt = begins[r + 1] if r + 1 < len(begins) else len(seq)
        sleeps = [seq[j] for j in range(end + 1, nxt) if seq[j][0] == "sleep"]
        nsleeps += len(sleeps)
        last = r + 1 == len(begins)
        if interrupted and last:
            continue  # the consumer stopped right after this execution
        t0 = seq[b - 1][2] if b > 0 else seq[b][2]  # clock at the checkpoint of this repetition
        elapsed = seq[end][2] - t0
        if kind == "scalar":
            d = dv
        else:
            d = dv[r] if r < L else None
        if d is not None and d > 0:
            consulted_positive = True
        rem = None if d is None else d - elapsed
        if len(sleeps) > 1:
            vs.append(("several-sleeps-after-one-repetition", f"repetition #{r}: {[s[1] for s in sleeps]}"))
            continue
        if rem is not None and abs(rem) <= tol and tol > 0:
            if sleeps and abs(sleeps[0][1]) > 2 * tol:
                vs.append(("sleep-not-the-remainder", f"repetition #{r}: sleep({sleeps[0][1]!r}), delay {d} elapsed {elapsed!r}"))
            continue
        expect = rem if (rem is not None and rem > 0) else None
        if sleeps:
            got = sleeps[0][1]
            if expect is None:
                vs.append(("sleep-without-positive-remainder", f"repetition #{r}: sleep({got!r}) but delay={d}, elapsed={elapsed!r}"))
            elif abs(got - expect) > tol:
                rule = "sleeps-full-delay" if d is not None and abs(got - d) <= tol and elapsed > tol else "sleep-not-the-remainder"
                vs.append((rule, f"repetition #{r}: sleep({got!r}), required max(0, {d} - {elapsed!r}) = {expect!r}"))
        elif expect is not None and not last:
            vs.append(("missing-sleep", f"repetition #{r}: no sleep although delay={d} > elapsed={elapsed!r}"))
    info = {
        "n_inner": n_inner,
        "nsleeps": nsleeps,
        "nontrivial": (n_inner >= 2 and consulted_positive) or (outcome == "raise" and isinstance(exc, ValueError)),
    }
    return vs, info


# --------------------------------------------------------------------------- part A: responder


class _Clock:
    def __init__(self, real, r):
        self._real = real
        self._r = r

    def __getattr__(self, name):
        return getattr(self._real, name)

    def time(self):
        return self._r.clock


def _inner_msgs(dur):
    from bluesky.utils import Msg

    yield Msg("null", None, "INNER_BEGIN")
    if dur:
        yield Msg("sleep", None, dur)
    yield Msg("null", None, "INNER_END")


def _abstract(trace, clocks):
    seq, inside = [], False
    for m, t in zip(trace, clocks):
        if m.command == "null" and m.args == ("INNER_BEGIN",):
            seq.append(("BEGIN", None, t))
            inside = True
        elif m.command == "null" and m.args == ("INNER_END",):
            seq.append(("END", None, t))
            inside = False
        elif m.command == "checkpoint":
            seq.append(("checkpoint", None, t))
        elif m.command == "sleep" and not inside:
            seq.append(("sleep", m.args[0], t))
    return seq


def run_A(case):
    import bluesky.plan_stubs as bps
    import bluesky.plans as bp
    from bluesky.utils import RequestAbort
    from bsv.explore.responder import Dev, Responder, drive

    _, entry, num, k, spec, dur = case
    r = Responder()
    clocks = []
    seen_end = [0]

    def on_msg(i, msg):
        clocks.append(r.clock)
        if k is not None and msg.command == "null" and msg.args == ("INNER_END",):
            seen_end[0] += 1
            if seen_end[0] == k:
                return RequestAbort("consumer stops")
        return None

    real_time = bps.time
    bps.time = _Clock(real_time, r)
    try:
        try:
            if entry == "repeat":
                plan = bps.repeat(lambda: _inner_msgs(dur), num=num, delay=_mk_delay(spec))
            else:
                det = Dev("det", kind="det")
                plan = bp.count([det], num=num, delay=_mk_delay(spec), per_shot=lambda dets: _inner_msgs(dur))
            out = drive(plan, r, on_msg=on_msg)
        except Exception as e:  # noqa: BLE001 - raised while the plan object is being built
            out = {"outcome": "raise", "exc": e, "trace": [], "thrown_at": None}
    finally:
        bps.time = real_time
    trace = out["trace"]
    # the clock at message i is the clock when it was yielded (before its own effect)
    clocks = clocks[: len(trace)] + [r.clock] * (len(trace) - len(clocks))
    seq = _abstract(trace, clocks)
    exc = out["exc"]
    interrupted = out["thrown_at"] is not None
    outcome = out["outcome"]
    if interrupted and isinstance(exc, RequestAbort):
        outcome, exc = "stopped", None
    vs, info = judge(seq, outcome, exc, num, k, spec, 0.0, interrupted)
    info["outcome"] = outcome + (":" + type(exc).__name__ if exc is not None else "")
    info["steps"] = len(trace)
    info["seq"] = [(c, a) for c, a, _ in seq]
    return vs, info


# --------------------------------------------------------------------------- part B: real engine


def _scenario(case):
    from bsv.harness.devices import FakeDet
    from bsv.harness.session import Scenario

    _, entry, num, k, spec, dur = case

    class Scn(Scenario):
        id = "c28"
        probe = False
        horizon = 6000

        def devices(self, ctx):
            trig = ("delay", dur) if (entry == "count_default" and dur) else ("now",)
            return {"det": FakeDet(ctx, "det", trigger=trig, stageable=False)}

        def plan(self, d):
            import bluesky.plan_stubs as bps
            import bluesky.plans as bp
            from bluesky.utils import Msg

            calls = [0]

            def inner(*a):
                calls[0] += 1
                yield Msg("null", None, "INNER_BEGIN")
                if entry == "count_default":
                    yield from bps.trigger_and_read([d["det"]])
                elif dur:
                    yield from bps.sleep(dur)
                if entry == "count":
                    yield from bps.trigger_and_read([d["det"]])
                yield Msg("null", None, "INNER_END")
                if k is not None and calls[0] == k:
                    yield Msg("pause")

            if entry == "repeat":
                return bps.repeat(inner, num=num, delay=_mk_delay(spec))
            return bp.count([d["det"]], num=num, delay=_mk_delay(spec), per_shot=inner)

    return Scn()


def run_B(case):
    from bsv.harness.session import run

    _, entry, num, k, spec, dur = case
    obs = run(_scenario(case), {"decisions": ["abort"]} if k is not None else None)
    if obs.outcome != "ok":
        return [], {"harness_error": f"{obs.outcome}: {obs.harness_error}", "outcome": "harness", "nontrivial": False, "n_inner": 0, "nsleeps": 0, "steps": 0, "seq": []}
    # reconstruct the clock from the messages: only sleeps (and the detector's trigger time) advance it
    seq, inside, t = [], False, 0.0
    msgs = obs.msgs
    for m in msgs:
        if m.command == "null" and m.args == ("INNER_BEGIN",):
            seq.append(("BEGIN", None, t))
            inside = True
        elif m.command == "null" and m.args == ("INNER_END",):
            seq.append(("END", None, t))
            inside = False
        elif m.command == "checkpoint" and not inside:
            seq.append(("checkpoint", None, t))
        elif m.command == "sleep":
            if not inside:
                seq.append(("sleep", m.args[0], t))
            t = t + m.args[0]
        elif m.command == "trigger" and entry == "count_default" and dur:
            t = t + dur
    call = obs.calls[0]
    exc = call["exc"]
    interrupted = k is not None and any(m.command == "pause" for m in msgs)
    outcome = "raise" if call["outcome"] == "raise" else "return"
    if interrupted:
        outcome, exc = "stopped", None
    vs, info = judge(seq, outcome, exc, num, k, spec, 1e-6, interrupted)
    if outcome == "raise" and not isinstance(exc, ValueError) and info["n_inner"] == 0 and spec[0] != "scalar":
        # the plan was refused before its first repetition for a reason other than the number of delays: one root
        # cause ("this kind of iterable is not accepted"), reported once instead of through its consequences
        where = _innermost_bluesky_frame(exc)
        vs = [("iterable-delay-not-accepted", f"{type(exc).__name__}: {exc} (raised in {where}) before the first repetition; delay is a {spec[0]} of {len(spec[1])} entries")]
        info["refused"] = f"{type(exc).__name__}@{where}"
    # documents: one event per execution that took a reading; spacing = max(delay, duration)
    if entry in ("count", "count_default"):
        ev = [d for n, d in obs.docs if n == "event"]
        if len(ev) != info["n_inner"]:
            vs.append(("events-differ-from-repetitions", f"{len(ev)} events, {info['n_inner']} inner executions"))
        kind, dv = spec
        for i in range(len(ev) - 1):
            d = dv if kind == "scalar" else (dv[i] if i < len(dv) else None)
            want = max(d or 0, dur)
            got = ev[i + 1]["time"] - ev[i]["time"]
            if abs(got - want) > 1e-5:
                vs.append(("event-spacing", f"events {i}->{i + 1} are {got!r} s apart, required max(delay={d}, duration={dur}) = {want}"))
                break
    info["outcome"] = outcome + (":" + type(exc).__name__ if exc is not None else "")
    info["steps"] = obs.nsteps
    info["seq"] = [(c, a) for c, a, _ in seq]
    return vs, info


# --------------------------------------------------------------------------- driver glue


def _sig(rule, case):
    part, entry, num, k, spec, dur = case
    kind, dv = spec
    if kind == "scalar":
        rel = "scalar"
    elif num is None:
        rel = "num-none"
    else:
        L = len(dv)
        rel = "short" if L < num - 1 else ("exact" if L == num - 1 else "long")
    sized = "scalar" if kind == "scalar" else ("sized" if kind in ("list", "tuple") else "unsized")
    return f"{rule}|{entry}|{'engine' if part == 'B' else 'responder'}|delays={sized}:{rel}|dur={'0' if not dur else 'pos'}"


def run_case(case):
    case = _norm(case)
    vs, info = (run_A if case[0] == "A" else run_B)(case)
    out = []
    for rule, detail in vs:
        sig = _sig(rule, case)
        if rule == "iterable-delay-not-accepted":
            sig = f"{rule}|{case[1]}|engine|delays={'sized' if case[4][0] in ('list', 'tuple') else 'unsized'}|{info.get('refused')}"
        out.append({"rule": rule, "detail": f"{_call(case)}: {detail}", "signature": sig, "case": _ser(case)})
    return out, info


def _innermost_bluesky_frame(exc):
    name = "?"
    tb = exc.__traceback__
    while tb is not None:
        fn = tb.tb_frame.f_code.co_filename
        if "/bluesky/" in fn:
            name = f"{fn.rsplit('/bluesky/', 1)[1]}:{tb.tb_frame.f_code.co_name}"
        tb = tb.tb_next
    return name


def _call(case):
    part, entry, num, k, spec, dur = case
    kind, dv = spec
    dtxt = repr(dv) if kind == "scalar" else (f"{kind}{list(dv)}")
    who = {"repeat": "repeat(inner", "count": "count([det], per_shot=inner", "count_default": "count([det]"}[entry]
    return f"[{'engine' if part == 'B' else 'responder'}] {who}, num={num}, delay={dtxt}) inner duration {dur}" + (f", consumer stops after {k}" if k is not None else "")


def _ser(case):
    part, entry, num, k, spec, dur = case
    return [part, entry, num, k, [spec[0], list(spec[1]) if spec[0] != "scalar" else spec[1]], dur]


def _norm(case):
    part, entry, num, k, spec, dur = case
    kind, dv = spec
    return (part, entry, num, k, (kind, tuple(dv) if kind != "scalar" else dv), dur)


def worker_init():
    from bsv.explore import responder

    responder.fast_plans()


def run_item(item):
    violations, states, nontrivial, outcomes, herr = [], set(), set(), {}, []
    n = steps = 0
    sample = None
    for case in item["cases"]:
        case = _norm(case)
        n += 1
        key = hashlib.sha256(repr(case).encode()).hexdigest()[:12]
        states.add(key)
        vs, info = run_case(case)
        if info.get("harness_error"):
            herr.append({"case": _ser(case), "error": info["harness_error"]})
            continue
        steps += info["steps"]
        if info["nontrivial"]:
            nontrivial.add(key)
        o = f"{case[0]}:{case[1]}:{info['outcome']}:{info['n_inner']}reps:{info['nsleeps']}sleeps"
        outcomes[o] = outcomes.get(o, 0) + 1
        violations.extend(vs)
        if sample is None and info["nontrivial"]:
            sample = {"case": _call(case), "outcome": o, "abstract_trace": info["seq"][:16]}
    return {
        "evaluations": n,
        "transitions": max(steps, n),
        "states": states,
        "nontrivial": nontrivial,
        "outcomes": outcomes,
        "violations": violations,
        "harness_errors": herr,
        "samples": [sample] if sample else [],
        "extra": {"caps_hit": 0},
    }


def replay(payload):
    worker_init()
    return run_case(tuple(payload["case"]))[0]
