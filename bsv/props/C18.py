"""C18 - subscriptions live exactly as long as they were asked to.

S engine, histories on ONE real RunEngine (harness Session, virtual loop).  Alphabet (11 ops):

  Sfa Sfe Sga Sge   RE.subscribe(f|g, 'all'|'event') -> permanent token
  Uo Un             RE.unsubscribe(oldest | newest live permanent token)   (Un only when >= 2 are live)
  R0 Rf Rg          RE(one_run)  /  RE(one_run, f)  /  RE(one_run, g)      per-call subscription ('all')
  Pf                RE(plan: subscribe(f,'all'); one_run)                    in-plan subscription
  Pu                RE(plan: tok = subscribe(f,'all'); run A; unsubscribe(tok); run B)

Reference: the list of live (token, callable, filter, lifetime).  For EVERY document of every run (the harness'
collector, subscribed first, is the reference stream) and each callable c in {f, g}:
  n = number of live subscriptions naming c whose filter matches the document, at emission time
  r = number of times c was called with that document
  n == 0 -> r == 0 ;  n >= 1 -> 1 <= r <= n     (once or twice for a doubly subscribed callable is a don't-care)

Two exploration modes: 'exhaustive' (every history of the bounded depth, no reduction) and 'quotient'
(BFS, a history is extended only if the pair (reference state, normalised dispatcher state) was not reached before
in this work item at the same or a smaller depth).
"""

import hashlib
import itertools

ID = "C18"
LEVEL = "model_checking"
RULE = (
    "S/BFS over histories of 11 ops {subscribe(f|g,'all'|'event'), unsubscribe(oldest|newest live permanent token), "
    "run with per-call subs in {none,f,g}, run with in-plan subscribe(f), run with in-plan subscribe(f)+run+in-plan "
    "unsubscribe+run} on one real RunEngine.  quick: EVERY history of depth <= 4 (no reduction).  thorough: every "
    "history of depth <= 5 (no reduction) plus depth <= 6 under a state quotient (a history is extended only when "
    "(reference live list, normalised Dispatcher/CallbackRegistry/_temp_callback_ids structure) is new in its work "
    "item).  Oracle per emitted document and callable: received iff >= 1 live subscription names it (1..n times for n "
    "live subscriptions), per-call/in-plan subscriptions dead after their call, in-plan one dead after its unsubscribe. "
    "non-trivial = history with a run in which a callable has a live subscription while another subscription of the "
    "same callable is also live or was removed earlier (the 'same callable subscribed more than once' clause)"
)
ASSUMPTIONS = [
    "callables are two plain functions f, g (strongly referenced); filters 'all' and 'event'; per-call and in-plan subscriptions use 'all'",
    "runs are open_run/create/read/save/close_run on a fake detector: documents start, descriptor, event, stop",
    "don't-care: whether a callable with n >= 2 matching live subscriptions is called once or up to n times per document",
    "the harness tracks only tokens returned by RE.subscribe for Uo/Un; tokens of per-call/in-plan subscriptions are never unsubscribed from outside",
    "quotient mode (thorough, depth 6 only): two histories reaching equal (reference state, normalised private dispatcher state) are assumed to have equal futures; "
    "the normal form renames tokens/cids order-preservingly; if the private attributes are missing the quotient is switched off (caps_hit)",
]

OPS = ("Sfa", "Sfe", "Sga", "Sge", "Uo", "Un", "R0", "Rf", "Rg", "Pf", "Pu")
RUNS = ("R0", "Rf", "Rg", "Pf", "Pu")
MAXV = 3  # violation dicts kept per signature per work item


def describe(tier):
    if tier == "quick":
        b = {"depth_exhaustive": 4, "depth_quotient": None}
    else:
        b = {"depth_exhaustive": 5, "depth_quotient": 6}
    b["alphabet"] = list(OPS)
    return {"bounds": b, "dont_cares": ["1..n deliveries per document for a callable with n live matching subscriptions"]}


# ------------------------------------------------------------------------------------------------ reference model


class Model:
    """Live permanent subscriptions + bookkeeping of removals (the latter only NAMES what went wrong)."""

    def __init__(self):
        self.perm = []  # dicts {c, filt, created}, oldest first
        self.removed = []  # dicts {c, filt, how, t, t_next}  (t_next: index of the first run op after t, for temp subs)
        self.t = 0

    def key(self):
        return tuple((s["c"], s["filt"]) for s in self.perm)


def _matches(filt, kind):
    return filt == "all" or filt == kind


def _hash(x):
    return hashlib.sha256(repr(x).encode()).hexdigest()[:12]


# ------------------------------------------------------------------------------------------------ execution


def _session_classes():
    from bsv.harness.devices import FakeDet
    from bsv.harness.session import Scenario, Session

    class Scn(Scenario):
        id = "C18"
        probe = False
        horizon = 100000

        def devices(self, ctx):
            return {"det": FakeDet(ctx, "det", stageable=False)}

    class Hist(Session):
        def __init__(self, history, want_digest=False):
            super().__init__(Scn(history=list(history)))
            self.history = list(history)
            self.want_digest = want_digest
            self.logs = {"f": [], "g": []}
            self.steps = []  # per op: dict(op, docs=(lo, hi), flog=(lo,hi), glog=(lo,hi), outcome, digest)
            self.tokens = []  # live permanent tokens, oldest first

        def _script(self, RE, Msg, RunEngineInterrupted):
            det = self.d["det"]
            logs = self.logs

            def f(name, doc):
                logs["f"].append((name, doc["uid"]))

            def g(name, doc):
                logs["g"].append((name, doc["uid"]))

            self.cbs = {"f": f, "g": g}  # strong references for the whole session

            def one_run():
                yield Msg("open_run")
                yield Msg("create", name="primary")
                yield Msg("read", det)
                yield Msg("save")
                yield Msg("close_run")

            def plan_pf():
                yield Msg("subscribe", None, f, "all")
                yield from one_run()

            def plan_pu():
                tok = yield Msg("subscribe", None, f, "all")
                yield from one_run()
                yield Msg("unsubscribe", None, tok)
                yield from one_run()

            for i, op in enumerate(self.history):
                st = {"op": op, "d0": len(self.docs), "f0": len(logs["f"]), "g0": len(logs["g"]), "outcome": None}
                if op[0] == "S":
                    c = self.cbs[op[1]]
                    filt = "all" if op[2] == "a" else "event"
                    self.tokens.append(RE.subscribe(c, filt))
                elif op == "Uo":
                    RE.unsubscribe(self.tokens.pop(0))
                elif op == "Un":
                    RE.unsubscribe(self.tokens.pop())
                else:
                    if op == "R0":
                        rec = self._call(f"{i}:{op}", lambda: RE(one_run()))
                    elif op == "Rf":
                        rec = self._call(f"{i}:{op}", lambda: RE(one_run(), f))
                    elif op == "Rg":
                        rec = self._call(f"{i}:{op}", lambda: RE(one_run(), g))
                    elif op == "Pf":
                        rec = self._call(f"{i}:{op}", lambda: RE(plan_pf()))
                    elif op == "Pu":
                        rec = self._call(f"{i}:{op}", lambda: RE(plan_pu()))
                    else:
                        raise ValueError(op)
                    st["outcome"] = (rec["outcome"], type(rec["exc"]).__name__ if rec["exc"] is not None else None, rec["state_after"])
                st["d1"], st["f1"], st["g1"] = len(self.docs), len(logs["f"]), len(logs["g"])
                if self.want_digest:
                    st["digest"] = impl_digest(RE, self.cbs)
                self.steps.append(st)

    return Hist


_HIST = None


def _hist_cls():
    global _HIST
    if _HIST is None:
        _HIST = _session_classes()
    return _HIST


def impl_digest(RE, cbs):
    """Normal form of the private subscription state; None if it cannot be read (then no quotient is taken)."""
    try:
        disp = RE.dispatcher
        reg = disp.cb_registry
        names = {id(v): k for k, v in cbs.items()}

        def nm(proxy):
            fn = getattr(proxy, "func", proxy)
            return names.get(id(fn), "h")  # 'h' = the harness' collector

        cids = set()
        for privs in disp._token_mapping.values():
            cids.update(privs)
        for d in reg.callbacks.values():
            cids.update(d.keys())
        for m in reg._func_cid_map.values():
            cids.update(m.values())
        rank = {c: i for i, c in enumerate(sorted(cids))}
        toks = sorted(disp._token_mapping)
        trank = {t: i for i, t in enumerate(toks)}
        tm = tuple((trank[t], tuple(rank[c] for c in disp._token_mapping[t])) for t in toks)
        cb = tuple(sorted((getattr(sig, "name", str(sig)), tuple((rank[cid], nm(p)) for cid, p in d.items())) for sig, d in reg.callbacks.items()))
        fm = tuple(sorted((getattr(sig, "name", str(sig)), tuple(sorted((nm(p), rank[cid]) for p, cid in m.items()))) for sig, m in reg._func_cid_map.items()))
        temps = tuple(sorted((trank[t] if t in trank else -1) for t in RE._temp_callback_ids))
        return _hash((tm, cb, fm, temps, bool(reg.ignore_exceptions)))
    except Exception:  # noqa: BLE001 - private layout changed: no quotient
        return None


def run_history(history, want_digest=False):
    """Execute one history on a fresh engine, fold the reference alongside, judge every run.

    Returns dict(violations=[(op_index, rule, cause, detail)], states=[hash per op], digests=[...], nontrivial=bool,
                 outcome=str, harness_error=str|None, nruns=int)
    """
    Hist = _hist_cls()
    sess = Hist(history, want_digest)
    obs = sess.run()
    out = {"violations": [], "states": [], "digests": [], "nontrivial": False, "outcome": "", "harness_error": None, "nruns": 0}
    if obs.outcome != "ok" or len(sess.steps) != len(history):
        out["harness_error"] = f"session outcome {obs.outcome}: {obs.harness_error}; steps {len(sess.steps)}/{len(history)}"
        return out
    m = Model()
    last_pattern = ()
    for i, (op, st) in enumerate(zip(history, sess.steps)):
        m.t = i
        if op[0] == "S":
            m.perm.append({"c": op[1], "filt": "all" if op[2] == "a" else "event", "created": i})
        elif op == "Uo":
            s = m.perm.pop(0)
            m.removed.append({"c": s["c"], "filt": s["filt"], "how": "unsubscribe", "t": i, "t_next": None})
        elif op == "Un":
            s = m.perm.pop()
            m.removed.append({"c": s["c"], "filt": s["filt"], "how": "unsubscribe", "t": i, "t_next": None})
        else:
            out["nruns"] += 1
            # the temporary subscriptions of an earlier call: from now on the engine has certainly dropped them
            for e in m.removed:
                if e["t_next"] == "pending":
                    e["t_next"] = i
            docs = obs.docs[st["d0"] : st["d1"]]
            kinds_expected = ["start", "descriptor", "event", "stop"] * (2 if op == "Pu" else 1)
            kinds_got = [n for n, _ in docs]
            if st["outcome"] != ("return", None, "idle"):
                # the subscription machinery broke the call itself; what was emitted is still judged below
                out["violations"].append((i, "call-failed", f"op={op},exc={st['outcome'][1]},docs={len(docs)}", f"RE(...) for {op}: {st['outcome']}, stream {kinds_got}"))
            elif kinds_got != kinds_expected:
                out["violations"].append((i, "stream-shape", f"op={op}", f"the first subscriber saw {kinds_got} in op {i} ({op})"))
            # temporary subscriptions of this call, with the phase in which they live (0: first run, 1: second run of Pu)
            temps = []
            if op == "Rf":
                temps.append(("f", "all", "percall", (0, 1)))
            elif op == "Rg":
                temps.append(("g", "all", "percall", (0, 1)))
            elif op == "Pf":
                temps.append(("f", "all", "inplan", (0, 1)))
            elif op == "Pu":
                temps.append(("f", "all", "inplan", (0,)))
            e_unsub = {"c": "f", "filt": "all", "how": "inplan-unsubscribe", "t": i, "t_next": None} if op == "Pu" else None
            first_stop = kinds_got.index("stop") if "stop" in kinds_got else len(kinds_got)  # Pu: run A ends there
            pattern = []
            for c in ("f", "g"):
                log = sess.logs[c][st[c + "0"] : st[c + "1"]]
                got = {}
                for name, uid in log:
                    got[(name, uid)] = got.get((name, uid), 0) + 1
                refkeys = set()
                for k, (name, doc) in enumerate(docs):
                    phase = 1 if (op == "Pu" and k > first_stop) else 0
                    key = (name, doc["uid"])
                    refkeys.add(key)
                    live_perm = [s for s in m.perm if s["c"] == c and _matches(s["filt"], name)]
                    live_temp = [t for t in temps if t[0] == c and _matches(t[1], name) and phase in t[3]]
                    n = len(live_perm) + len(live_temp)
                    r = got.get(key, 0)
                    pattern.append((c, name, phase, r, n))
                    removed_sib = [e for e in m.removed if e["c"] == c and _matches(e["filt"], name)]
                    if phase == 1 and c == "f":
                        removed_sib.append(e_unsub)
                    if n >= 1 and (n >= 2 or removed_sib):
                        out["nontrivial"] = True
                    if n == 0 and r > 0:
                        # who could it be?  a temporary subscription that outlived its call, or an unsubscribed token
                        cause = "after:" + "+".join(sorted({e["how"] for e in removed_sib})) if removed_sib else "never-subscribed"
                        out["violations"].append((i, "delivered-without-subscription", cause, f"{c} got {name} x{r} in op {i} ({op}) with no live subscription naming it"))
                    elif n >= 1 and r == 0:
                        hows = set()
                        for L in live_perm:
                            for e in removed_sib:
                                if e["how"] in ("percall-drop", "inplan-drop"):
                                    if L["created"] < e["t"]:
                                        hows.add(e["how"])
                                    elif e["t_next"] not in (None, "pending") and L["created"] < e["t_next"]:
                                        hows.add("late-" + e["how"])
                                elif L["created"] < e["t"]:
                                    hows.add(e["how"])
                        cause = "sibling-removed:" + "+".join(sorted(hows)) if hows else "no-sibling-removed"
                        if live_temp:
                            cause = "temporary-subscription-dead|" + cause
                        kinds = "+".join(sorted({("perm:" + s["filt"]) for s in live_perm} | {(t[2] + ":" + t[1]) for t in live_temp}))
                        out["violations"].append(
                            (i, "silenced", cause, f"{c} did not get {name} (phase {phase}) in op {i} ({op}) although {n} live subscription(s) name it [{kinds}]")
                        )
                    elif r > n:
                        out["violations"].append((i, "over-delivery", f"r={r},n={n}", f"{c} got {name} x{r} in op {i} ({op}) with {n} live subscription(s)"))
                extra = [k for k in got if k not in refkeys]
                if extra:
                    out["violations"].append((i, "foreign-document", "not-in-reference-stream", f"{c} got {extra[:3]} which the first subscriber never saw"))
                # order: the log restricted to reference documents must follow emission order
                order = [k for k in [(n_, d_["uid"]) for n_, d_ in docs] if k in got]
                seen = []
                for k in log:
                    if k not in seen:
                        seen.append(k)
                if [k for k in seen if k in refkeys] != order:
                    out["violations"].append((i, "out-of-order", "emission-order", f"{c} log order differs from emission order in op {i} ({op})"))
            # end of call: the call's temporary subscriptions are dead for the reference
            for t in temps:
                if op != "Pu":
                    m.removed.append({"c": t[0], "filt": t[1], "how": t[2] + "-drop", "t": i, "t_next": "pending"})
            if e_unsub is not None:
                m.removed.append(e_unsub)
            last_pattern = tuple((c, name, ph, min(r, 2), min(n, 2)) for c, name, ph, r, n in pattern if name in ("start", "event"))
        out["states"].append(_hash((m.key(), last_pattern)))
        impl = st.get("digest")
        out["digests"].append(None if impl is None else _hash((m.key(), tuple((e["c"], e["filt"], e["how"]) for e in m.removed if e["t_next"] == "pending"), impl)))
    out["outcome"] = _hash(last_pattern)[:6] if not out["violations"] else "V:" + "|".join(sorted({f"{r}/{c}" for _, r, c, _ in out["violations"]}))[:80]
    return out


def enabled_ops(history):
    n = 0
    for op in history:
        if op[0] == "S":
            n += 1
        elif op[0] == "U":
            n -= 1
    return [op for op in OPS if not (op == "Uo" and n < 1) and not (op == "Un" and n < 2)]


def _valid(history):
    n = 0
    for op in history:
        if op == "Uo" and n < 1:
            return False
        if op == "Un" and n < 2:
            return False
        if op[0] == "S":
            n += 1
        elif op[0] == "U":
            n -= 1
    return True


# ------------------------------------------------------------------------------------------------ work items

CUT = 2  # work items are cut by the first CUT ops


def _prefixes(depth):
    """All valid histories of length min(CUT, depth)."""
    k = min(CUT, depth)
    return [list(p) for p in itertools.product(OPS, repeat=k) if _valid(p)]


PRE = 3  # thorough: the quotient BFS is run to this depth in the parent (no oracle there: every history of that
# length is a prefix of the exhaustive family and judged there); its frontier states become the quotient work items


def _pre_phase(depth):
    """Layered BFS with a GLOBAL visited set.  Returns (frontier histories at ``depth``, sorted digests seen) or None."""
    visited = set()
    frontier = [[]]
    for _level in range(depth):
        nxt = []
        for h in frontier:
            for op in enabled_ops(h):
                h2 = h + [op]
                r = run_history(h2, want_digest=True)
                if r["harness_error"] or r["digests"][-1] is None:
                    return None
                dg = r["digests"][-1]
                if dg in visited:
                    continue
                visited.add(dg)
                nxt.append(h2)
        frontier = nxt
    return frontier, sorted(visited)


def items(tier, seed):
    out = []
    if tier == "quick":
        for p in _prefixes(4):
            out.append({"mode": "exhaustive", "prefix": p, "depth": 4})
    else:
        for p in _prefixes(5):
            out.append({"mode": "exhaustive", "prefix": p, "depth": 5})
        pre = _pre_phase(PRE)
        if pre is None:
            out.append({"mode": "quotient-unavailable", "prefix": [], "depth": 6})
        else:
            frontier, seen = pre
            for h in frontier:
                out.append({"mode": "quotient", "prefix": h, "depth": 6, "seen": seen})
    return out


def _completions(prefix, depth):
    """Maximal histories below ``prefix``: length == depth and ending in a run (a trailing non-run op is unobservable,
    and every shorter history is a prefix of one of these, judged at each of its runs)."""
    rest = depth - len(prefix)
    if rest == 0:
        if _valid(prefix):
            yield list(prefix)
        return
    for tail in itertools.product(OPS, repeat=rest):
        if tail[-1] not in RUNS:
            continue
        h = list(prefix) + list(tail)
        if _valid(h):
            yield h


class _Acc:
    def __init__(self):
        self.res = {
            "evaluations": 0,
            "transitions": 0,
            "states": set(),
            "nontrivial": set(),
            "outcomes": {},
            "violations": [],
            "harness_errors": [],
            "samples": [],
            "extra": {"caps_hit": 0, "violating_prefixes": 0, "runs_judged": 0, "pruned_by_quotient": 0},
        }
        self.reported = set()
        self.per_sig = {}

    def add(self, history, r):
        res = self.res
        res["evaluations"] += 1
        res["transitions"] += len(history)
        res["extra"]["runs_judged"] += r["nruns"]
        if r["harness_error"]:
            res["harness_errors"].append({"history": list(history), "error": r["harness_error"]})
            return
        res["states"].update(r["states"])
        if r["nontrivial"]:
            res["nontrivial"].add(_hash(tuple(history)))
        res["outcomes"][r["outcome"]] = res["outcomes"].get(r["outcome"], 0) + 1
        for i, rule, cause, detail in r["violations"]:
            sig = f"{rule}|{cause}"
            key = (tuple(history[: i + 1]), sig)
            if key in self.reported:
                continue
            self.reported.add(key)
            res["extra"]["violating_prefixes"] += 1
            n = self.per_sig.get(sig, 0)
            self.per_sig[sig] = n + 1
            if n < MAXV:
                res["violations"].append({"rule": rule, "detail": f"history {' '.join(history[: i + 1])}: {detail}", "signature": sig, "history": list(history[: i + 1])})
        if len(res["samples"]) < 2 and r["nontrivial"]:
            res["samples"].append({"history": list(history), "outcome": r["outcome"], "violations": [v[3] for v in r["violations"]][:2]})


def run_item(item):
    acc = _Acc()
    prefix, depth = item["prefix"], item["depth"]
    if item["mode"] == "exhaustive":
        for h in _completions(prefix, depth):
            acc.add(h, run_history(h))
        return acc.res
    if item["mode"] == "quotient-unavailable":
        acc.res["extra"]["caps_hit"] = 1
        return acc.res
    # quotient BFS below the prefix.  'seen' = every state the parent's BFS reached at depth <= len(prefix): those are
    # expanded by the work item that owns them (or were, at a smaller depth, inside the parent's BFS).
    r = run_history(prefix, want_digest=True)
    acc.add(prefix, r)
    if r["harness_error"]:
        return acc.res
    if r["digests"][-1] is None:
        acc.res["extra"]["caps_hit"] = 1
        return acc.res
    visited = set(item.get("seen", ()))
    visited.add(r["digests"][-1])
    acc.res["states"].add("q" + r["digests"][-1])
    frontier = [list(prefix)]
    for level in range(len(prefix), depth):
        nxt = []
        last = level == depth - 1
        for h in frontier:
            for op in enabled_ops(h):
                if last and op not in RUNS:
                    continue
                h2 = h + [op]
                r2 = run_history(h2, want_digest=not last)
                acc.add(h2, r2)
                if r2["harness_error"] or last:
                    continue
                dg = r2["digests"][-1]
                if dg is None:
                    acc.res["extra"]["caps_hit"] = 1
                elif dg in visited:
                    acc.res["extra"]["pruned_by_quotient"] += 1
                else:
                    visited.add(dg)
                    acc.res["states"].add("q" + dg)
                    nxt.append(h2)
        frontier = nxt
    return acc.res


def replay(payload):
    h = payload["history"]
    r = run_history(h)
    if r["harness_error"]:
        return [{"rule": "harness-error", "detail": r["harness_error"], "signature": "harness-error"}]
    return [{"rule": rule, "detail": f"history {' '.join(h[: i + 1])}: {detail}", "signature": f"{rule}|{cause}", "history": h[: i + 1]} for i, rule, cause, detail in r["violations"]]
