"""C27 - spiral / spiral_fermat stay inside the requested rectangle; spiral_square_pattern covers the grid once.

S engine on parameter grids (pure functions of plan_patterns; no plan, no engine).
"""

import hashlib
import itertools
import math

ID = "C27"
LEVEL = "model_checking"
TOL = 1e-9

GRIDS = {
    "quick": {
        "centres": (0.0, -3.5),
        "ranges": (1.0, 2.5),
        "dr": (0.3, 1.0),
        "dr_y_factor": (None, 0.5, 2.0),
        "nth": (1, 5),
        "factor": (1.0, 2.0),
        "tilt": (0.0, 0.3, -0.3),
        "square_num": tuple(range(2, 10)),
        "square_centres": (0.0, -3.5),
        "square_ranges": (1.0, 2.5),
    },
    "thorough": {
        "centres": (0.0, -3.5),
        "ranges": (0.5, 1.0, 2.5, 10.0),
        "dr": (0.1, 0.3, 1.0, 3.0),
        "dr_y_factor": (None, 0.25, 0.5, 1.0, 2.0, 4.0),
        "nth": (1, 2, 5, 8),
        "factor": (0.5, 1.0, 2.0, 3.0),
        "tilt": (0.0, 0.1, -0.1, 0.3, -0.3, 0.7, -0.7),
        "square_num": tuple(range(2, 17)),
        "square_centres": (0.0, -3.5),
        "square_ranges": (1.0, 2.5, 10.0),
    },
}

RULE = (
    "S: every combination of x/y centre, x/y range, dr, dr_y (None or k*dr), nth (spiral) or factor (spiral_fermat) and tilt "
    "from the grids in describe() through plan_patterns.spiral and spiral_fermat; spiral_square_pattern for every x_num,y_num in "
    "2..9 (2..16 thorough) x centres x ranges. Oracle: tilt=0 -> every point within the axis-parallel rectangle |x-xc|<=x_range/2, "
    "|y-yc|<=y_range/2 (1e-9); tilt!=0 -> |y-yc|<=y_range/2 and |x-xc|<=x_range/2+(y_range/2)|tan tilt|*max(1,dr/dr_y) "
    "(weakest envelope of a 'tilted rectangle'); pairs spiral/spiral_fermat with the same tilted request and dr_y != dr: some shear convention (real or ring-normalised y, either sign) must contain every point of BOTH patterns (one requested rectangle); square spiral: points map one-to-one onto the x_num*y_num grid spanning the ranges. "
    "Non-trivial spiral case = >=4 points and at least one in the outer half of the rectangle (|dx|>x_range/4 or |dy|>y_range/4); "
    "non-trivial square case = more than one ring (max(x_num,y_num)>=3)."
)
ASSUMPTIONS = [
    "numeric property decided on the finite grids listed under 'bounds'; nothing is claimed between grid points",
    "the geometry of the 'tilted rectangle' is a don't-care (DESIGN.md 3): for tilt!=0 only the bounding envelope of the sheared "
    "region is demanded, widened by max(1, dr/dr_y) because the code shears in ring-normalised coordinates",
    "x_num or y_num = 1 (division by zero in spiral_square_pattern) is outside the alphabet",
    "comparisons use an absolute tolerance of 1e-9",
]


def describe(tier):
    g = GRIDS[tier]
    return {"bounds": {k: list(v) for k, v in g.items()}}


def _spiral_cases(tier):
    g = GRIDS[tier]
    out = []
    for fn in ("spiral", "spiral_fermat"):
        third = g["nth"] if fn == "spiral" else g["factor"]
        for xc, yc, xr, yr, dr, dyf, p3, tilt in itertools.product(
            g["centres"], g["centres"], g["ranges"], g["ranges"], g["dr"], g["dr_y_factor"], third, g["tilt"]
        ):
            out.append((fn, xc, yc, xr, yr, dr, dyf, p3, tilt))
    return out


def _pair_cases(tier):
    """spiral and spiral_fermat with the SAME rectangle request (tilted, dr_y != dr): one requested rectangle, so one region."""
    g = GRIDS[tier]
    out = []
    for xc, yc, xr, yr, dr, dyf, tilt in itertools.product(g["centres"], g["centres"][:1], g["ranges"], g["ranges"], g["dr"], g["dr_y_factor"], g["tilt"]):
        if dyf is None or dyf == 1.0 or tilt == 0.0:
            continue
        for nth, factor in zip(g["nth"][-2:], g["factor"][-2:]):
            out.append(("pair", xc, yc, xr, yr, dr, dyf, nth, factor, tilt))
    return out


def _square_cases(tier):
    g = GRIDS[tier]
    out = []
    for xn, yn, xc, yc, xr, yr in itertools.product(
        g["square_num"], g["square_num"], g["square_centres"], g["square_centres"], g["square_ranges"], g["square_ranges"]
    ):
        out.append(("square", xc, yc, xr, yr, xn, yn))
    return out


def items(tier, seed):
    cases = _spiral_cases(tier) + _pair_cases(tier) + _square_cases(tier)
    size = 120 if tier == "quick" else 400
    return [{"cases": cases[i : i + size]} for i in range(0, len(cases), size)]


class _M:
    parent = None

    def __init__(self, name):
        self.name = name

    def __repr__(self):
        return self.name

    def __hash__(self):
        return hash(self.name)

    def __eq__(self, o):
        return self is o


XM, YM = _M("x"), _M("y")


def _points(cyc):
    return [(float(p[XM]), float(p[YM])) for p in cyc]


def _dry_class(dyf):
    if dyf is None:
        return "none"
    return "lt" if dyf < 1 else ("eq" if dyf == 1 else "gt")


def run_case(case):
    """-> (violations, info)"""
    from bluesky import plan_patterns as pp

    fn = case[0]
    vs = []
    if fn in ("spiral", "spiral_fermat"):
        _, xc, yc, xr, yr, dr, dyf, p3, tilt = case
        dr_y = None if dyf is None else dyf * dr
        f = getattr(pp, fn)
        try:
            pts = _points(f(XM, YM, xc, yc, xr, yr, dr, p3, dr_y=dr_y, tilt=tilt))
        except Exception as e:  # noqa: BLE001 - e.g. no candidate inside the rectangle: cycler refuses to add empty cyclers
            # no point was produced, so the statement (about produced points) has nothing to say: recorded as an outcome class
            return [], {"nontrivial": False, "outcome": f"{fn}:raises-{type(e).__name__}", "npoints": 0}
        hx, hy = xr / 2.0, yr / 2.0
        if tilt == 0.0:
            xlim = hx
        else:
            widen = 1.0 if dyf is None else max(1.0, 1.0 / dyf)
            xlim = hx + hy * abs(math.tan(tilt)) * widen
        worst = {"x": (0.0, None), "y": (0.0, None)}
        for x, y in pts:
            ex = abs(x - xc) - xlim
            ey = abs(y - yc) - hy
            if ex > TOL and ex > worst["x"][0]:
                worst["x"] = (ex, (x, y))
            if ey > TOL and ey > worst["y"][0]:
                worst["y"] = (ey, (x, y))
        for axis in ("x", "y"):
            exc, pt = worst[axis]
            if pt is not None:
                vs.append(
                    {
                        "rule": "out-of-rectangle",
                        "detail": (
                            f"{fn}(x_start={xc}, y_start={yc}, x_range={xr}, y_range={yr}, dr={dr}, "
                            f"{'nth' if fn == 'spiral' else 'factor'}={p3}, dr_y={dr_y}, tilt={tilt}): point {pt} is {exc:.6g} outside "
                            f"the allowed |{axis}-centre| <= {xlim if axis == 'x' else hy:.6g}"
                        ),
                        "signature": f"out-of-rectangle|{fn}|dr_y={_dry_class(dyf)}|tilt={'0' if tilt == 0.0 else 'nz'}|axis={axis}",
                        "case": list(case),
                    }
                )
        outer = any(abs(x - xc) > xr / 4.0 or abs(y - yc) > yr / 4.0 for x, y in pts)
        n = len(pts)
        bucket = "0" if n == 0 else ("1-9" if n < 10 else ("10-99" if n < 100 else "100+"))
        return vs, {"nontrivial": n >= 4 and outer, "outcome": f"{fn}:n={bucket}:dr_y={_dry_class(dyf)}:{'tilt' if tilt else 'flat'}", "npoints": n}
    if fn == "pair":
        _, xc, yc, xr, yr, dr, dyf, nth, factor, tilt = case
        dr_y = dyf * dr
        try:
            a = _points(pp.spiral(XM, YM, xc, yc, xr, yr, dr, nth, dr_y=dr_y, tilt=tilt))
            b = _points(pp.spiral_fermat(XM, YM, xc, yc, xr, yr, dr, factor, dr_y=dr_y, tilt=tilt))
        except Exception as e:  # noqa: BLE001 - no point produced by one of them: nothing to compare
            return [], {"nontrivial": False, "outcome": f"pair:raises-{type(e).__name__}", "npoints": 0}
        hx = xr / 2.0
        t = math.tan(tilt)
        # the shear convention of the 'tilted rectangle' is a don't-care (real y or ring-normalised y, either sign), but
        # it is ONE rectangle: some convention must contain every point of BOTH patterns
        family = [(name, k) for name, k in (("ring-y", 1.0 / dyf), ("real-y", 1.0), ("ring-y-neg", -1.0 / dyf), ("real-y-neg", -1.0))]
        fits = {}
        for name, k in family:
            fits[name] = (
                all(abs((x - xc) + k * (y - yc) * t) <= hx + TOL for x, y in a),
                all(abs((x - xc) + k * (y - yc) * t) <= hx + TOL for x, y in b),
            )
        common = [n_ for n_, (fa, fb) in fits.items() if fa and fb]
        only_a = [n_ for n_, (fa, fb) in fits.items() if fa]
        only_b = [n_ for n_, (fa, fb) in fits.items() if fb]
        if not common:
            vs.append(
                {
                    "rule": "patterns-disagree-on-tilted-rectangle",
                    "detail": (
                        f"x_start={xc}, y_start={yc}, x_range={xr}, y_range={yr}, dr={dr}, dr_y={dr_y}, tilt={tilt}: spiral(nth={nth}) fits the sheared rectangle "
                        f"conventions {only_a or 'none'}, spiral_fermat(factor={factor}) fits {only_b or 'none'}; no convention contains both"
                    ),
                    "signature": f"patterns-disagree-on-tilted-rectangle|dr_y={_dry_class(dyf)}|spiral={'+'.join(only_a) or 'none'}|fermat={'+'.join(only_b) or 'none'}",
                    "case": list(case),
                }
            )
        # non-trivial = the two conventions are distinguishable on this data (some point of a or b falls outside one of them)
        disc = any(not (fa and fb) for fa, fb in fits.values())
        return vs, {"nontrivial": disc and len(a) >= 4 and len(b) >= 4, "outcome": f"pair:dr_y={_dry_class(dyf)}:common={len(common)}", "npoints": len(a) + len(b)}
    # square spiral
    _, xc, yc, xr, yr, xn, yn = case
    pts = _points(pp.spiral_square_pattern(XM, YM, xc, yc, xr, yr, xn, yn))
    dx, dy = xr / (xn - 1), yr / (yn - 1)
    x0, y0 = xc - xr / 2.0, yc - yr / 2.0
    seen = {}
    bad = None
    for k, (x, y) in enumerate(pts):
        i, j = round((x - x0) / dx), round((y - y0) / dy)
        if abs(x0 + i * dx - x) > TOL or abs(y0 + j * dy - y) > TOL or not (0 <= i < xn and 0 <= j < yn):
            bad = ("off-grid-point", f"point #{k} {(x, y)} is not a node of the grid")
            break
        if (i, j) in seen:
            bad = ("grid-point-twice", f"node {(i, j)} produced at #{seen[(i, j)]} and #{k}")
            break
        seen[(i, j)] = k
    if bad is None and len(seen) != xn * yn:
        missing = sorted(set(itertools.product(range(xn), range(yn))) - set(seen))
        bad = ("grid-point-missing", f"{len(missing)} nodes never produced, first {missing[0]}")
    if bad is not None:
        par = f"x{'even' if xn % 2 == 0 else 'odd'}-y{'even' if yn % 2 == 0 else 'odd'}"
        rel = "x>y" if xn > yn else ("x<y" if xn < yn else "x=y")
        vs.append(
            {
                "rule": bad[0],
                "detail": f"spiral_square_pattern(x_center={xc}, y_center={yc}, x_range={xr}, y_range={yr}, x_num={xn}, y_num={yn}): {bad[1]} ({len(pts)} points)",
                "signature": f"{bad[0]}|spiral_square_pattern|{par}|{rel}",
                "case": list(case),
            }
        )
    return vs, {"nontrivial": max(xn, yn) >= 3, "outcome": f"square:{'sq' if xn == yn else 'rect'}:{xn % 2}{yn % 2}", "npoints": len(pts)}


def run_item(item):
    violations, states, nontrivial, outcomes = [], set(), set(), {}
    n = npts = 0
    sample = None
    for case in item["cases"]:
        case = tuple(case)
        n += 1
        key = hashlib.sha256(repr(case).encode()).hexdigest()[:12]
        states.add(key)
        vs, info = run_case(case)
        npts += info["npoints"]
        if info["nontrivial"]:
            nontrivial.add(key)
        o = info["outcome"] + (":VIOL" if vs else "")
        outcomes[o] = outcomes.get(o, 0) + 1
        violations.extend(vs)
        if sample is None and info["nontrivial"]:
            sample = {"case": list(case), "npoints": info["npoints"], "outcome": o}
    return {
        "evaluations": n,
        "transitions": n + npts,
        "states": states,
        "nontrivial": nontrivial,
        "outcomes": outcomes,
        "violations": violations,
        "samples": [sample] if sample else [],
        "extra": {"caps_hit": 0, "points_checked": npts},
    }


def replay(payload):
    return run_case(tuple(payload["case"]))[0]
