"""C08 - RunEngineInterrupted means paused unless the plan was terminated."""

from bsv.oracles import engine
from bsv.oracles.docstream import check_docstream
from bsv.props import _x1
from bsv.props._x1 import spec

ID = "C08"
LEVEL = "model_checking"
RULE = (
    "X1: pause / deferred pause / suspension (and, as second deviation, abort/stop/halt) at every loop position of the "
    "corpus scenarios, including the positions after the plan's last message and inside clean-up, x every post-pause decision; "
    "oracle per caller call RE(...)/resume(): RunEngineInterrupted with no accepted abort/stop/halt and every effective "
    "interruption in a resumable place => state 'paused' and a following resume() is accepted; with only non-resumable "
    "interruptions => 'idle' and all runs closed; normal return => state idle and the plan generator returned; "
    "non-trivial = behaviour digest differs from the reference run"
)
ASSUMPTIONS = _x1.X1_ASSUMPTIONS + [
    "a pause after 'clear_checkpoint ... checkpoint' is a don't-care (the statements do not say whether a later checkpoint re-arms); "
    "when both a pause/suspension and an accepted abort/stop/halt are in one schedule either outcome (paused | idle+closed) is accepted",
]

P = [("pause",), ("dpause",), ("suspend", "none")]
T = [("abort",), ("stop",), ("halt",)]
_corpus = ["count2", "scan2", "nested", "monitor1", "fly1", "cleanup", "clearcp", "subs", "bare", "tworuns", "lifecycle", "tiny"]
SPECS = {
    "quick": [spec(k, P, bound=1) for k in _corpus] + [spec(k, P, bound=1, a=1) for k in ("scan2", "cleanup", "bare")] + [spec("tiny", P + T, bound=2)]
    + [spec("bare", [("pause",), ("suspend", "none")], bound=2, a=1)],  # a second request while the engine settles async devices for a pause
    "thorough": [spec(k, P, bound=1) for k in _corpus]
    + [spec(k, P, bound=1, a=1) for k in _corpus]
    + [spec(k, P + T, bound=2) for k in ("tiny", "lifecycle", "clearcp", "bare")]
    + [spec("tiny", P + T, bound=2, a=1)]
    + [spec(k, P + T, bound=2, a=1) for k in ("bare", "scan2")],
}


def oracle(scn, obs, ref, schedule):
    from bluesky._vendor.super_state_machine.errors import TransitionError
    from bluesky.utils import RunEngineInterrupted

    out = []
    if obs.outcome != "ok":
        return out  # C07's business
    spans = engine.call_spans(obs)
    inter = engine.interruptions(obs)
    for k, (c, s, r) in enumerate(spans):
        if c["name"] not in ("RE", "resume") or r is None:
            continue
        e = c["exc"]
        if isinstance(e, RunEngineInterrupted):
            terms = [t for t in obs.timeline[:r] if t[0] == "inject" and t[1].split(":")[0] in engine.TERMINATORS]
            mine = [x for x in inter if s <= x[1] < r]
            res = {x[2] for x in mine}
            state = c["state_after"]
            closed = not [v for v in check_docstream(obs.docs, [c["ndocs"]], schema=False) if v[0] == "open-at-idle"]
            if state == "paused":
                if res == {"no"} and not terms:
                    out.append(("paused-in-nonresumable-section", f"{c['name']}() left the engine paused although every interruption was after clear_checkpoint"))
                # resumable: the caller's resume() must be accepted
                if k + 1 < len(spans) and spans[k + 1][0]["name"] == "resume":
                    e2 = spans[k + 1][0]["exc"]
                    if isinstance(e2, TransitionError) or (isinstance(e2, RuntimeError) and "RunEngine is" in str(e2)):
                        out.append(("paused-but-resume-refused", f"resume() raised {type(e2).__name__}: {e2}"))
            elif state == "idle":
                if not closed:
                    out.append(("interrupted-idle-run-open", f"{c['name']}() raised RunEngineInterrupted, engine idle, a run is still open"))
                if not terms and "no" not in res and "ambiguous" not in res:
                    what = ",".join(sorted({x[0] for x in mine})) or "no-effective-interruption"
                    out.append(("interrupted-but-idle", f"{c['name']}() raised RunEngineInterrupted with state idle; no abort/stop/halt, interruptions in this call: {what}"))
            else:
                out.append(("interrupted-transient", f"{c['name']}() raised RunEngineInterrupted with state {state}"))
        elif e is None:
            if c["state_after"] != "idle":
                out.append(("returned-not-idle", f"{c['name']}() returned normally with state {c['state_after']}"))
            ends = [t for t in obs.timeline[:r] if t[0] == "plan_end"]
            if getattr(scn, "track", True) and (not ends or ends[-1][1] != "returned"):
                out.append(("returned-plan-incomplete", f"{c['name']}() returned normally but the plan generator did not return ({ends[-1] if ends else 'still suspended'})"))
    return out


items, run_item, replay, describe = _x1.bind(SPECS, oracle)
