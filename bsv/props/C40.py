"""C40 - interruption records are complete and uniquely numbered."""

from bsv.oracles.docstream import runs_of
from bsv.props import _x1
from bsv.props._x1 import spec

ID = "C40"
LEVEL = "model_checking"
RULE = (
    "X1 with record_interruptions in {True, False}: plans with 0-2 checkpoints between interruptions, nested runs with run keys, two "
    "consecutive runs, a plan with its own Msg('pause'); injected pauses / deferred pauses / suspensions at every loop position, "
    "<= 2 (quick) / <= 3 on the smallest (thorough) interruptions, x post-pause decisions. Oracle per run: the events of its "
    "'interruptions' stream are exactly one per pause that took effect, per RE.resume() and per suspension started while that run was "
    "open, in that order and with those contents; seq_nums are 1..K; RunStop.num_events['interruptions'] == K; recording off => no "
    "descriptor named 'interruptions'; non-trivial = at least one interruption was recorded"
)
ASSUMPTIONS = _x1.X1_ASSUMPTIONS + ["the release of a suspension is not a 'resume' in the sense of the statement (no record is required for it)"]

P = [("pause",), ("dpause",), ("suspend", "none")]
SPECS = {
    "quick": [spec(k, P, bound=1, ri=1) for k in ("tiny", "planpause", "count2", "nested", "tworuns", "cpspace")]
    + [spec("tiny", P, bound=1, ri=0), spec("tiny", P, bound=2, ri=1)],
    "thorough": [spec(k, [("pause",), ("suspend", "none")], bound=3, ri=1) for k in ("tiny",)]
    + [spec(k, P, bound=2, ri=1) for k in ("count2", "nested", "tworuns", "planpause", "cpspace")]
    + [spec(k, P, bound=1, ri=1, a=1) for k in ("count2", "nested", "tworuns", "scan2", "monitor2")]
    + [spec(k, P, bound=2, ri=0) for k in ("tiny", "nested")],
}


def expected_records(obs):
    """[(timeline index, content)] of the records the statement requires, from what happened."""
    out = []
    for i, t in enumerate(obs.timeline):
        if t[0] == "state" and t[1] == "pausing":
            out.append((i, "pause"))
        elif t[0] == "call" and t[1] == "resume":
            out.append((i, "resume"))
        elif t[0] == "msg" and t[2] == "_start_suspender":
            m = obs.msgs[t[1]]
            just = m.args[2] if len(m.args) > 2 else None
            out.append((i, just if just is not None else "suspended"))
    return out


def oracle(scn, obs, ref, schedule):
    out = []
    if obs.outcome != "ok":
        return out
    tl = obs.timeline
    doc_at = {t[1]: i for i, t in enumerate(tl) if t[0] == "doc"}
    exp = expected_records(obs)
    docs = obs.docs
    # index documents by identity to find their position
    pos = {id(doc): k for k, (_n, doc) in enumerate(docs)}
    for ri, run in enumerate(runs_of(docs)):
        i_open = doc_at[pos[id(run["start"])]]
        i_close = doc_at[pos[id(run["stop"])]] if run["stop"] is not None else len(tl)
        idesc = [d for d in run["descriptors"].values() if d.get("name") == "interruptions"]
        if not scn.record_interruptions:
            if idesc:
                out.append(("interruptions-stream-although-disabled", f"run#{ri} has an 'interruptions' descriptor with recording off"))
            continue
        if not idesc:
            out.append(("no-interruptions-descriptor", f"run#{ri}: recording on but no 'interruptions' descriptor"))
            continue
        duid = idesc[0]["uid"]
        evs = [e for e in run["events"] if e["descriptor"] == duid]
        want = [c for i, c in exp if i_open < i < i_close]
        got = [e["data"].get("interruption") for e in evs]
        if got != want:
            out.append((f"interruption-records-differ:{len(got)}-vs-{len(want)}", f"run#{ri}: recorded {got}, happened while open {want}"))
        seqs = [e["seq_num"] for e in evs]
        if seqs != list(range(1, len(evs) + 1)):
            out.append(("interruption-seqnums", f"run#{ri}: seq_nums {seqs}"))
        if run["stop"] is not None:
            n = run["stop"].get("num_events", {}).get("interruptions", 0)
            if n != len(evs):
                out.append(("interruption-num-events", f"run#{ri}: num_events['interruptions']={n}, events emitted {len(evs)}"))
    return out


items, run_item, replay, describe = _x1.bind(SPECS, oracle)
