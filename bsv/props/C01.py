"""C01 - every opened run is a well-formed document stream, whatever happens."""

from bsv.oracles.docstream import check_docstream
from bsv.props import _x1
from bsv.props._x1 import spec

ID = "C01"
LEVEL = "model_checking"
RULE = (
    "X1: for each corpus scenario, the default execution and every execution with <= bound deviations "
    "(request in {pause,deferred pause,abort,stop,halt,suspend} at every loop position incl. mid-callback; "
    "device fault raise/failed-status at every ledger op) x every post-pause decision vector; plus a subscriber that raises on the i-th document for every i (thorough: combined with one request at every position); "
    "non-trivial = behaviour digest (docs, msgs, calls, states, ledger) differs from the reference run"
)
ASSUMPTIONS = _x1.X1_ASSUMPTIONS

F = ("raise", "fail")
CBFAIL = [("tiny", 4), ("nested", 12), ("monitor1", 8), ("fly1", 8), ("tworuns", 10)]  # (scenario, >= number of documents it emits)
_q = ["count2", "scan2", "nested", "monitor1", "fly1", "cleanup", "clearcp", "subs", "baseline", "bare", "tworuns", "grid22s"]
SPECS = {
    "quick": [spec(k, bound=1, faults=F) for k in _q] + [spec(k, bound=1, faults=F, a=1) for k in ("scan2", "cleanup", "bare", "fly1")]
    + [spec(k, bound=1, faults=F, ri=1) for k in ("tiny", "nested", "planpause")]
    + [spec("tiny", bound=2, faults=F)]  # every pair of deviations on the smallest run
    # a document consumer that raises on the i-th document (ignore_callback_exceptions=False, the default), every i
    + [spec(k, [], bound=0, cbfail=i, ri=ri) for k, n in CBFAIL for ri in (0, 1) for i in range(n + ri * 2)],
    "thorough": [spec(k, bound=1, faults=F) for k in _q]
    + [spec(k, bound=1, faults=F, ri=1, a=a) for k in ("tiny", "nested", "planpause", "count2", "monitor2") for a in (0, 1)]
    + [spec(k, bound=1, faults=F, a=1) for k in _q]
    + [spec(k, bound=2, faults=F) for k in ("tiny", "tworuns", "bare", "clearcp")]
    + [spec("tiny", bound=2, faults=F, a=1)]
    + [spec(k, bound=1, cbfail=i, ri=ri) for k, n in CBFAIL for ri in (0, 1) for i in range(n + ri * 2)],
}


def oracle(scn, obs, ref, schedule):
    out = []
    if obs.outcome in ("deadlock", "livelock"):
        return out  # lifecycle problems are C07's business
    idle_points = [c["ndocs_drained"] for c in obs.calls if c.get("state_drained") == "idle"]
    out.extend(check_docstream(obs.docs, idle_points))
    return out


items, run_item, replay, describe = _x1.bind(SPECS, oracle)
