"""More X1 scenarios (registered into corpus.REGISTRY on import)."""

from bsv.harness.devices import FakeDet, FakeFlyer, FakeMotor, FakeSignal
from bsv.scenarios.corpus import Base, register


@register
class Monitor2(Base):
    """Monitored signal that is updated (by the beamline, here: in-line between messages) once per point."""

    id = "monitor2"

    def devices(self, ctx):
        return {
            "sig": FakeSignal(ctx, "sig", initial=0),
            "det": FakeDet(ctx, "det", is_async=self.a, trigger=("delay", 0.5), stageable=False),
        }

    def plan(self, d):
        import bluesky.plan_stubs as bps
        import bluesky.preprocessors as bpp

        n = self.params.get("n", 2)

        def body():
            yield from bps.open_run()
            yield from bps.monitor(d["sig"], name="sig_monitor")
            for i in range(n):
                yield from bps.checkpoint()
                d["sig"].put(10 + i)  # an update arriving between two messages
                yield from bps.trigger_and_read([d["det"]])
                d["sig"].put(20 + i)
            yield from bps.unmonitor(d["sig"])
            d["sig"].put(99)  # after unmonitor: must not be recorded
            yield from bps.close_run()

        return body()


class PeakDet(FakeDet):
    """Gaussian-ish response to the first motor's position (deterministic)."""

    def __init__(self, *a, center=0.5, width=0.6, **kw):
        super().__init__(*a, **kw)
        self.center = center
        self.width = width

    def value(self):
        import math

        x = self.motors[0].position
        return round(math.exp(-(((x - self.center) / self.width) ** 2)), 9)


@register
class Adaptive(Base):
    id = "adaptive"

    def devices(self, ctx):
        m = FakeMotor(ctx, "m", is_async=self.a, move=("delay", 0.5))
        return {"m": m, "det": PeakDet(ctx, "det", is_async=self.a, motors=[m], stageable=False)}

    def plan(self, d):
        import bluesky.plans as bp

        return bp.adaptive_scan([d["det"]], "det", d["m"], 0.0, 1.0, 0.2, 0.5, 0.3, True)


@register
class TuneC(Base):
    id = "tunec"

    def devices(self, ctx):
        m = FakeMotor(ctx, "m", is_async=self.a, move=("now",))
        return {"m": m, "det": PeakDet(ctx, "det", is_async=self.a, motors=[m], stageable=False)}

    def plan(self, d):
        import bluesky.plans as bp

        return bp.tune_centroid([d["det"]], "det", d["m"], 0.0, 1.0, 0.3, num=3, step_factor=2.0)


@register
class TwoMotors(Base):
    """Two motors moved together (one slow), stop-on-pause and stop-at-end visible in the ledger."""

    id = "twomotors"

    def devices(self, ctx):
        m1 = FakeMotor(ctx, "m1", is_async=self.a, move=("delay", 2.0), stageable=True)
        m2 = FakeMotor(ctx, "m2", is_async=self.a, move=("delay", 0.5))
        return {"m1": m1, "m2": m2, "det": FakeDet(ctx, "det", is_async=self.a, motors=[m1, m2])}

    def plan(self, d):
        import bluesky.plans as bp

        return bp.scan([d["det"]], d["m1"], 0, 1, d["m2"], 5, 6, 2)


@register
class BareCp(Base):
    """A run the plan never closes, with a non-resumable section: the engine closes it, also after a FailedPause."""

    id = "barecp"

    def devices(self, ctx):
        m = FakeMotor(ctx, "m", is_async=self.a, move=("delay", 1.0))
        return {"m": m, "det": FakeDet(ctx, "det", is_async=self.a, motors=[m], stageable=False)}

    def plan(self, d):
        import bluesky.plan_stubs as bps

        def plan():
            yield from bps.open_run()
            yield from bps.checkpoint()
            yield from bps.trigger_and_read([d["det"]])
            yield from bps.clear_checkpoint()
            yield from bps.mv(d["m"], 1)
            yield from bps.trigger_and_read([d["det"]])

        return plan()


@register
class PlanPause(Base):
    """A plan that pauses itself (Msg('pause')), once right after a checkpoint and once two messages after one."""

    id = "planpause"

    def devices(self, ctx):
        return {"det": FakeDet(ctx, "det", is_async=self.a, stageable=False)}

    def plan(self, d):
        import bluesky.plan_stubs as bps
        from bluesky.utils import Msg

        def plan():
            yield from bps.open_run()
            yield from bps.checkpoint()
            yield Msg("pause")
            yield from bps.trigger_and_read([d["det"]])
            yield from bps.checkpoint()
            yield Msg("null", None, "a")
            yield Msg("pause")
            yield from bps.trigger_and_read([d["det"]])
            yield from bps.close_run()

        return plan()


@register
class Monitor1Short(Base):
    """monitor_during_wrapper around a one-point count with an instant detector (short enough for bound 3)."""

    id = "monitor1short"

    def devices(self, ctx):
        return {"sig": FakeSignal(ctx, "sig", initial=0), "det": FakeDet(ctx, "det", is_async=self.a, stageable=False)}

    def plan(self, d):
        import bluesky.plans as bp
        import bluesky.preprocessors as bpp

        return bpp.monitor_during_wrapper(bp.count([d["det"]], num=1), [d["sig"]])


@register
class Resp(Base):
    """One message of every command kind whose response a plan may use, with delayed statuses and a sleep."""

    id = "resp"

    def devices(self, ctx):
        m = FakeMotor(ctx, "m", is_async=self.a, move=("delay", 0.5))
        return {"m": m, "det": FakeDet(ctx, "det", is_async=self.a, motors=[m], trigger=("delay", 0.25))}

    def plan(self, d):
        from bluesky.utils import Msg

        def plan():
            yield Msg("stage", d["det"])
            tok = yield Msg("subscribe", None, lambda n, doc: None, "event")
            uid = yield Msg("open_run")
            yield Msg("checkpoint")
            yield Msg("set", d["m"], 1.0, group="g")
            yield Msg("wait", None, group="g")
            yield Msg("trigger", d["det"], group="t")
            yield Msg("wait", None, group="t")
            yield Msg("create", None, name="primary")
            yield Msg("read", d["det"])
            yield Msg("read", d["m"])
            yield Msg("save")
            yield Msg("sleep", None, 0.25)
            yield Msg("null")
            yield Msg("close_run")
            yield Msg("unsubscribe", None, tok)
            yield Msg("unstage", d["det"])
            return uid

        return plan()


@register
class FlyOnly(Base):
    """bp.fly: kickoff / complete / collect without step readings."""

    id = "flyonly"

    def devices(self, ctx):
        return {"fly": FakeFlyer(ctx, "fly", is_async=self.a, kick=("delay", 0.5), comp=("delay", 1.0))}

    def plan(self, d):
        import bluesky.plans as bp

        return bp.fly([d["fly"]])
