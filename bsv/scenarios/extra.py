"""More X1 scenarios (registered into corpus.REGISTRY on import)."""

from bsv.harness.devices import FakeDet, FakeFlyer, FakeMotor, FakeSignal
from bsv.scenarios.corpus import Base, register


@register
class Monitor2(Base):
    """Monitored signal that is updated (by the beamline, here: in-line between messages) once per point."""

    id = "monitor2"

    def devices(self, ctx):
        return {
            "sig": FakeSignal(ctx, "sig", initial=0),
            "det": FakeDet(ctx, "det", is_async=self.a, trigger=("delay", 0.5), stageable=False),
        }

    def plan(self, d):
        import bluesky.plan_stubs as bps
        import bluesky.preprocessors as bpp

        n = self.params.get("n", 2)

        def body():
            yield from bps.open_run()
            yield from bps.monitor(d["sig"], name="sig_monitor")
            for i in range(n):
                yield from bps.checkpoint()
                d["sig"].put(10 + i)  # an update arriving between two messages
                yield from bps.trigger_and_read([d["det"]])
                d["sig"].put(20 + i)
            yield from bps.unmonitor(d["sig"])
            d["sig"].put(99)  # after unmonitor: must not be recorded
            yield from bps.close_run()

        return body()


class PeakDet(FakeDet):
    """Gaussian-ish response to the first motor's position (deterministic)."""

    def __init__(self, *a, center=0.5, width=0.6, **kw):
        super().__init__(*a, **kw)
        self.center = center
        self.width = width

    def value(self):
        import math

        x = self.motors[0].position
        return round(math.exp(-(((x - self.center) / self.width) ** 2)), 9)


@register
class Adaptive(Base):
    id = "adaptive"

    def devices(self, ctx):
        m = FakeMotor(ctx, "m", is_async=self.a, move=("delay", 0.5))
        return {"m": m, "det": PeakDet(ctx, "det", is_async=self.a, motors=[m], stageable=False)}

    def plan(self, d):
        import bluesky.plans as bp

        return bp.adaptive_scan([d["det"]], "det", d["m"], 0.0, 1.0, 0.2, 0.5, 0.3, True)


@register
class TuneC(Base):
    id = "tunec"

    def devices(self, ctx):
        m = FakeMotor(ctx, "m", is_async=self.a, move=("now",))
        return {"m": m, "det": PeakDet(ctx, "det", is_async=self.a, motors=[m], stageable=False)}

    def plan(self, d):
        import bluesky.plans as bp

        return bp.tune_centroid([d["det"]], "det", d["m"], 0.0, 1.0, 0.3, num=3, step_factor=2.0)


@register
class TwoMotors(Base):
    """Two motors moved together (one slow), stop-on-pause and stop-at-end visible in the ledger."""

    id = "twomotors"

    def devices(self, ctx):
        m1 = FakeMotor(ctx, "m1", is_async=self.a, move=("delay", 2.0), stageable=True)
        m2 = FakeMotor(ctx, "m2", is_async=self.a, move=("delay", 0.5))
        return {"m1": m1, "m2": m2, "det": FakeDet(ctx, "det", is_async=self.a, motors=[m1, m2])}

    def plan(self, d):
        import bluesky.plans as bp

        return bp.scan([d["det"]], d["m1"], 0, 1, d["m2"], 5, 6, 2)


@register
class LongMove(Base):
    """A slow move started BEFORE a checkpoint and waited for after it: a pause in between stops the motor, nothing replays the set."""

    id = "longmove"

    def devices(self, ctx):
        m = FakeMotor(ctx, "m", is_async=self.a, move=("delay", 3.0))
        return {"m": m, "det": FakeDet(ctx, "det", is_async=self.a, stageable=False)}

    def plan(self, d):
        import bluesky.plan_stubs as bps

        def plan():
            yield from bps.open_run()
            yield from bps.abs_set(d["m"], 1, group="lm")
            yield from bps.checkpoint()
            yield from bps.trigger_and_read([d["det"]])
            yield from bps.checkpoint()
            yield from bps.trigger_and_read([d["det"]])
            yield from bps.wait(group="lm")
            yield from bps.close_run()

        return plan()


@register
class BareCp(Base):
    """A run the plan never closes, with a non-resumable section: the engine closes it, also after a FailedPause."""

    id = "barecp"

    def devices(self, ctx):
        m = FakeMotor(ctx, "m", is_async=self.a, move=("delay", 1.0))
        return {"m": m, "det": FakeDet(ctx, "det", is_async=self.a, motors=[m], stageable=False)}

    def plan(self, d):
        import bluesky.plan_stubs as bps

        def plan():
            yield from bps.open_run()
            yield from bps.checkpoint()
            yield from bps.trigger_and_read([d["det"]])
            yield from bps.clear_checkpoint()
            yield from bps.mv(d["m"], 1)
            yield from bps.trigger_and_read([d["det"]])

        return plan()


@register
class PlanPause(Base):
    """A plan that pauses itself (Msg('pause')), once right after a checkpoint and once two messages after one."""

    id = "planpause"

    def devices(self, ctx):
        return {"det": FakeDet(ctx, "det", is_async=self.a, stageable=False)}

    def plan(self, d):
        import bluesky.plan_stubs as bps
        from bluesky.utils import Msg

        def plan():
            yield from bps.open_run()
            yield from bps.checkpoint()
            yield Msg("pause")
            yield from bps.trigger_and_read([d["det"]])
            yield from bps.checkpoint()
            yield Msg("null", None, "a")
            yield Msg("pause")
            yield from bps.trigger_and_read([d["det"]])
            yield from bps.close_run()

        return plan()


@register
class Monitor1Short(Base):
    """monitor_during_wrapper around a one-point count with an instant detector (short enough for bound 3)."""

    id = "monitor1short"

    def devices(self, ctx):
        return {"sig": FakeSignal(ctx, "sig", initial=0), "det": FakeDet(ctx, "det", is_async=self.a, stageable=False)}

    def plan(self, d):
        import bluesky.plans as bp
        import bluesky.preprocessors as bpp

        return bpp.monitor_during_wrapper(bp.count([d["det"]], num=1), [d["sig"]])


@register
class Resp(Base):
    """One message of every command kind whose response a plan may use, with delayed statuses and a sleep."""

    id = "resp"

    def devices(self, ctx):
        m = FakeMotor(ctx, "m", is_async=self.a, move=("delay", 0.5))
        return {"m": m, "det": FakeDet(ctx, "det", is_async=self.a, motors=[m], trigger=("delay", 0.25))}

    def plan(self, d):
        from bluesky.utils import Msg

        def plan():
            yield Msg("stage", d["det"])
            tok = yield Msg("subscribe", None, lambda n, doc: None, "event")
            uid = yield Msg("open_run")
            yield Msg("checkpoint")
            yield Msg("set", d["m"], 1.0, group="g")
            yield Msg("wait", None, group="g")
            yield Msg("trigger", d["det"], group="t")
            yield Msg("wait", None, group="t")
            yield Msg("create", None, name="primary")
            yield Msg("read", d["det"])
            yield Msg("read", d["m"])
            yield Msg("save")
            yield Msg("sleep", None, 0.25)
            yield Msg("null")
            yield Msg("close_run")
            yield Msg("unsubscribe", None, tok)
            yield Msg("unstage", d["det"])
            return uid

        return plan()


@register
class SuspReal(Base):
    """A real SuspendBoolHigh(sig, sleep=S) installed on the engine; trip / release come as sig.put(1) / sig.put(0)."""

    id = "suspreal"

    def devices(self, ctx):
        m = FakeMotor(ctx, "m", is_async=self.a, move=("delay", 1.0))
        return {
            "sig": FakeSignal(ctx, "sig", initial=self.params.get("initial", 0)),
            "m": m,
            "det": FakeDet(ctx, "det", is_async=self.a, motors=[m], stageable=False),
        }

    def configure(self, RE, d):
        from bluesky.suspenders import SuspendBoolHigh
        from bluesky.utils import Msg

        pp = self.params.get("plans", 1)
        scn = self

        class Logged(SuspendBoolHigh):
            """The real suspender; only notes, for the diagnosis of a violation, what the engine's state was when an update was handled."""

            def __call__(self, value, **kw):
                super().__call__(value, **kw)
                ctx = d["sig"].ctx
                ctx.timeline.append(("sus_call", value, str(self.RE.state) if self.RE is not None else None, round(ctx.loop.time(), 6)))

        Logged.__name__ = "SuspendBoolHigh"
        self.sus = Logged(
            d["sig"],
            sleep=self.params.get("sleep", 2),
            pre_plan=[Msg("null", None, "PRE")] if pp else None,
            post_plan=[Msg("null", None, "POST")] if pp else None,
        )
        self.RE = RE
        self.log = []  # ('install'|'remove'|'put', value, exception type name or None)
        pre = self.params.get("pre")
        if pre is None:
            if self.params.get("install", 1):
                RE.install_suspender(self.sus)
        else:
            for op in pre:  # history before the call: I install, R remove, T trip (put 1), O ok (put 0)
                self.do_op(op, d)

    def do_op(self, op, d):
        try:
            if op == "I":
                self.RE.install_suspender(self.sus)
            elif op == "R":
                self.RE.remove_suspender(self.sus)
            elif op == "X":
                self.sus.remove()  # the suspender's own remove(), as RE.remove_suspender calls it; twice is "again"
            elif op == "T":
                d["sig"].put(1)
            elif op == "O":
                d["sig"].put(0)
            self.log.append((op, None))
        except Exception as e:  # noqa: BLE001 - "removing it again is harmless": anything raised is the observation
            self.log.append((op, type(e).__name__))

    def custom_event(self, sess, ev):
        before = len(self.log)
        self.do_op(ev[1], sess.d)
        sess.timeline.append(("op", ev[1], self.log[before][1] if len(self.log) > before else None))

    def env_default(self, sess):
        if sess.d["sig"].get():
            sess.timeline.append(("env_release",))
            sess.d["sig"].put(0)
            return True
        return False

    def plan(self, d):
        import bluesky.plan_stubs as bps

        def plan():
            yield from bps.open_run()
            for i in range(2):
                yield from bps.checkpoint()
                yield from bps.mv(d["m"], float(i + 1))
                yield from bps.trigger_and_read([d["det"]])
            yield from bps.close_run()

        return plan()


def interleavings(n=4):
    """All merges of two n-unit sequences that keep each sequence's order: tuples over {0,1} with n zeros and n ones."""
    import itertools

    out = []
    for ones in itertools.combinations(range(2 * n), n):
        out.append(tuple(1 if i in ones else 0 for i in range(2 * n)))
    return out


@register
class Keys(Base):
    """Two runs under run keys k1/k2 (or None for the first when nokey=1), bodies interleaved as params['il'] says.

    unit sequence per run: open_run, checkpoint+bundle, checkpoint+bundle, close_run.  params['dup'] = j inserts, before
    unit j of the merged sequence, an open_run for a key that is open at that moment (if any).
    """

    id = "keys"

    def devices(self, ctx):
        return {
            "d1": FakeDet(ctx, "d1", is_async=self.a, offset=100.0, stageable=False),
            "d2": FakeDet(ctx, "d2", is_async=self.a, offset=200.0, stageable=False),
        }

    def plan(self, d):
        from bluesky.utils import Msg

        il = interleavings()[self.params.get("il", 0)]
        dup = self.params.get("dup")
        keys = [None if self.params.get("nokey") else "k1", "k2"]
        dets = [d["d1"], d["d2"]]

        def unit(r, u):
            k, det = keys[r], dets[r]
            if u == 0:
                yield Msg("open_run", None, run=k, key=str(k))
            elif u == 3:
                yield Msg("close_run", None, run=k)
            else:
                yield Msg("null", None, f"lead{r}")  # something replayable before the unit's checkpoint
                yield Msg("checkpoint")
                yield Msg("trigger", det, group=f"t{r}")
                yield Msg("wait", None, group=f"t{r}")
                yield Msg("create", None, name="primary", run=k)
                yield Msg("read", det, run=k)
                yield Msg("save", None, run=k)

        def plan():
            nxt = [0, 0]
            for j, r in enumerate(il):
                if dup is not None and dup == j:
                    open_keys = [keys[x] for x in (0, 1) if 0 < nxt[x] < 4]
                    if open_keys:
                        yield Msg("open_run", None, run=open_keys[0], key="DUP")
                yield from unit(r, nxt[r])
                nxt[r] += 1

        return plan()


@register
class ClearCp2(Base):
    """After clear_checkpoint only IMPLICIT checkpoints follow (stage, subscribe, monitor, close_run of an inner run)."""

    id = "clearcp2"

    def devices(self, ctx):
        return {"det": FakeDet(ctx, "det", is_async=self.a), "sig": FakeSignal(ctx, "sig")}

    def plan(self, d):
        import bluesky.plan_stubs as bps
        import bluesky.preprocessors as bpp
        from bluesky.utils import Msg

        def body():
            yield from bps.checkpoint()
            yield Msg("null", None, 0)
            yield from bps.clear_checkpoint()
            yield Msg("null", None, 1)
            yield from bps.stage(d["det"])
            yield Msg("null", None, 2)
            yield from bps.sleep(0.5)
            tok = yield from bps.subscribe("all", lambda n, doc: None)
            yield Msg("null", None, 3)
            yield from bps.monitor(d["sig"], name="mon")
            yield Msg("null", None, 4)
            yield from bps.unmonitor(d["sig"])
            yield from bps.unsubscribe(tok)
            yield from bps.unstage(d["det"])
            yield Msg("null", None, 5)
            yield from bps.sleep(0.5)

        def plan():
            try:
                yield from bpp.run_wrapper(body())
            finally:
                yield Msg("null", None, "CLEANUP")

        return plan()


@register
class Watch(Base):
    """wait(group=A, watch=[W]) while W's status is still in progress, then wait(W): W failing must surface by then."""

    id = "watch"

    def devices(self, ctx):
        m1 = FakeMotor(ctx, "m1", is_async=self.a, move=("delay", 0.5))
        m2 = FakeMotor(ctx, "m2", is_async=self.a, move=("delay", 2.0))
        return {"m1": m1, "m2": m2, "det": FakeDet(ctx, "det", is_async=self.a, motors=[m1], stageable=False)}

    def plan(self, d):
        from bluesky.utils import Msg

        def plan():
            yield Msg("open_run")
            yield Msg("checkpoint")
            yield Msg("set", d["m2"], 5.0, group="W")  # slow, watched
            yield Msg("set", d["m1"], 1.0, group="A")
            yield Msg("wait", None, group="A", watch=["W"])
            yield Msg("null", None, "between")
            yield Msg("wait", None, group="W")
            yield Msg("checkpoint")
            yield Msg("trigger", d["det"], group="t")
            yield Msg("wait", None, group="t")
            yield Msg("create", None, name="primary")
            yield Msg("read", d["det"])
            yield Msg("save")
            yield Msg("checkpoint")
            yield Msg("null", None, "late")
            yield Msg("close_run")

        return plan()


@register
class Stubbed(Base):
    """An inner plan run through stub_wrapper (open_run/close_run/stage/unstage dropped) inside an outer run; the
    inner plan's own yields are logged: a dropped message must yield None, a forwarded one its own response."""

    id = "stubbed"
    log_yields = False

    def devices(self, ctx):
        m = FakeMotor(ctx, "m", is_async=self.a, move=("delay", 0.5))
        return {"m": m, "det": FakeDet(ctx, "det", is_async=self.a, motors=[m], trigger=("delay", 0.25))}

    def __init__(self, **params):
        super().__init__(**params)
        self.log_yields = False  # the logger sits around the INNER plan, not at the top level

    def plan(self, d):
        import bluesky.plan_stubs as bps
        import bluesky.preprocessors as bpp
        from bluesky.utils import Msg

        def inner():
            # every dropped message (stage, open_run, close_run, unstage) comes right after one with a response
            yield Msg("checkpoint")
            yield Msg("set", d["m"], 1.0, group="g")
            yield Msg("open_run")
            yield Msg("wait", None, group="g")
            yield Msg("stage", d["det"])
            yield Msg("trigger", d["det"], group="t")
            yield Msg("unstage", d["det"])
            yield Msg("wait", None, group="t")
            yield Msg("create", None, name="primary")
            yield Msg("read", d["det"])
            yield Msg("close_run")
            yield Msg("save")

        def plan():
            yield from bps.open_run()
            yield from bpp.stub_wrapper(self.sess._logged(inner(), "propagate"))
            yield from bps.close_run()

        return plan()


@register
class MonitorPP(Base):
    """A monitored run whose plan pauses itself twice (Msg('pause')): with one injected update every second pause is covered."""

    id = "monitorpp"

    def devices(self, ctx):
        return {"sig": FakeSignal(ctx, "sig", initial=0), "det": FakeDet(ctx, "det", is_async=self.a, stageable=False)}

    def plan(self, d):
        import bluesky.plan_stubs as bps
        from bluesky.utils import Msg

        def plan():
            yield from bps.open_run()
            if self.params.get("late"):
                # a first pause -> resume BEFORE any monitor exists in the run
                yield from bps.checkpoint()
                yield Msg("pause")
            yield from bps.monitor(d["sig"], name="sig_monitor")
            yield from bps.checkpoint()
            d["sig"].put(10)
            yield Msg("pause")
            d["sig"].put(11)
            yield from bps.trigger_and_read([d["det"]])
            yield from bps.checkpoint()
            yield Msg("pause")
            d["sig"].put(12)
            yield from bps.sleep(0.5)
            yield from bps.unmonitor(d["sig"])
            yield from bps.close_run()

        return plan()


@register
class Bare2(Base):
    """Two devices staged and never unstaged by the plan, run left open: all of it is the engine's to clean up."""

    id = "bare2"

    def devices(self, ctx):
        m = FakeMotor(ctx, "m", is_async=self.a, move=("delay", 1.0), stageable=True)
        return {"m": m, "det": FakeDet(ctx, "det", is_async=self.a, motors=[m]), "det2": FakeDet(ctx, "det2", is_async=self.a)}

    def plan(self, d):
        import bluesky.plan_stubs as bps

        def plan():
            yield from bps.stage(d["det"])
            yield from bps.stage(d["m"])
            yield from bps.stage(d["det2"])
            yield from bps.open_run()
            yield from bps.checkpoint()
            yield from bps.mv(d["m"], 1)
            yield from bps.trigger_and_read([d["det"], d["det2"]])

        return plan()


@register
class FlyOnly(Base):
    """bp.fly: kickoff / complete / collect without step readings."""

    id = "flyonly"

    def devices(self, ctx):
        return {"fly": FakeFlyer(ctx, "fly", is_async=self.a, kick=("delay", 0.5), comp=("delay", 1.0))}

    def plan(self, d):
        import bluesky.plans as bp

        return bp.fly([d["fly"]])


@register
class Susp2(Base):
    """Two real SuspendBoolHigh suspenders (signals sa, sb) installed on one engine.

    params['pre']: history before the call over  T/O = sa.put(1)/put(0),  t/o = sb.put(1)/put(0),  R/r = RE.remove_suspender(A/B).
    params['order']: which tripped signal the environment brings back first ('ab' | 'ba').
    """

    id = "susp2"

    def devices(self, ctx):
        return {
            "sa": FakeSignal(ctx, "sa", initial=0),
            "sb": FakeSignal(ctx, "sb", initial=0),
            "det": FakeDet(ctx, "det", is_async=self.a, stageable=False),
        }

    def configure(self, RE, d):
        from bluesky.suspenders import SuspendBoolHigh

        self.RE = RE
        sl = self.params.get("sleep", 0)
        ho = self.params.get("ho", "ab")

        class Ordered(SuspendBoolHigh):
            """RE.suspenders is a set: give the two members fixed hashes so that its iteration order is the same in every
            execution (params['ho'] picks which of the two orders)."""

            def __hash__(self):
                return self._bsv_hash

        Ordered.__name__ = "SuspendBoolHigh"
        self.sus = {"a": Ordered(d["sa"], sleep=sl), "b": Ordered(d["sb"], sleep=sl)}
        self.sus["a"]._bsv_hash = 1 + ho.index("a")
        self.sus["b"]._bsv_hash = 1 + ho.index("b")
        for k in self.params.get("install", "ab"):
            RE.install_suspender(self.sus[k])
        self.log = []
        for op in self.params.get("pre", ""):
            self.do_op(op, d)

    def do_op(self, op, d):
        try:
            if op in "Tt":
                d["sa" if op == "T" else "sb"].put(1)
            elif op in "Oo":
                d["sa" if op == "O" else "sb"].put(0)
            elif op in "Rr":
                self.RE.remove_suspender(self.sus["a" if op == "R" else "b"])
            self.log.append((op, None))
        except Exception as e:  # noqa: BLE001 - whatever is raised is the observation
            self.log.append((op, type(e).__name__))

    def custom_event(self, sess, ev):
        before = len(self.log)
        self.do_op(ev[1], sess.d)
        sess.timeline.append(("op", ev[1], self.log[before][1] if len(self.log) > before else None))

    def env_default(self, sess):
        for k in self.params.get("order", "ab"):
            sig = sess.d["s" + k]
            if sig.get():
                sess.timeline.append(("env_release", k))
                sig.put(0)
                return True
        return False

    def plan(self, d):
        import bluesky.plan_stubs as bps

        def plan():
            yield from bps.open_run()
            yield from bps.checkpoint()
            yield from bps.trigger_and_read([d["det"]])
            yield from bps.close_run()

        return plan()


KEYSW_KEYS = ["k1", "k2", 0, "", (), False, 1, 0.0]


@register
class KeysW(Base):
    """Run keys assigned by NESTED set_run_key_wrapper calls (outer key params['ko'], inner key params['ki'], indices
    into KEYSW_KEYS, several of them falsy): the inner run opens and closes while the outer one is open."""

    id = "keysw"

    def devices(self, ctx):
        return {
            "d1": FakeDet(ctx, "d1", is_async=self.a, offset=100.0, stageable=False),
            "d2": FakeDet(ctx, "d2", is_async=self.a, offset=200.0, stageable=False),
        }

    def plan(self, d):
        import bluesky.plan_stubs as bps
        import bluesky.preprocessors as bpp

        ko = KEYSW_KEYS[self.params.get("ko", 0)]
        ki = KEYSW_KEYS[self.params.get("ki", 1)]

        def inner():
            yield from bps.open_run(md={"key": "inner"})
            yield from bps.checkpoint()
            yield from bps.trigger_and_read([d["d2"]])
            yield from bps.close_run()

        def outer():
            yield from bps.open_run(md={"key": "outer"})
            yield from bps.checkpoint()
            yield from bps.trigger_and_read([d["d1"]])
            yield from bpp.set_run_key_wrapper(inner(), ki)
            yield from bps.checkpoint()
            yield from bps.trigger_and_read([d["d1"]])
            yield from bps.close_run()

        return bpp.set_run_key_wrapper(outer(), ko)


@register
class MonitorDoc(Base):
    """A document consumer that writes to the monitored signal while a document of kind params['on'] is being dispatched
    (start | descriptor | event | stop); the run is closed by the plan with the monitor still installed (um=0) or after
    an explicit unmonitor (um=1)."""

    id = "monitordoc"

    def devices(self, ctx):
        return {
            "sig": FakeSignal(ctx, "sig", initial=0),
            "det": FakeDet(ctx, "det", is_async=self.a, stageable=False),
        }

    def configure(self, RE, d):
        on = self.params.get("on", "stop")
        busy = []
        count = [0]

        def writer(name, doc):
            if name == on and not busy:
                busy.append(1)
                try:
                    count[0] += 1
                    d["sig"].put(50 + count[0])
                finally:
                    busy.pop()

        RE.subscribe(writer)

    def plan(self, d):
        import bluesky.plan_stubs as bps

        def plan():
            yield from bps.open_run()
            yield from bps.monitor(d["sig"], name="sig_monitor")
            yield from bps.checkpoint()
            yield from bps.trigger_and_read([d["det"]])
            if self.params.get("um"):
                yield from bps.unmonitor(d["sig"])
            yield from bps.close_run()

        return plan()


@register
class LateFail(Base):
    """A status that outlives its call: the plan triggers the detector (0.5 s) and ends without waiting; the NEXT call
    (the probe: a 1 s sleep) is running when that status finishes.  A late failure belongs to the call that started it."""

    id = "latefail"
    quick_caller = True  # the next call starts before the pending status finishes

    def devices(self, ctx):
        return {"det": FakeDet(ctx, "det", is_async=self.a, trigger=("delay", 0.5), stageable=False)}

    def plan(self, d):
        from bluesky.utils import Msg

        def plan():
            yield Msg("trigger", d["det"], group="g")
            yield Msg("null", None, "end")

        return plan()

    def probe_plan(self, d):
        from bluesky.utils import Msg

        return [Msg("null", None, "next-call"), Msg("sleep", None, 1.0), Msg("null", None, "next-call-end")]
