"""Generated linear plans over the RunEngine's Msg vocabulary (DESIGN.md 2.4 / C04).

A plan is a tuple of item codes.  ``wellformed`` filters sequences the engine accepts in an uninterrupted run
(bundles closed, monitors balanced, runs closed or deliberately left open at the end).
"""

import itertools

from bsv.harness.devices import FakeDet, FakeMotor, FakeSignal
from bsv.scenarios.corpus import Base, register

# item code -> description
ITEMS = {
    "n": "null",
    "cp": "checkpoint",
    "rwF": "rewindable False",
    "rwT": "rewindable True",
    "st": "stage det",
    "us": "unstage det",
    "mo": "monitor sig",
    "um": "unmonitor sig",
    "sub": "subscribe",
    "uns": "unsubscribe",
    "or": "open_run",
    "cr": "close_run",
    "crs": "create/read/save bundle",
    "set": "set+wait (delayed move)",
    "sl": "sleep 0.5",
}
ALPHABET = list(ITEMS)


def wellformed(seq):
    run = False
    mon = False
    sub = 0
    staged = False
    for it in seq:
        if it == "or":
            if run:
                return False
            run = True
        elif it == "cr":
            if not run or mon:
                return False
            run = False
        elif it == "crs":
            if not run:
                return False
        elif it == "mo":
            if not run or mon:
                return False
            mon = True
        elif it == "um":
            if not mon:
                return False
            mon = False
        elif it == "sub":
            sub += 1
        elif it == "uns":
            if sub == 0:
                return False
            sub -= 1
        elif it == "st":
            if staged:
                return False
            staged = True
        elif it == "us":
            if not staged:
                return False
            staged = False
    return not mon  # an open run / staged device / subscription at the end is the engine's to clean up


def interesting(seq):
    """At least one checkpoint-like item and one replayable item: otherwise the replay model has nothing to say."""
    return any(i in seq for i in ("cp", "st", "us", "mo", "um", "sub", "uns", "rwF", "rwT", "cr")) and any(i in seq for i in ("n", "crs", "set", "sl"))


def sequences(maxlen, alphabet=ALPHABET):
    for n in range(1, maxlen + 1):
        for seq in itertools.product(alphabet, repeat=n):
            if wellformed(seq) and interesting(seq):
                yield seq


@register
class Linear(Base):
    """params: seq = '-'-joined item codes; a checkpoint is always put first so that the plan is resumable."""

    id = "linear"

    def devices(self, ctx):
        m = FakeMotor(ctx, "m", is_async=self.a, move=("delay", 0.5))
        return {"m": m, "det": FakeDet(ctx, "det", is_async=self.a, motors=[m], stageable=True), "sig": FakeSignal(ctx, "sig")}

    def plan(self, d):
        from bluesky.utils import Msg

        seq = [s for s in self.params.get("seq", "").split("-") if s]
        tokens = []
        sink = []

        def cb(name, doc):
            sink.append(name)

        def plan():
            yield Msg("checkpoint")
            k = 0
            for it in seq:
                k += 1
                if it == "n":
                    yield Msg("null", None, k)
                elif it == "cp":
                    yield Msg("checkpoint")
                elif it == "rwF":
                    yield Msg("rewindable", None, False)
                elif it == "rwT":
                    yield Msg("rewindable", None, True)
                elif it == "st":
                    yield Msg("stage", d["det"])
                elif it == "us":
                    yield Msg("unstage", d["det"])
                elif it == "mo":
                    yield Msg("monitor", d["sig"], name="mon")
                elif it == "um":
                    yield Msg("unmonitor", d["sig"])
                elif it == "sub":
                    tokens.append((yield Msg("subscribe", None, cb, "all")))
                elif it == "uns":
                    yield Msg("unsubscribe", None, tokens.pop())
                elif it == "or":
                    yield Msg("open_run")
                elif it == "cr":
                    yield Msg("close_run")
                elif it == "crs":
                    yield Msg("create", None, name="primary")
                    yield Msg("read", d["det"])
                    yield Msg("save")
                elif it == "set":
                    yield Msg("set", d["m"], float(k), group="g")
                    yield Msg("wait", None, group="g")
                elif it == "sl":
                    yield Msg("sleep", None, 0.5)
            yield Msg("null", None, "END")

        return plan()
