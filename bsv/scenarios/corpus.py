"""X1 corpus: small scenarios on the real RunEngine (DESIGN.md 9.3).

Every scenario is addressed by (key, params) so that work items stay picklable.
Common params: a=1 -> async device flavour; ri=1 -> record_interruptions.
"""

from bsv.harness.devices import FakeDet, FakeFlyer, FakeMotor, FakeSignal
from bsv.harness.session import Scenario

REGISTRY = {}


def register(cls):
    REGISTRY[cls.id] = cls
    return cls


def make(key, params=None):
    if key not in REGISTRY:
        import bsv.scenarios.extra  # noqa: F401 - registers further scenarios
        import bsv.scenarios.generated  # noqa: F401
    return REGISTRY[key](**(params or {}))


class Base(Scenario):
    def __init__(self, **params):
        super().__init__(**params)
        self.a = bool(params.get("a", 0))
        self.record_interruptions = bool(params.get("ri", 0))
        self.log_yields = bool(params.get("ly", 0))  # log what every yield of the plan receives (C12, C13)
        self.on_error = "swallow" if params.get("oe") == "s" else "propagate"
        if params.get("rr"):
            self.re_kwargs = {"call_returns_result": True}

    def apply_common(self, RE, d):
        if self.params.get("pp"):
            # engine-level preprocessors that change nothing
            import bluesky.preprocessors as bpp

            RE.preprocessors.append(lambda plan: bpp.plan_mutator(plan, lambda msg: (None, None)))
            RE.preprocessors.append(lambda plan: bpp.msg_mutator(plan, lambda msg: msg))
            RE.preprocessors.append(bpp.SupplementalData())


@register
class Count2(Base):
    id = "count2"

    def devices(self, ctx):
        return {"det": FakeDet(ctx, "det", is_async=self.a, trigger=("delay", 0.5))}

    def plan(self, d):
        import bluesky.plans as bp

        return bp.count([d["det"]], num=2)


@register
class Scan2(Base):
    id = "scan2"

    def devices(self, ctx):
        m = FakeMotor(ctx, "m", is_async=self.a, move=("delay", 1.0), stageable=True)
        return {"m": m, "det": FakeDet(ctx, "det", is_async=self.a, motors=[m])}

    def plan(self, d):
        import bluesky.plans as bp

        return bp.scan([d["det"]], d["m"], 1, 2, self.params.get("n", 2))


@register
class RelScan2(Base):
    id = "relscan2"

    def devices(self, ctx):
        m = FakeMotor(ctx, "m", is_async=self.a, move=("delay", 1.0), initial=5.0)
        return {"m": m, "det": FakeDet(ctx, "det", is_async=self.a, motors=[m])}

    def plan(self, d):
        import bluesky.plans as bp

        return bp.rel_scan([d["det"]], d["m"], -1, 1, 2)


@register
class Grid22(Base):
    id = "grid22s"

    def devices(self, ctx):
        m1 = FakeMotor(ctx, "m1", is_async=self.a, move=("delay", 1.0))
        m2 = FakeMotor(ctx, "m2", is_async=self.a, move=("now",))
        return {"m1": m1, "m2": m2, "det": FakeDet(ctx, "det", is_async=self.a, motors=[m1, m2], stageable=False)}

    def plan(self, d):
        import bluesky.plans as bp

        return bp.grid_scan([d["det"]], d["m1"], 0, 10, 2, d["m2"], 1, 2, 2, snake_axes=True)


@register
class ListScan(Base):
    id = "listscan"

    def devices(self, ctx):
        m = FakeMotor(ctx, "m", is_async=self.a, move=("now",))
        return {"m": m, "det": FakeDet(ctx, "det", is_async=self.a, motors=[m], stageable=False)}

    def plan(self, d):
        import bluesky.plans as bp

        return bp.list_scan([d["det"]], d["m"], [3, 1, 2])


@register
class Nested(Base):
    """Two runs open at once under different run keys, bodies interleaved."""

    id = "nested"

    def devices(self, ctx):
        return {
            "d1": FakeDet(ctx, "d1", is_async=self.a, offset=100.0, stageable=False),
            "d2": FakeDet(ctx, "d2", is_async=self.a, offset=200.0, stageable=False),
        }

    def plan(self, d):
        import bluesky.plan_stubs as bps
        import bluesky.preprocessors as bpp

        def one(det, key, n):
            def inner():
                yield from bps.open_run(md={"key": key})
                for _ in range(n):
                    yield from bps.checkpoint()
                    yield from bps.trigger_and_read([det])
                yield from bps.close_run()

            return bpp.set_run_key_wrapper(inner(), key)

        def plan():
            g1 = one(d["d1"], "k1", 2)
            g2 = one(d["d2"], "k2", 2)
            # interleave message by message, forwarding responses
            gens = [g1, g2]
            resp = [None, None]
            live = [True, True]
            while any(live):
                for i, g in enumerate(gens):
                    if not live[i]:
                        continue
                    try:
                        msg = g.send(resp[i])
                    except StopIteration:
                        live[i] = False
                        continue
                    resp[i] = yield msg

        return plan()


@register
class Monitor1(Base):
    id = "monitor1"

    def devices(self, ctx):
        return {
            "sig": FakeSignal(ctx, "sig", initial=0),
            "det": FakeDet(ctx, "det", is_async=self.a, trigger=("delay", 0.5), stageable=False),
        }

    def plan(self, d):
        import bluesky.plans as bp
        import bluesky.preprocessors as bpp

        return bpp.monitor_during_wrapper(bp.count([d["det"]], num=2), [d["sig"]])


@register
class Fly1(Base):
    id = "fly1"

    def devices(self, ctx):
        return {
            "fly": FakeFlyer(ctx, "fly", is_async=self.a, comp=("delay", 1.0)),
            "det": FakeDet(ctx, "det", is_async=self.a, stageable=False),
        }

    def plan(self, d):
        import bluesky.plans as bp
        import bluesky.preprocessors as bpp

        return bpp.fly_during_wrapper(bp.count([d["det"]], num=2), [d["fly"]])


@register
class Cleanup(Base):
    """try/finally + finalize_wrapper, cleanup moves a motor back (async devices give it await points)."""

    id = "cleanup"

    def devices(self, ctx):
        m = FakeMotor(ctx, "m", is_async=self.a, move=("delay", 1.0), stageable=True)
        return {"m": m, "det": FakeDet(ctx, "det", is_async=self.a, motors=[m])}

    def plan(self, d):
        import bluesky.plan_stubs as bps
        import bluesky.preprocessors as bpp

        def body():
            yield from bps.open_run()
            yield from bps.stage(d["det"])
            yield from bps.checkpoint()
            yield from bps.mv(d["m"], 3)
            yield from bps.trigger_and_read([d["det"], d["m"]])
            yield from bps.close_run()

        def final():
            yield from bps.mv(d["m"], 0)
            yield from bps.unstage(d["det"])

        return bpp.finalize_wrapper(body(), final())


@register
class ClearCp(Base):
    """A non-resumable section in the middle of a run wrapped by run_wrapper and try/finally."""

    id = "clearcp"

    def devices(self, ctx):
        return {"det": FakeDet(ctx, "det", is_async=self.a, stageable=False)}

    def plan(self, d):
        import bluesky.plan_stubs as bps
        import bluesky.preprocessors as bpp
        from bluesky.utils import Msg

        k = self.params.get("k", 2)  # position of clear_checkpoint in the body

        def body():
            msgs = [Msg("null", None, i) for i in range(5)]
            yield from bps.checkpoint()
            for i, m in enumerate(msgs):
                if i == k:
                    yield from bps.clear_checkpoint()
                if i == 3:
                    yield from bps.sleep(1)
                yield m
            yield from bps.checkpoint()
            yield from bps.trigger_and_read([d["det"]])

        def plan():
            try:
                yield from bpp.run_wrapper(body())
            finally:
                yield Msg("null", None, "CLEANUP")

        return plan()


@register
class Subs(Base):
    id = "subs"

    def devices(self, ctx):
        return {"det": FakeDet(ctx, "det", is_async=self.a, stageable=False)}

    def configure(self, RE, d):
        self.percall = []
        self.inplan = []

    def snapshot(self, sess):
        return {"percall": len(self.percall), "inplan": len(self.inplan)}

    def call_args(self, d):
        return {"all": [lambda n, doc: self.percall.append(n)]}, {"purpose": "x"}

    def plan(self, d):
        import bluesky.plans as bp
        import bluesky.preprocessors as bpp

        return bpp.subs_wrapper(bp.count([d["det"]], num=2), {"event": [lambda n, doc: self.inplan.append(n)]})

    def probe_plan(self, d):
        import bluesky.plans as bp

        return bp.count([d["det"]], num=1)


@register
class Baseline(Base):
    id = "baseline"

    def devices(self, ctx):
        m = FakeMotor(ctx, "m", is_async=self.a)
        return {"m": m, "det": FakeDet(ctx, "det", is_async=self.a, stageable=False)}

    def configure(self, RE, d):
        from bluesky.preprocessors import SupplementalData

        sd = SupplementalData(baseline=[d["m"]])
        RE.preprocessors.append(sd)

    def plan(self, d):
        import bluesky.plans as bp

        return bp.count([d["det"]], num=2)


@register
class Bare(Base):
    """A run the plan never closes: the engine has to."""

    id = "bare"

    def devices(self, ctx):
        m = FakeMotor(ctx, "m", is_async=self.a, move=("delay", 1.0), stageable=True)
        return {"m": m, "det": FakeDet(ctx, "det", is_async=self.a, motors=[m])}

    def plan(self, d):
        import bluesky.plan_stubs as bps

        def plan():
            yield from bps.stage(d["det"])
            yield from bps.open_run()
            yield from bps.checkpoint()
            yield from bps.mv(d["m"], 1)
            yield from bps.trigger_and_read([d["det"]])
            yield from bps.checkpoint()
            yield from bps.trigger_and_read([d["det"]])

        return plan()


@register
class Lifecycle(Base):
    """6-8 messages: checkpoint, null, awaiting sleep, clear_checkpoint, checkpoint, try/finally."""

    id = "lifecycle"

    def devices(self, ctx):
        return {}

    def plan(self, d):
        import bluesky.plan_stubs as bps
        from bluesky.utils import Msg

        def plan():
            try:
                yield from bps.checkpoint()
                yield Msg("null", None, 1)
                yield from bps.sleep(1)
                yield from bps.clear_checkpoint()
                yield Msg("null", None, 2)
                yield from bps.checkpoint()
                yield Msg("null", None, 3)
            finally:
                yield Msg("null", None, "CLEANUP")

        return plan()


@register
class Tiny(Base):
    """The smallest plan with a run: used for deviation bound 3."""

    id = "tiny"

    def devices(self, ctx):
        return {"det": FakeDet(ctx, "det", is_async=self.a, stageable=False)}

    def plan(self, d):
        import bluesky.plan_stubs as bps

        def plan():
            yield from bps.open_run()
            yield from bps.checkpoint()
            yield from bps.trigger_and_read([d["det"]])
            yield from bps.close_run()

        return plan()


@register
class TwoRuns(Base):
    """Two consecutive runs in one call, no checkpoint between close_run and the next open_run's bundle."""

    id = "tworuns"

    def devices(self, ctx):
        return {"det": FakeDet(ctx, "det", is_async=self.a, stageable=False)}

    def plan(self, d):
        import bluesky.plans as bp

        def plan():
            yield from bp.count([d["det"]], num=1)
            yield from bp.count([d["det"]], num=1)

        return plan()


CORPUS = [
    "count2",
    "scan2",
    "relscan2",
    "grid22s",
    "listscan",
    "nested",
    "monitor1",
    "fly1",
    "cleanup",
    "clearcp",
    "subs",
    "baseline",
    "bare",
    "lifecycle",
    "tiny",
    "tworuns",
]


@register
class CpSpace(Base):
    """Checkpoints at spacing s over n tagged messages; `tail` messages after the last checkpoint."""

    id = "cpspace"

    def devices(self, ctx):
        return {}

    def plan(self, d):
        from bluesky.utils import Msg

        s = self.params.get("s", 2)
        n = self.params.get("n", 6)
        tail = self.params.get("tail", 2)

        nr = self.params.get("nr", 0)  # the whole body runs with rewindable switched off (nothing is cached for replay)

        def plan():
            if nr:
                yield Msg("rewindable", None, False)
            for i in range(n):
                if i % s == 0:
                    yield Msg("checkpoint")
                if i == 1:
                    yield Msg("sleep", None, 0.25)
                yield Msg("null", None, i)
            for i in range(tail):
                yield Msg("null", None, f"tail{i}")
            if nr:
                yield Msg("rewindable", None, True)

        return plan()
